"""Shared obligation: on the call-graph slice of a property's entry points nothing reads a local name in front of every
binding of it (UnboundLocalError on first execution) or an attribute of self that nothing ever defines for that class
(AttributeError).  A necessary condition of every "terminates without raising / never fails / always returns" clause;
it is what a deleted initialisation or a deleted `self.x = x` violates while the module still imports and the tests
that never reach the function still pass."""
from .effects import Effects
from . import lints

_cache = {}


def check_defined(rep, repo, rule, roots, label):
    key = repo.root
    if key not in _cache:
        _cache[key] = (Effects(repo), lints.attribute_definitions(repo))
    E, defs = _cache[key]
    lints._current_repo[0] = repo
    roots = [r for r in roots if r is not None]
    slice_ = sorted(E.reachable(roots), key=lambda f: f.where)
    n_bad = 0
    for f in slice_:
        for name, line in lints.use_before_any_binding(f):
            n_bad += 1
            rep.fail(rule, f.where, '%s: every local name is bound before it is read' % label, got='%s is read at line %d and bound only further down (UnboundLocalError on the first pass)' % (name, line),
                     want='a binding in front of the first read', construct='unbound local %s in %s' % (name, f.qualname), loc='%s:%d' % (f.relpath, line))
        for name, line in lints.flags_without_default(f):
            n_bad += 1
            rep.fail(rule, f.where, '%s: a flag has a value on every path to its test' % label,
                     got='%s is only ever assigned constants under a condition; at line %d it holds one of them or nothing at all (UnboundLocalError when the condition never held)' % (name, line),
                     want='a default assignment in front of the conditional ones', construct='flag %s without default in %s' % (name, f.qualname), loc='%s:%d' % (f.relpath, line))
        for pname, line, how in lints.mutable_default_mutations(f):
            n_bad += 1
            rep.fail(rule, f.where, '%s: nothing is kept between calls in a default argument' % label, got='default argument %s of %s is changed in place at line %d (%s): the next call starts from what this one left' % (pname, f.qualname, line, how),
                     want='%s=None and a fresh container inside' % pname, construct='mutable default %s filled in %s' % (pname, f.qualname), loc='%s:%d' % (f.relpath, line))
        for line, acc, how in lints.partial_accumulations_in_try(f):
            n_bad += 1
            rep.fail(rule, f.where, '%s: an accumulation is complete or reported as failed' % label, got='%s is accumulated in a loop inside try ... %s, and the handler does not reset it: when the exception strikes, the sum of the iterations done so far is used' % (acc, how),
                     want='test the condition per element (hasattr), or reset every accumulator in the handler', construct='partial accumulation of %s in %s' % (acc, f.qualname), loc='%s:%d' % (f.relpath, line))
        for line, txt in lints.fancy_index_updates(f):
            n_bad += 1
            rep.fail(rule, f.where, '%s: every occurrence of an index is counted' % label, got='%s: with a list of indices numpy applies the update once per DISTINCT index' % txt, want='np.add.at(arr, idx, v) or a loop',
                     construct='fancy-index update in %s' % f.qualname, loc='%s:%d' % (f.relpath, line))
        for line, name, idx in lints.falsy_position_tests(f):
            n_bad += 1
            rep.fail(rule, f.where, '%s: "found at position 0" is told apart from "not found"' % label, got='%s holds None or the 0-based index %s and is tested for truth at line %d: position 0 counts as absent' % (name, idx, line),
                     want='`is None` / `is not None`', construct='truth test of the position %s in %s' % (name, f.qualname), loc='%s:%d' % (f.relpath, line))
        for name, line in lints.iterators_consumed_twice(f, repo):
            n_bad += 1
            rep.fail(rule, f.where, '%s: a one-shot iterator is consumed once' % label, got='%s is a generator / iterator object; its second consumer (line %d) finds it exhausted and sees nothing' % (name, line),
                     want='a list, or one expression per consumer', construct='iterator %s consumed twice in %s' % (name, f.qualname), loc='%s:%d' % (f.relpath, line))
        for line, txt in lints.shared_containers(repo, f):
            n_bad += 1
            rep.fail(rule, f.where, '%s: containers that are filled separately are separate objects' % label, got=txt, want='one fresh container per name / per slot',
                     construct='shared container in %s' % f.qualname, loc='%s:%d' % (f.relpath, line))
        for line, txt in lints.identity_comparisons(repo, f):
            n_bad += 1
            rep.fail(rule, f.where, '%s: values are compared with ==, identity only with None / True / False' % label, got='%s (true only while both happen to be the same object, e.g. ints up to 256)' % txt,
                     want='==', construct='identity comparison of values in %s' % f.qualname, loc='%s:%d' % (f.relpath, line))
        for line, g, missing, txt in lints.partial_key_caches(repo, f):
            n_bad += 1
            rep.fail(rule, f.where, '%s: a result kept between calls is reused only for the same inputs' % label,
                     got='module-level %s keeps a value that depends on %s and hands it out again under %s (a later call with another %s gets the stale value)' % (g, missing, txt[:120], missing),
                     want='no state between calls, or a key made of every input', construct='stale cache %s in %s (ignores %s)' % (g, f.qualname, missing), loc='%s:%d' % (f.relpath, line))
        for callee, line, txt in lints.crossed_arguments(f, E.calls.get(f, [])):
            n_bad += 1
            rep.fail(rule, f.where, '%s: arguments are passed in the order of the parameters they are named after' % label, got=txt,
                     want='the two arguments exchanged', construct='arguments crossed in the call of %s from %s' % (callee, f.qualname), loc='%s:%d' % (f.relpath, line))
        for callee, line in lints.procedure_results_used(f, E.calls.get(f, [])):
            n_bad += 1
            rep.fail(rule, f.where, '%s: a call whose value is used returns one' % label,
                     got='the result of %s(...) is used at line %d, but %s contains no `return <value>`: the value is None' % (callee, line, callee),
                     want='a return statement in %s' % callee, construct='%s returns nothing, result used in %s' % (callee, f.qualname), loc='%s:%d' % (f.relpath, line))
        for cls, attr, line in lints.never_defined_attributes(repo, f, defs):
            n_bad += 1
            rep.fail(rule, f.where, '%s: every attribute that is read is defined somewhere for its class' % label,
                     got='.%s of a %s object is read at line %d; nothing assigns it on a %s (AttributeError)' % (attr, cls, line, cls),
                     want='an assignment of %s.%s' % (cls, attr), construct='attribute %s.%s never defined' % (cls, attr), loc='%s:%d' % (f.relpath, line))
        for attr, line in lints.vacuous_hasattr_probes(repo, f):
            n_bad += 1
            rep.fail(rule, f.where, '%s: a hasattr probe distinguishes objects that have the attribute from objects that do not' % label,
                     got='hasattr(..., %r) at line %d is always true: __init__ sets .%s to None, so the guarded code runs with None where it expects a value' % (attr, line, attr),
                     want='`is not None` (or no None initialisation)', construct='vacuous hasattr probe of %s in %s' % (attr, f.qualname), loc='%s:%d' % (f.relpath, line))
        for name, line in lints.undefined_names(repo, f):
            n_bad += 1
            rep.fail(rule, f.where, '%s: every name that is read is bound in the function, in its module or by an import' % label,
                     got='%s is read at line %d and bound nowhere (NameError)' % (name, line), want='a binding of %s' % name, construct='undefined name %s in %s' % (name, f.qualname),
                     loc='%s:%d' % (f.relpath, line))
        for line, test in lints.stuck_loops(f):
            n_bad += 1
            rep.fail(rule, f.where, '%s: every loop makes progress' % label, got='while %s: the body changes none of the names the test reads (the loop never ends)' % test,
                     want='the loop counter is advanced', construct='loop without progress in %s' % f.qualname, loc='%s:%d' % (f.relpath, line))
    if not n_bad:
        rep.ok(rule, roots[0].where if roots else '-', '%s: no read of an unbound local or of a never-defined attribute in %d functions' % (label, len(slice_)), got='%d functions' % len(slice_))
    rep.count('defined_slice_functions', len(slice_))
