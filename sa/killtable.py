"""Regenerates the kill table of DESIGN.md (section 13) from seeded/*/meta.json and a fresh cross matrix:
   /venv/bin/python -m sa.killtable            (runs every check on every seeded variant on scratch copies, ~55 min on 16 cores with 660 variants)"""
import json, os, re, sys

from .report import VERIF
from . import selftest

PIDS = ['C%02d' % i for i in range(1, 19)]


def main():
    kinds = {}
    titles = {}
    for name, d, meta in selftest.variants(None):
        kinds[name] = meta.get('kind', 'break')
        titles[name] = (meta.get('title') or '').replace('|', '/')
    cache_file = os.environ.get('SA_KILLTABLE_FROM')
    if cache_file:
        # merge mode: results of an earlier full run (its dump) are reused for every variant except those matching
        # SA_KILLTABLE_RERUN (a regular expression) and those the dump does not know; DESIGN.md must say so when this is used
        cached = json.load(open(cache_file))
        rer = re.compile(os.environ.get('SA_KILLTABLE_RERUN', r'^$'))
        m = {}
        todo = []
        for name in kinds:
            if rer.search(name) or any('%s %s' % (name, p) not in cached for p in PIDS):
                todo.append(name)
            else:
                for p in PIDS:
                    m[(name, p)] = cached['%s %s' % (name, p)]
        print('kill table: %d variants re-run, %d taken from %s' % (len(todo), len(kinds) - len(todo), cache_file))
        import tempfile, shutil
        tmpd = tempfile.mkdtemp(prefix='sa-kt-')
        try:
            for name in todo:
                os.symlink(os.path.join(VERIF, 'seeded', name), os.path.join(tmpd, name))
            m.update(selftest.matrix(PIDS, ('break', 'twin'), base=tmpd))
        finally:
            shutil.rmtree(tmpd, ignore_errors=True)
    else:
        m = selftest.matrix(PIDS, ('break', 'twin'))
    rows_b, rows_t = [], []
    stats = {'breaks': 0, 'own': 0, 'sibling': [], 'exit2': [], 'silent': []}
    if os.environ.get('SA_KILLTABLE_DUMP'):
        json.dump({'%s %s' % k: {'exit': v.get('exit'), 'lines': v.get('lines', [])[:3]} for k, v in m.items()}, open(os.environ['SA_KILLTABLE_DUMP'], 'w'), indent=0)
    for name in sorted(kinds, key=lambda n: (re.sub(r'\d+$', '', n), int(re.search(r'(\d+)$', n).group(1)) if re.search(r'(\d+)$', n) else 0)):
        hits = [p for p in PIDS if m.get((name, p), {}).get('exit') == 1]
        inc = [p for p in PIDS if m.get((name, p), {}).get('exit') == 2]
        if kinds[name] == 'break':
            rule = ''
            own = json.load(open(os.path.join(VERIF, 'seeded', name, 'meta.json'))).get('property')
            r = m.get((name, own), {})
            for l in r.get('lines', []):
                mm = re.search(r'REFUTED (C\d\d\.R\d+)', l)
                if mm:
                    rule = mm.group(1)
                    break
            stats['breaks'] += 1
            if own in hits:
                stats['own'] += 1
            elif hits:
                stats['sibling'].append(name)
            elif inc:
                stats['exit2'].append(name)
            else:
                stats['silent'].append(name)
            rows_b.append('| %s | %s | %s | %s | %s |' % (name, titles[name][:110], rule or '-',
                                                     ' '.join(hits) or ('*none (exit 2 only)*' if inc else '**silent**'), ' '.join(inc)))
        else:
            rows_t.append((name, hits, inc))
    out = ['| variant | change | first rule of its own check | checks that exit 1 | exit 2 |', '|---|---|---|---|---|'] + rows_b
    alarmed = [(n, h, i) for n, h, i in rows_t if h or i]
    out.append('')
    out.append('Breaking changes: %d variants. %d are reported (exit 1, VIOLATION line) by the check of the property they were written against; '
               '%d only by the check of a sibling property%s; %d draw no VIOLATION but an inconclusive answer (exit 2) from every check that looks at the changed code%s; '
               '%d pass every check silently%s.' % (
                   stats['breaks'], stats['own'], len(stats['sibling']), ' (%s)' % ', '.join(stats['sibling']) if stats['sibling'] else '',
                   len(stats['exit2']), ' (%s)' % ', '.join(stats['exit2']) if stats['exit2'] else '',
                   len(stats['silent']), ' (%s)' % ', '.join(stats['silent']) if stats['silent'] else ''))
    out.append('')
    false_viol = [(n, h) for n, h, i in alarmed if h]
    inconc = [(n, i) for n, h, i in alarmed if i]
    out.append('Behaviour-preserving twins: %d variants x %d checks = %d runs: %d false VIOLATION (exit 1)%s; %d inconclusive (exit 2, "outside the recognised fragment", never a VIOLATION line)%s.' % (
        len(rows_t), len(PIDS), len(rows_t) * len(PIDS), sum(len(h) for n, h in false_viol),
        '' if not false_viol else ' (' + '; '.join('%s: %s' % (n, ' '.join(h)) for n, h in false_viol) + ')',
        sum(len(i) for n, i in inconc), '' if not inconc else ' (' + '; '.join('%s: %s' % (n, ' '.join(i)) for n, i in inconc) + ')'))
    text = '\n'.join(out)
    p = os.path.join(VERIF, 'DESIGN.md')
    s = open(p).read()
    b, e = '<!-- KILLTABLE:BEGIN -->', '<!-- KILLTABLE:END -->'
    if b in s and e in s:
        s = s[:s.index(b) + len(b)] + '\n' + text + '\n' + s[s.index(e):]
        open(p, 'w').write(s)
        print('DESIGN.md kill table updated: %d breaks, %d twins' % (len(rows_b), len(rows_t)))
    else:
        print(text)
    return 1 if stats['silent'] or false_viol else 0


if __name__ == '__main__':
    sys.exit(main())
