"""Shape normalisers shared by several rules: binder chains over the pairs structure, scatter (group-by) summaries,
selection comprehensions.  All work on terms/effects produced by absint, independent of whether the source used
loops, comprehensions, generators, helper functions or lambdas."""
import itertools
from .terms import *
from .absint import iter_effects, collect_acc
from . import lp


def notnone_forms(b):
    return [NOT(CMP('Eq', b, NONE)), CMP('NotEq', b, NONE), NOT(CMP('Is', b, NONE)), CMP('IsNot', b, NONE), b]


def none_forms(b):
    return [CMP('Eq', b, NONE), CMP('Is', b, NONE), NOT(b), NOT(CMP('NotEq', b, NONE)), NOT(CMP('IsNot', b, NONE))]


def is_pairs_rows(dom, model=None):
    a = lp.model_attr(dom)
    if a == 'pairs':
        return True
    return dom[0] == 'attr' and dom[2] == 'pairs' and (model is None or dom[1] == model)


def is_all_pairs_flat(dom):
    if dom[0] == 'call' and dom[1] == S('list') and len(dom[2]) == 1:
        dom = dom[2][0]
    return dom[0] == 'call' and show(dom[1]).endswith('chain.from_iterable') and len(dom[2]) == 1 and is_pairs_rows(dom[2][0])


def all_pairs_chain(chain, model=None):
    """chain (tuple of (binder, guard)) ranging over ALL pairs -> (pair binder, row binder or None, guard on the pair) or None."""
    if len(chain) == 2:
        (rows, g0), (elem, g1) = chain
        if is_pairs_rows(rows[3], model) and elem[3] == rows and g0 == TRUE:
            return elem, rows, g1
    if len(chain) == 1:
        (b, g) = chain[0]
        if is_all_pairs_flat(b[3]):
            return b, None, g
    return None


def ctx_chain(ctx):
    """effect context -> (chain of (binder, guard) from the enclosing for-loops and ifs, other guards before any loop)"""
    chain = []
    pending = TRUE
    for c, br in ctx:
        if c.kind == 'for':
            if chain and pending != TRUE:
                b, g = chain[-1]
                chain[-1] = (b, AND(g, pending))
                pending = TRUE
            chain.append((c.binder, TRUE))
        elif c.kind == 'if':
            g = c.cond if br else NOT(c.cond)
            if chain:
                b, g0 = chain[-1]
                chain[-1] = (b, AND(g0, g))
            else:
                pending = AND(pending, g)
    return tuple(chain), pending


def empty_lists_of(t):
    """[[] for _ in range(N)]  /  [[]] * N is NOT accepted (aliasing) -> N or None"""
    if t[0] == 'comp' and len(t[1]) == 1 and t[2] == ('list', ()) and t[1][0][1] == TRUE:
        dom = t[1][0][0][3]
        if dom[0] == 'call' and dom[1] == S('range') and len(dom[2]) == 1:
            return dom[2][0]
    return None


class Scatter:
    """lists[key(x)].append(x) for x in domain: size, entries [(op, key, value, chain)]"""
    def __init__(self, size, entries, init_loc=None, problems=()):
        self.size, self.entries, self.init_loc, self.problems = size, entries, init_loc, list(problems)


def extract_scatter(effs, target):
    """Find how the attribute `target` (term) is built in an effect list: returns Scatter or raises Unknown."""
    stores = [(e, c) for e, c in iter_effects(effs) if e.kind == 'store' and e.target == target]
    slot_stores = [(e, c) for e, c in iter_effects(effs) if e.kind in ('store', 'augstore') and e.target[0] == 'idx' and e.target[1] == target]
    apps = [(e, c) for e, c in iter_effects(effs) if e.kind == 'append' and e.target[0] == 'idx' and e.target[1] == target]
    problems = []
    if slot_stores:
        e = slot_stores[0][0]
        problems.append(('overwrite', 'slot assignment %s = %s' % (show(e.target), show(e.value)[:80]), e))
    if len(stores) != 1:
        raise Unknown('%d assignments to %s' % (len(stores), show(target)))
    st = stores[0][0]
    v = st.value
    n = empty_lists_of(v)
    entries = []
    if n is not None:
        for e, ctx in apps:
            chain, pre = ctx_chain(ctx)
            if pre != TRUE:
                chain = chain[:-1] + ((chain[-1][0], AND(chain[-1][1], pre)),) if chain else chain
            entries.append((e.op + 'idx', e.target[2], e.value, chain, e))
        return Scatter(n, entries, st, problems)
    if v == ('list', ()) and apps:
        # slots appended on demand: size unknown, the keys can still be judged
        for e, ctx in apps:
            chain, pre = ctx_chain(ctx)
            entries.append((e.op + 'idx', e.target[2], e.value, chain, e))
        return Scatter(None, entries, st, problems)
    if v[0] == 'accum':
        n = empty_lists_of(v[1])
        if n is None:
            raise Unknown('scatter initialiser ' + show(v[1])[:80])
        for op, idx, val, ch in v[2]:
            entries.append((op, idx, val, ch, st))
        return Scatter(n, entries, st, problems)
    tr = transpose_scatter(v)
    if tr is not None:
        return Scatter(None, [tr + (st,)], st, problems)
    fg = filter_groups(v)
    if fg is not None:
        return Scatter(fg[0], [fg[1] + (st,)], st, problems)
    dg = dict_groups(v)
    if dg is not None:
        return Scatter(dg[0], [dg[1] + (st,)], st, problems)
    cp = dict_compaction(v)
    if cp is not None:
        problems.append(('compaction', cp, st))
        return Scatter(None, [], st, problems)
    ov = dict_overwrite(v)
    if ov is not None:
        problems.append(('overwrite', ov, st))
        return Scatter(None, [], st, problems)
    raise Unknown('value assigned to %s is not a recognised group-by: %s' % (show(target), show(v)[:100]))


def dict_compaction(v):
    """[D[k] for k in sorted(D)] (or in D / D.keys()) with D a dict filled by D.setdefault(key, []).append(x): one list per key
    that OCCURS - an agent nobody refers to has no slot, and every later agent moves up one position"""
    if not (v[0] == 'comp' and len(v[1]) == 1 and v[1][0][1] == TRUE):
        return None
    b = v[1][0][0]
    d = b[3]
    while d[0] == 'call' and d[1] in (S('sorted'), S('list')) and len(d[2]) == 1 and not (len(d) > 3 and d[3]):
        d = d[2][0]
    if d[0] == 'call' and d[1][0] == 'attr' and d[1][2] == 'keys' and not d[2]:
        d = d[1][1]
    if d[0] == 'accum' and d[1] in (('dict', ()), CALL(S('dict'), [])) and d[2] and all(en[0] in ('appendidx', 'extendidx') for en in d[2]) and v[2] == I(d, b):
        return 'the groups are read back as [D[k] for k in sorted(D)]: one slot per key that occurs (%s), not one per agent' % show(d[2][0][1])[:60]
    return None


def dict_groups(v):
    """[D.get(r, []) for r in range(lo, hi)]  with D filled by D.setdefault(key(x), []).append(x) over a chain: the scatter
    of every x under key(x) - lo into hi - lo slots (keys outside the range are dropped, as with the list form they would
    raise; the size rule decides whether the range is the right one)"""
    from .canon import lin_const
    if not (v[0] == 'comp' and len(v[1]) == 1 and v[1][0][1] == TRUE):
        return None
    r = v[1][0][0]
    d = r[3]
    if not (d[0] == 'call' and d[1] == S('range') and len(d[2]) in (1, 2)):
        return None
    lo, hi = (C(0), d[2][0]) if len(d[2]) == 1 else (d[2][0], d[2][1])
    if not (lo[0] == 'const' and isinstance(lo[1], int)):
        return None
    val = v[2]
    if val[0] == 'call' and val[1] in (S('list'), S('tuple')) and len(val[2]) == 1:
        val = val[2][0]
    D = None
    if val[0] == 'call' and val[1][0] == 'attr' and val[1][2] == 'get' and len(val[2]) == 2 and val[2][0] == r and val[2][1] in (('list', ()), ('tuple', ())):
        D = val[1][1]
    empty_dicts = (('dict', ()), CALL(S('dict'), []), CALL(S('defaultdict'), [S('list')]), CALL(A(S('collections'), 'defaultdict'), [S('list')]))
    if D is None or D[0] != 'accum' or D[1] not in empty_dicts or len(D[2]) != 1 or D[2][0][0] != 'appendidx':
        return None
    op, key, x, chain = D[2][0]
    size = hi if lo == C(0) else (lin_const(BIN('Sub', hi, lo)) or BIN('Sub', hi, lo))
    k2 = key if lo == C(0) else (lin_const(BIN('Sub', key, lo)) or BIN('Sub', key, lo))
    return size, ('appendidx', k2, x, tuple(chain))


def filter_groups(v):
    """[[x for x in CHAIN if key(x) == f(r)] for r in range(N)]  ==  the scatter of every x of CHAIN under the r that solves
    the equation (f linear in r), N slots; the order inside a group is the order of CHAIN, as with appends"""
    from .canon import lin_parts, lin_build
    if not (v[0] == 'comp' and len(v[1]) == 1 and v[1][0][1] == TRUE):
        return None
    r = v[1][0][0]
    d = r[3]
    if not (d[0] == 'call' and d[1] == S('range') and len(d[2]) in (1, 2)):
        return None
    lo = C(0)
    size = d[2][0]
    if len(d[2]) == 2:
        from .canon import lin_const
        lo = d[2][0]
        if not (lo[0] == 'const' and isinstance(lo[1], int)):
            return None
        size = lin_const(BIN('Sub', d[2][1], lo)) or BIN('Sub', d[2][1], lo)
    inner = v[2]
    if inner[0] == 'call' and inner[1] == S('list') and len(inner[2]) == 1:
        inner = inner[2][0]
    if inner[0] != 'comp' or inner[2] != inner[1][-1][0]:
        return None
    chain = inner[1]
    x, g = chain[-1]
    conj = list(g[2]) if (g[0] == 'bool' and g[1] == 'and') else [g]
    eqs = [c for c in conj if c[0] == 'cmp' and c[1] == 'Eq' and contains(c, lambda y: y == r)]
    if len(eqs) != 1 or any(contains(c, lambda y: y == r) for c in conj if c is not eqs[0]) or any(contains(b[3], lambda y: y == r) or contains(gg, lambda y: y == r) for b, gg in chain[:-1]):
        return None
    la, ca = lin_parts(eqs[0][2])
    lb, cb = lin_parts(eqs[0][3])
    # la + ca == lb + cb ; r occurs once with sign s on one side
    atoms = [(s_, a) for s_, a in la] + [(-s_, a) for s_, a in lb]
    c = ca - cb
    rs = [(s_, a) for s_, a in atoms if a == r]
    if len(rs) != 1 or any(contains(a, lambda y: y == r) for s_, a in atoms if a != r):
        return None
    s_r = rs[0][0]
    others = [(s_, a) for s_, a in atoms if a != r]
    # s_r * r + others + c == 0   ->   r = -(others + c) / s_r
    key = lin_build([(-s_ * s_r, a) for s_, a in others], -c * s_r - lo[1])       # slot index = r - lo
    rest = [cc for cc in conj if cc is not eqs[0]]
    chain2 = chain[:-1] + ((x, AND(*rest) if rest else TRUE),)
    return size, ('appendidx', key, x, chain2)


_tr_ids = itertools.count(10 ** 6)


def transpose_scatter(v):
    """[[x for x in col if x is not None] for col in zip_longest(*M)]  (the columns of M)  is the scatter of every element
    of every row of M under its POSITION in the row"""
    if not (v[0] == 'comp' and len(v[1]) == 1 and v[1][0][1] == TRUE):
        return None
    col = v[1][0][0]
    d = col[3]
    if not (d[0] == 'call' and d[1] in (S('zip_longest'), A(S('itertools'), 'zip_longest'), S('zip')) and len(d[2]) == 1 and d[2][0][0] == 'starred'):
        return None
    M = d[2][0][1]
    inner = v[2]
    if inner[0] == 'call' and inner[1] == S('list') and len(inner[2]) == 1:
        inner = inner[2][0]
    if inner == col:
        pass
    elif inner[0] == 'comp' and len(inner[1]) == 1 and inner[1][0][0][3] == col and inner[2] == inner[1][0][0] and (inner[1][0][1] == TRUE or inner[1][0][1] in notnone_forms(inner[1][0][0])):
        pass
    else:
        return None
    row = ('bvar', next(_tr_ids), 'row', M)
    el = ('bvar', next(_tr_ids), 'pair', row)
    return ('appendidx', ('indexof', el), el, ((row, TRUE), (el, TRUE)))


GROUPED_BY = {'project_lists': 'project_index', 'lecturer_lists': 'lecturer_index'}


def dict_overwrite(v):
    """[D.get(i, []) for i in range(N)] with D = {key(x): <list> for x in X}: a dict comprehension ASSIGNS one list per key;
    when different x can share a key the earlier lists are lost.  Returns a description when that is certain: x ranges over
    all pairs, or over groups formed by a different attribute than the key."""
    if not (v[0] == 'comp' and len(v[1]) == 1 and v[1][0][1] == TRUE):
        return None
    i = v[1][0][0]
    val = v[2]
    D = None
    if val[0] == 'call' and val[1][0] == 'attr' and val[1][2] == 'get' and len(val[2]) == 2 and val[2][0] == i and val[2][1] == ('list', ()):
        D = val[1][1]
    if val[0] == 'ite' and val[1] == CMP('In', i, val[2][1] if val[2][0] == 'idx' else NONE) and val[2][0] == 'idx' and val[2][2] == i and val[3] == ('list', ()):
        D = val[2][1]
    if D is None and val[0] == 'call' and val[1][0] == 'attr' and val[1][2] == 'get' and len(val[2]) == 2 and val[2][1] == ('list', ()) \
            and val[2][0] in (BIN('Add', i, C(1)), BIN('Add', C(1), i)) and val[1][1][0] == 'call' and val[1][1][1] == S('dict'):
        D = val[1][1]
    if D is not None and D[0] == 'call' and D[1] == S('dict') and len(D[2]) == 1 and D[2][0][0] == 'call' and D[2][0][1] == S('zip') and len(D[2][0][2]) == 2:
        # dict(zip(KEYS, GROUPS)): one entry per distinct key.  The supervising lecturer of each project is NOT a distinct key
        # (a lecturer may offer several projects): the groups of all but that lecturer's last project are lost
        keys, groups = D[2][0][2]
        if keys[0] == 'attr' and keys[2] == 'proj_lecturers' and groups[0] == 'attr' and groups[2] in GROUPED_BY:
            return 'dict(zip(proj_lecturers, %s)) keeps one group per lecturer: a lecturer with several projects keeps only the last project\'s pairs' % groups[2]
    if D is None or D[0] != 'dictcomp':
        return None
    chain, key = D[1], D[2]
    last = chain[-1][0]
    if key == last:
        return None
    dom = last[3]
    if all_pairs_chain(chain) is not None and key[0] == 'attr' and key[1] == last:
        return 'dictionary {%s: ...} over all pairs keeps one list per key: pairs sharing a key overwrite each other' % show(key).replace(show(last), 'pair')
    if dom[0] == 'attr' and dom[2] in GROUPED_BY and key[0] == 'attr' and key[2] != GROUPED_BY[dom[2]] and key[1] in (I(last, C(0)), I(last, C(-1))):
        return 'dictionary keyed by %s over the groups of %s (formed by %s): groups sharing a key overwrite each other' % (key[2], dom[2], GROUPED_BY[dom[2]])
    return None


def is_max_fold(t, value_attr, init=0):
    """max over all pairs of pair.<value_attr> (init when empty), in any of: accumulate-if-greater loop, m = max(m, x)
    loop, max(comprehension, default=init), max([init] + comprehension) ... (canonical aggregate algebra)."""
    from .canon import canon
    if init != 0:
        return False
    c = canon(t)
    if c[0] == 'max0':
        ap = all_pairs_chain(c[1])
        if ap and ap[2] == TRUE and c[2] == A(ap[0], value_attr):
            return True
    return False


def drop_placeholders(term):
    """[p for p in PER_ROW if p is not None] where PER_ROW extends, row by row, `chosen if chosen else [None]`:
    the placeholders vanish and what remains is the flat selection  [p for row in rows for p in chosen(row)]."""
    if not (term[0] == 'comp' and len(term[1]) == 1):
        return term
    b, g = term[1][0]
    if term[2] != b or g not in notnone_forms(b):
        return term
    d = b[3]
    if d[0] == 'accum' and d[1] == ('list', ()) and len(d[2]) >= 2 and all(e_[0] == 'append' for e_ in d[2]):
        # append(pair) for the selected pairs of a row, append(None) for a row without one: the placeholders vanish, and a
        # kept element that was dereferenced by its own guard (pair.lp_var...) is certainly not None
        kept = [e_ for e_ in d[2] if e_[2] != NONE]
        if len(kept) == 1:
            _, _, val, ch = kept[0]
            derefd = val[0] == 'bvar' and any(contains(g_, lambda x: x[0] == 'attr' and x[1] == val) for _, g_ in ch)
            if derefd and any(b_ == val for b_, _ in ch):
                return ('comp', tuple(ch), val)
        return term
    if not (d[0] == 'accum' and d[1] == ('list', ()) and len(d[2]) == 1 and d[2][0][0] == 'extend'):
        return term
    op, _, L, ch = d[2][0]
    if L[0] == 'ite' and L[3] == ('list', (NONE,)) and L[2][0] == 'comp' and L[1] in (L[2], CMP('Gt', CALL(S('len'), [L[2]]), C(0)), CMP('NotEq', L[2], ('list', ()))):
        X = L[2]
    elif L[0] == 'ite' and L[2] == ('list', (NONE,)) and L[3][0] == 'comp' and L[1] in (NOT(L[3]), CMP('Eq', CALL(S('len'), [L[3]]), C(0)), CMP('Eq', L[3], ('list', ()))):
        X = L[3]
    elif L[0] == 'bool' and L[1] == 'or' and len(L[2]) == 2 and L[2][1] == ('list', (NONE,)) and L[2][0][0] == 'comp':
        X = L[2][0]                       # chosen or [None]
    else:
        return term
    if contains(X[2], lambda x: x == NONE):
        return term
    return ('comp', tuple(ch) + tuple(X[1]), X[2])


def placeholder_extend(d):
    """ACCUM([]; extend (chosen(row) if chosen(row) else [None]) {for row in rows}) -> (row chain, chosen comp) or None"""
    if not (d[0] == 'accum' and d[1] == ('list', ()) and len(d[2]) == 1 and d[2][0][0] == 'extend'):
        return None
    probe = ('bvar', -1, 'probe', d)
    r = drop_placeholders(('comp', ((probe, CMP('IsNot', probe, NONE)),), probe))
    if r[0] == 'comp' and r[1] and r[1][0][0] != probe:
        k = len(d[2][0][3])
        return r[1][:k], ('comp', r[1][k:], r[2])
    return None


def selection(term):
    """list-valued term that selects pairs from ALL pairs: -> (pair binder, guard) or None.
    Accepts [] ++ [pair for row in pairs for pair in row if g]."""
    if term[0] == 'cat':
        parts = [p for p in term[1] if p != ('list', ())]
        if len(parts) != 1:
            return None
        term = parts[0]
    if term[0] != 'comp':
        return None
    term = drop_placeholders(term)
    ap = all_pairs_chain(term[1])
    if ap is None:
        return None
    elem, rows, g = ap
    if term[2] != elem:
        return None
    return elem, g


# ---- per-agent arrays: the size belongs to the sort of the key ---------------------------------------------------------
_KEY_SORT = {'project_index': 'P', 'lecturer_index': 'L', 'student_index': 'S'}
_COUNT_SORT = {'num_projects': 'P', 'num_lecturers': 'L', 'num_students': 'S'}
_LIST_SORT = {'proj_lower_quotas': 'P', 'proj_upper_quotas': 'P', 'proj_lecturers': 'P', 'project_lists': 'P', 'lec_lower_quotas': 'L', 'lec_targets': 'L',
              'lec_upper_quotas': 'L', 'lecturer_lists': 'L', 'pairs': 'S'}
_SORT_NAME = {'P': 'project', 'L': 'lecturer', 'S': 'student'}


def size_sort(n):
    """sort whose number of agents the term n is (model.num_projects, len(model.lec_targets), ...), else None"""
    if n[0] == 'attr' and n[2] in _COUNT_SORT:
        return _COUNT_SORT[n[2]]
    if n[0] == 'call' and n[1] == ('sym', 'len') and len(n[2]) == 1 and n[2][0][0] == 'attr' and n[2][0][2] in _LIST_SORT:
        return _LIST_SORT[n[2][0][2]]
    return None


def scatter_size_problems(t, seen=None):
    """[c] * N filled at position pair.<sort>_index: N has to be the number of agents of THAT sort.  Reported only when N
    is recognisably the size of another sort (IndexError, or entries for agents that do not exist).  -> [text]"""
    from .terms import walk_unique, show
    out = []
    seen = set() if seen is None else seen
    for x in walk_unique(t, seen):
        if x[0] != 'accum' or not (isinstance(x[1], tuple) and x[1] and x[1][0] == 'bin' and x[1][1] == 'Mult'):
            continue
        a, b = x[1][2], x[1][3]
        n = b if a[0] == 'list' else (a if b[0] == 'list' else None)
        if n is None:
            continue
        have = size_sort(n)
        if have is None:
            continue
        for en in x[2]:
            key = en[1]
            if en[0] in ('addidx', 'setidx', 'appendidx', 'extendidx', 'subidx') and isinstance(key, tuple) and key and key[0] == 'attr' and key[2] in _KEY_SORT:
                want = _KEY_SORT[key[2]]
                if want != have:
                    txt = 'a list with one slot per %s (%s) is filled at %s' % (_SORT_NAME[have], show(x[1]), show(key))
                    if txt not in out:
                        out.append(txt)
    return out


def returns_as_called(repo, func, selfterm):
    """What `func` returns at each of its call sites inside Model.get_results, with the arguments passed there
    (a helper merged from two functions with a flag parameter is judged as it is used, not for a symbolic flag).
    -> list of return terms; [] when it takes no argument besides self, is not called from there, or the caller is
    outside the interpreted fragment (the stand-alone run is then the reference)."""
    from .absint import Interp, iter_effects
    if len([p_ for p_ in func.params if p_ != 'self']) == 0:
        return []
    gr = repo.method('Model', 'get_results', required=False)
    if gr is None:
        return []
    try:
        effs, _ = Interp(repo).run(gr, {p_: S(p_) for p_ in gr.params[1:]}, selfterm=selfterm)
    except Unknown:
        return []
    out = []
    for e, _c in iter_effects(effs):
        if e.kind == 'call' and e.target is func and isinstance(getattr(e, 'ret', None), tuple) and e.ret not in out:
            out.append(e.ret)
    return out
