"""Document model of a string-building term: the text an expression denotes, as a sequence of literal chunks, holes and
repetitions, independent of whether the source used `+`, f-strings, str.format, `+=` accumulation in loops, or a list of
lines joined once.  Used for the instance-file grammar (C08, C09)."""
import itertools
from .terms import *


class Lit:
    def __init__(self, text): self.text = text
    def __repr__(self): return 'Lit(%r)' % self.text


class Hole:
    """a value converted to text; `sep` set when it is `sep.join(list)`"""
    def __init__(self, term, sep=None): self.term, self.sep = term, sep
    def __repr__(self): return 'Hole(%s%s)' % (show(self.term)[:60], '' if self.sep is None else ', sep=%r' % self.sep)


class Rep:
    """items repeated for every element of the binder chain; `sep` between iterations (None = nothing)"""
    def __init__(self, chain, items, sep=None): self.chain, self.items, self.sep = chain, items, sep
    def __repr__(self): return 'Rep(%s, %r%s)' % (' '.join(show(b) + ' in ' + show(b[3])[:30] for b, g in self.chain), self.items, '' if self.sep is None else ', sep=%r' % self.sep)


class Alt:
    def __init__(self, cond, a, b): self.cond, self.a, self.b = cond, a, b
    def __repr__(self): return 'Alt(%s ? %r : %r)' % (show(self.cond)[:40], self.a, self.b)


def stringy(t):
    k = t[0]
    if k == 'const':
        return isinstance(t[1], str)
    if k == 'fstr':
        return True
    if k == 'call' and t[1] == S('str'):
        return True
    if k == 'call' and t[1][0] == 'attr' and t[1][2] in ('join', 'format'):
        return True
    if k == 'bin' and t[1] == 'Add':
        return stringy(t[2]) or stringy(t[3])
    if k == 'sum':
        return stringy(t[2])
    if k == 'ite':
        return stringy(t[2]) or stringy(t[3])
    return False


def doc_of(t):
    """term -> list of items"""
    k = t[0]
    if k == 'bin' and t[1] == 'Add' and not stringy(t):
        return [Hole(t)]
    if k == 'const':
        if isinstance(t[1], str):
            return [Lit(t[1])] if t[1] else []
        return [Hole(t)]
    if k == 'bin' and t[1] == 'Add':
        return merge(doc_of(t[2]) + doc_of(t[3]))
    if k == 'fstr':
        out = []
        for x in t[1]:
            out += doc_of(x) if (x[0] == 'const' and isinstance(x[1], str)) else doc_hole(x)
        return merge(out)
    if k == 'call' and t[1] == S('str') and len(t[2]) == 1:
        return doc_hole(t[2][0])
    if k == 'sum':                      # string accumulated with += in a loop
        return [Rep(t[1], doc_of(t[2]))]
    if k == 'call' and t[1][0] == 'attr' and t[1][2] == 'join' and t[1][1][0] == 'const' and isinstance(t[1][1][1], str) and len(t[2]) == 1:
        return join_doc(t[1][1][1], t[2][0])
    if k == 'ite':
        return [Alt(t[1], doc_of(t[2]), doc_of(t[3]))]
    return [Hole(t)]


def doc_hole(x):
    # a string-valued sub-expression inside a format hole is itself a document
    if x[0] in ('fstr',) or (x[0] == 'bin' and x[1] == 'Add' and stringy(x)) or (x[0] == 'call' and x[1][0] == 'attr' and x[1][2] == 'join') or (x[0] == 'const' and isinstance(x[1], str)):
        return doc_of(x)
    if x[0] == 'call' and x[1] == S('str') and len(x[2]) == 1:
        return doc_hole(x[2][0])
    if x[0] == 'ite' and any(stringy(y) or (y[0] == 'const' and isinstance(y[1], str)) for y in (x[2], x[3])):
        return [Alt(x[1], doc_hole(x[2]), doc_hole(x[3]))]
    return [Hole(x)]


_join_ids = itertools.count(2 * 10 ** 6)


def join_doc(sep, lst):
    """sep.join(list-valued term)"""
    if lst == ('const', '') or lst == ('tuple', ()):
        return []                 # joining the characters of '' (or nothing at all) gives ''
    if lst[0] == 'list':
        out = []
        for i, el in enumerate(lst[1]):
            if i:
                out.append(Lit(sep))
            out += doc_of(el)
        return merge(out)
    if lst[0] == 'comp':
        if sep == '' and len(lst[1]) == 1 and lst[1][0][1] == TRUE:
            els = lit_elements(lst[1][0][0][3])
            if els is not None:
                return merge(unroll(els, lst[1][0][0], lst[2]))
        return [Rep(lst[1], doc_of(lst[2]), sep)]
    if lst[0] == 'cat':
        # sep.join(A + B + ...): a part that may be EMPTY contributes no separator, so separators are attached to the
        # elements themselves, anchored at a literal first or last element:  a + sep + (x + sep for x in L) + z
        units = []
        def flatten(part):
            if part[0] == 'call' and part[1] in (S('list'), S('tuple')) and len(part[2]) == 1 and not part[3]:
                part = part[2][0]
            if part[0] == 'list':
                units.extend(('lit', el) for el in part[1])
            elif part[0] == 'cat':
                for q in part[1]:
                    flatten(q)
            elif part[0] == 'bin' and part[1] == 'Add':
                flatten(part[2])
                flatten(part[3])
            else:
                units.append(('var', part))
        for part in lst[1]:
            flatten(part)
        if not any(k_ == 'var' for k_, _ in units):
            return join_doc(sep, ('list', tuple(x for _, x in units)))
        if len(units) == 1:
            return join_doc(sep, units[0][1])
        def rep(part, before):
            if part[0] == 'comp':
                chain, items = part[1], doc_of(part[2])
            else:
                b = ('bvar', next(_join_ids), 'e', part)
                chain, items = ((b, TRUE),), [Hole(b)]
            return Rep(chain, merge(([Lit(sep)] if before else []) + items + ([] if before else [Lit(sep)])), None)
        out = []
        if units[-1][0] == 'lit':
            for k_, x in units[:-1]:
                out += (doc_of(x) + [Lit(sep)]) if k_ == 'lit' else [rep(x, False)]
            out += doc_of(units[-1][1])
            return merge(out)
        if units[0][0] == 'lit':
            out += doc_of(units[0][1])
            for k_, x in units[1:]:
                out += ([Lit(sep)] + doc_of(x)) if k_ == 'lit' else [rep(x, True)]
            return merge(out)
        return [Hole(lst, sep)]
    if lst[0] == 'ite':
        return [Alt(lst[1], join_doc(sep, lst[2]), join_doc(sep, lst[3]))]
    if lst[0] == 'bin' and lst[1] == 'Add':
        # list + list
        return join_doc(sep, ('cat', (lst[2], lst[3])))
    if lst[0] == 'call' and lst[1] in (S('list'), S('tuple')) and len(lst[2]) == 1 and not lst[3]:
        return join_doc(sep, lst[2][0])
    return [Hole(lst, sep)]


def lit_elements(dom):
    """elements of a list assembled from literals (appends / extends, possibly under a condition), or None"""
    if dom[0] == 'list':
        return [('el', x) for x in dom[1]]
    if dom[0] == 'cat':
        out = []
        for p in dom[1]:
            r = lit_elements(p)
            if r is None:
                return None
            out += r
        return out
    if dom[0] == 'ite':
        a, b = lit_elements(dom[2]), lit_elements(dom[3])
        if a is None or b is None:
            return None
        # common prefix stays unconditional
        k = 0
        while k < len(a) and k < len(b) and a[k] == b[k]:
            k += 1
        return a[:k] + ([('alt', dom[1], a[k:], b[k:])] if (a[k:] or b[k:]) else [])
    return None


def _replace(t, old, new):
    if t == old:
        return new
    if not isinstance(t, tuple):
        return t
    return tuple(_replace(x, old, new) if isinstance(x, tuple) else x for x in t)


def unroll(els, b, value):
    out = []
    for e in els:
        if e[0] == 'el':
            out += doc_of(_replace(value, b, e[1]))
        else:
            out.append(Alt(e[1], merge(unroll(e[2], b, value)), merge(unroll(e[3], b, value))))
    return out


def merge(items):
    out = []
    for it in items:
        if isinstance(it, Lit) and out and isinstance(out[-1], Lit):
            out[-1] = Lit(out[-1].text + it.text)
        elif isinstance(it, Lit) and not it.text:
            continue
        else:
            out.append(it)
    return rotate(out)


def rotate(items):
    """A (s X)* s B  ==  A s (X s)* B : a repetition whose items start with the literal that also follows the repetition
    is rewritten so that its items END with it (separator-led lines become separator-terminated lines)"""
    changed = True
    while changed:
        changed = False
        for k in range(len(items) - 1):
            r, nxt = items[k], items[k + 1]
            if not (isinstance(r, Rep) and r.sep is None and r.items and isinstance(r.items[0], Lit) and len(r.items) > 1 and isinstance(nxt, Lit)):
                continue
            s_ = r.items[0].text
            if not s_ or not nxt.text.startswith(s_):
                continue
            body = list(r.items[1:])
            if isinstance(body[-1], Lit):
                body[-1] = Lit(body[-1].text + s_)
            else:
                body.append(Lit(s_))
            new = items[:k]
            if new and isinstance(new[-1], Lit):
                new[-1] = Lit(new[-1].text + s_)
            else:
                new.append(Lit(s_))
            new.append(Rep(r.chain, body, None))
            rest = nxt.text[len(s_):]
            if rest:
                new.append(Lit(rest))
            items = new + items[k + 2:]
            changed = True
            break
    return items


class Line:
    """one line template: parts (Lit / Hole / Alt / inner Rep for list fields) + the repetition chain it sits in"""
    def __init__(self, chain, parts):
        self.chain, self.parts = chain, parts

    def __repr__(self):
        return 'Line(%s: %r)' % (' '.join(show(b[3])[:30] for b, g in self.chain) or 'once', self.parts)


def lines_of(items, chain=()):
    """Split a document into line templates at '\\n'.  Returns (lines, problems).  A repetition must consist of whole lines
    (terminated inside its body, or separated by '\\n' and followed by one)."""
    lines, problems = [], []
    cur = []
    i = 0
    items = list(items)
    while i < len(items):
        it = items[i]
        if isinstance(it, Lit):
            segs = it.text.split('\n')
            for k, seg in enumerate(segs):
                if seg:
                    cur.append(Lit(seg))
                if k < len(segs) - 1:
                    lines.append(Line(chain, cur))
                    cur = []
        elif isinstance(it, Rep) and contains_newline(it.items):
            if cur:
                problems.append('text before a block of lines is not terminated by a newline: %r' % cur)
            sub, pr = lines_of(it.items, chain + tuple(it.chain))
            problems += pr
            lines += sub
        elif isinstance(it, Rep) and it.sep == '\n':
            if cur:
                problems.append('text before a block of lines is not terminated by a newline: %r' % cur)
                cur = []
            lines.append(Line(chain + tuple(it.chain), it.items))
            # the last line of the block is terminated by the newline that follows the join
            if i + 1 < len(items) and isinstance(items[i + 1], Lit) and items[i + 1].text.startswith('\n'):
                items[i + 1] = Lit(items[i + 1].text[1:])
            elif i + 1 < len(items):
                problems.append('the last line of a joined block runs into the following text')
        else:
            cur.append(it)
        i += 1
    if cur:
        lines.append(Line(chain, cur))
    return lines, problems


def contains_newline(items):
    for it in items:
        if isinstance(it, Lit) and '\n' in it.text:
            return True
        if isinstance(it, Rep) and (contains_newline(it.items) or it.sep == '\n'):
            return True
        if isinstance(it, Alt) and (contains_newline(it.a) or contains_newline(it.b)):
            return True
    return False


def fields_of(line, drop=':'):
    """What a reader sees that deletes `drop` and splits on whitespace: list of fields, each a list of Hole/Rep/Alt/text
    fragments that are glued together without intervening whitespace."""
    fields, cur = [], []
    for p in line.parts:
        if isinstance(p, Lit):
            txt = p.text.replace(drop, '') if drop else p.text
            chunks = txt.split()
            if not txt.strip() and txt:
                if cur:
                    fields.append(cur)
                    cur = []
                continue
            lead, trail = txt[:1].isspace() if txt else False, txt[-1:].isspace() if txt else False
            for k, ch in enumerate(chunks):
                if k == 0 and not lead:
                    cur.append(ch)
                else:
                    if cur:
                        fields.append(cur)
                    cur = [ch]
            if trail and cur:
                fields.append(cur)
                cur = []
        else:
            cur.append(p)
    if cur:
        fields.append(cur)
    return fields
