"""Generates /verif/MANIFEST.json from one table, so that it always validates and stays consistent with the checkers
that exist:  /venv/bin/python -m sa.manifest"""
import json, os

from .report import VERIF

PY = '/venv/bin/python'

# property -> (technique, level text, level note, design ref)
CHECKS = {
    'C01': ('abstract interpretation of the LP builder to an effect tree; linear normal form of every constraint family compared with the 7 reference validity families; must-precede-solve on the specialised tree',
            'Static proof-by-schema: for each of the (pc, stab) specialisations and criterion lists the constraint families handed to PuLP before the first solve are extracted in closed form (forall-families over symbolic instance data, never an instance) and shown equal to the definition of a valid matching; variables Binary; grouping lists = scatter of all pairs by their own index; read-back selects by the same variables. This covers every instance and option set at once, which no finite test can; it decides the structural clause (the LP\'s solutions are exactly valid matchings), not CBC\'s behaviour.',
            'Trusted: CPython ast; PuLP semantics of LpVariable/+=/solve (A3); CBC returns exact 0/1 values (A6); well-formed instance (A1); the four row-membership facts discharged by C01.R4/C03.R4/C10.',
            'DESIGN.md section 5 C01'),
    'C02': ('name-template language intersection (product automaton); polynomial bound domination of every objective/auxiliary variable over valid matchings; closed classification of the constraint families; table agreement; load-balancing agreement over ordered criterion pairs; exception-source scan of the specialised effect trees',
            'Static argument that the LP\'s feasible set projected on x equals the valid (and, with -stab, stable) matchings and stays non-empty after every freeze: before the first solve the problem holds exactly the reference families; every objective/auxiliary variable has bounds that dominate the range of its defining expression (derived symbolically from the declared bounds, the student-row family and axioms A1/A2, e.g. n*R*a <= n*P*a); all variable and constraint name templates are pairwise disjoint and injective; criteria that read the load-deviation variables always find them declared and defined; scalar flags never have their (None) extras touched; one solve without criteria and non-empty per-rank ranges for admissible cut-offs. Sound for PASS; a FAIL means "not derivable" and each FAIL on the pinned tree was confirmed with a failing input (D1-D5, now fixed).',
            'Trusted: ast; A1 (well-formed instance), A2 (non-negative integer multipliers, positive integer cut-offs; a cut-off beyond the last rank must still leave the model solved: R6), A3, A6. CBC process failures and numeric effects are not decided.',
            'DESIGN.md section 5 C02'),
    'C03': ('per-criterion objective schema in linear normal form vs the documented criterion table, for every arity (defaults); closed-form rank ranges (max/min-normalised); sense x sign; deviation definition; rank-list scatter schema; closed classification of the feasible region',
            'Static: for each of the nine criteria and each number of optional arguments the constraint linking the objective variable is extracted in closed form and shown equal to the documented measured quantity (with the documented defaults substituted), its direction follows from the problem sense and the sign handed to the solve, generous/greedy rank loops cover exactly R..max(1,k) descending / 1..min(k,R) ascending, rank_lists[r-1] holds the pairs of rank r, the load deviation is defined two-sidedly, and the region optimised over is exactly the requested one. Decides the model handed to CBC, not CBC.',
            'Trusted: ast; A1-A3; A6 (CBC returns a true optimum of the model it is given).',
            'DESIGN.md section 5 C03 + Appendix B'),
    'C04': ('freeze typestate (set objective -> solve -> freeze with the comparator matching the direction) on every specialised tree; dispatch-order and who-may-solve over ordered criterion lists; sense constancy; load-balancing agreement; scatter/compact ordering helper',
            'Static: on every single criterion, 20+ ordered pairs and both full orders (thorough: all 72 pairs and 504 triples) each solve is preceded by the objective of the same variable and followed, before the next objective, by the freeze f >= f* (MAX) or f <= f* (MIN) on the same single problem whose sense never changes; criteria are dispatched by iterating the ordered list itself; positions reach list order through the scatter/compact helper. Together these are the lexicographic composition argument.',
            'NOT decided: a rounded varValue making the freeze cut the optimum. Trusted: ast, A3, A6.',
            'DESIGN.md section 5 C04'),
    'C05': ('linear normal form of the alpha/beta/gamma families (incl. sorted-prefix-scan and running-prefix summaries) compared with the reference SPA-STL encoding; oracle re-derived exhaustively over the predicate abstraction',
            'Static proof-by-schema: under -stab the three stability families handed to PuLP are extracted as forall-families over symbolic instance data and shown equal to the reference encoding, which is itself shown equivalent to the blocking-pair definition on all feasible valuations of 7 predicates; alpha/beta Binary; families unconditional, before any solve, absent without -stab. Covers every two-sided instance at once. A different-but-equivalent encoding is outside the fragment (exit 2), not a violation.',
            'Trusted: ast; A1, A3, A6; rows of pairs sorted by dense ranks from 1 (discharged by C10/C13); row-membership facts (C01.R4).',
            'DESIGN.md section 5 C05 + Appendix A'),
    'C06': ('finite 3-valued evaluation of the per-pair verdict of check_stability on every feasible valuation of its atomic comparisons (decision table, atoms identified by provenance and kind), compared with the blocking-pair definition; scatter-fold classification of the four helpers; effect-tree check of the caller',
            'Static, exhaustive over a finite table: the per-pair verdict (including hoisted per-row statements and extracted helper predicates) is evaluated with Python\'s short-circuit order on all 292 feasible valuations of 13 atoms (unassigned, own pair, student-rank order, project/lecturer undersubscribed, same lecturer, worst ranks absent, lecturer-rank order) and equals the SPA-STL blocking formula on each; any valuation on which a comparison with an absent value would be evaluated is reported (the function must always return a boolean); arrays are indexed by and compared with values of their own sort (ID vs index, project vs lecturer); the count/worst helpers are the documented scatter-folds; every pair of every row is examined; get_results prints exactly the returned value under the stability flag.',
            'Preconditions of the property (assignment respects upper quotas, students on acceptable projects) are assumed; M(p) subset of M(l). Trusted: ast.',
            'DESIGN.md section 5 C06 + Appendix B'),
    'C07': ('finite abstract interpretation of the fold: the loop body of Brute_force_solver.run as an effect tree, evaluated over the finite domain {previous value, the statistic of this matching} under every case of (valid?, size vs best size, statistic vs stored), cases forked lazily; decision table of is_valid over order types of (count, lower, upper) x pc; comparator tables; polynomial domination of the initial values; document model of the printed lines',
            'Part: decides the FOLD, not the search. The enumeration cannot be run statically, but its correctness argument is an induction whose step is in the shape of the code: the search space is {0..P}^n; is_valid equals the definition of a valid matching incl. the closure rule on every order type of (count, lower quota, upper quota) x pc and never touches an absent pair; for each of the nine printed accumulators one abstract step (thousands of lazily forked case paths, statement order / helper extraction / elif / early continue independent) yields exactly: the larger size; on a larger size the statistic of this matching; on equal size the better of stored and new; and for the all-matchings tier the better of stored and new regardless of size; the comparators are the strict lexicographic orders from the worst / best rank; initial values of the all-matchings tier are neutral for every instance shape (polynomial domination, not the value of the possibly invalid empty matching) and profiles have max-rank entries (found D6); Infeasible iff the negative size sentinel survives. With C11.R1 (the statistic helpers compute what their labels say) this is the whole induction.',
            'NOT decided: run time/termination on large instances; agreement with the LP solver is a consequence of C02/C03, not checked here. Trusted: ast, A1; itertools.product enumerates the full power.',
            'DESIGN.md section 5 C07'),
    'C08': ('reaching-definitions analysis for stale loop-carried uses over every generator function; document model of the emitted text (literal chunks, holes, repetitions) split into line templates and compared with the documented grammar; role tracing of every hole back to the option that feeds it; even-spread idiom recogniser; sampling-API contract',
            'Static: the instance text of both writers is reduced to line templates (independent of +, f-strings, format, += loops or joined line lists) and shown to be header / numbered first-side lists / numbered second-side (or project and lecturer) lines with the documented columns and separators / blank line / parameter block; every column is fed by the option the grammar names (t1 vs t2, n2 vs n3, each quota total); quotas, targets and projects per lecturer are floor(total/n) plus one for the first total%n agents and are written as integers; one file <i>.txt per i in range(numinst), opened with w; list length uniform in [pmin, pmax]; tie draw [0,1] with p=[1-t, t]; second-side lists only with -twopl; no value computed in one loop is read stale in a later disjoint loop (this found the HA writer defect).',
            'Statistical claims beyond the sampling-API contract (A4) are not decided. Trusted: ast.',
            'DESIGN.md section 5 C08'),
    'C09': ('writer/reader table agreement: document model of the writer (fields after deleting ":" and splitting on whitespace) vs the field/slice/section tables extracted from the abstractly interpreted reader; solver argparse table; integrality of written columns; reader rejection guards',
            'Part: decides the FORMAT CONTRACT between generator and solver for both file kinds and every section - header positions, section order and counts, field k written = field k read with the same role (including the 2-agent embedding columns), list-valued field last and taken from the right slice, fields never fuse, numeric columns are integer-valued (int() in the reader cannot fail), empty second-side lists are not rejected, the documented solver flags exist; and re-evaluates on the current tree that the LP then built is the definition of a valid matching (C01 rules). It does not re-decide optimality/brute-force correctness on the loaded model (C02, C03, C07).',
            'Trusted: ast; str.split/replace semantics as modelled.',
            'DESIGN.md section 5 C09'),
    'C10': ('tie-aware tokeniser as a finite transducer explored against the documented grammar; abstract interpretation of the file reader per (numagents, twopl) with linear interval derivation of every section from the branch guards; field->attribute tables; guard discipline of rank_lecturer readers',
            'Static: the tokeniser\'s loop body is abstracted to a transition table and its product with the grammar (OPEN PLAIN* CLOSE | PLAIN)* is explored completely (dense ranks from 1 for every list length and tie grouping); for -na 2/3 with and without -twopl the reader\'s branch conditions are turned into integer intervals over the header counts and shown to be exactly the three sections, ids = index - (start-1), each quota/target/lecturer field comes from the documented column, preference lists from the documented slice, the 2-agent embedding gives hospital j its own lecturer j with target = upper quota, rank_lecturer is set for every pair exactly under -twopl, and every cost reader of rank_lecturer is presence-guarded.',
            'Behaviour on files outside the documented grammar is not decided. Trusted: ast; str.split / replace semantics as modelled; C16.R4 for the stability-only readers.',
            'DESIGN.md section 5 C10'),
    'C11': ('abstract interpretation of get_results for both formats with all helpers inlined; document model of the returned text; canonical aggregate algebra (sums, maxima, per-agent arrays, scatters; loops / comprehensions / built-ins / helper extraction normalise to one form) compared modulo bound names and commutativity with references written from the property statement',
            'Static proof-by-normal-form: for the SHORT and the LONG format the text returned on the Optimal path is reduced to lines; the value printed under each of the eight statistic labels is brought to a canonical aggregate over THE list of pairs whose decision variable is set and shown equal to the reference (matching: project id scattered at the student\'s own index, 0 elsewhere; size; cost and squared cost as (student, lecturer-where-present) pairs; degree = max rank or 0; profile = one counter per rank up to the maximum rank in the documented bracket format; max / sum over lecturers of |assigned - target|); both formats print the same lines once; each listing is an array with exactly one line per student / project / lecturer, labelled index+1, carrying the assignees scattered by their own index and the occupancy / capacity / target of the same agent, in both the assigned and the unassigned case; all helpers receive one list. Equality of normal forms is for every instance and matching at once. A value inside the closed algebra that differs from the reference is a violation; a value outside it is reported as inconclusive (exit 2), never as a violation.',
            'Trusted: ast; A1 (studentID = student_index + 1, project ids >= 1: C10); the reported pairs form a matching (C01). The numeric formatting of str() is Python\'s.',
            'DESIGN.md section 5 C11'),
    'C12': ('scatter (group-by) normal form of the inversion; recognition of the de-duplicating structure (mask / set / membership); allow-list effect check between inversion and return; caller argument flow',
            'Static: the second-side lists are shown to be scatter(init [], key a-1, value i+1) over EVERY entry a of EVERY first-side list i into one list per second-side agent (no filter, no truncation, indexed by agent id rather than compacted), followed only by permutations; for SPA the student->lecturer lists are built through a structure indexed by lecturer (so a lecturer whose projects are ranked non-adjacently still appears once) with lecturers looked up in the same project->lecturer table that is written to the file; HA/SM/HR invert over n2, SPA over n3.',
            'First-side lists have distinct entries (replace=False: C08.R5/C17.R5). Trusted: ast; random.shuffle permutes (A4).',
            'DESIGN.md section 5 C12'),
    'C13': ('writer and reader loop bodies abstracted to finite transition tables by a finite evaluator; complete exploration of the product automaton',
            'Static, exhaustive on a finite automaton: the writer table over (in_tie, tie bit, last) and the reader table over (in_tie, decoration) are extracted from the two loop bodies and their product is explored from the initial state over all input sequences; at every reachable step the emitted parentheses are balanced, non-nested, maximal runs of >= 2, the last decision has no effect, and the reader advances the rank by one exactly when the writer did not tie the previous entry with this one, starting at 1. Because the product is finite (3 reachable states, 12 transitions today) this holds for EVERY list length and EVERY tie vector, not up to a bound. Also: one indicator per element, both sides and both file kinds use the same writer/reader.',
            'Trusted: ast; number tokens are digit strings; tokens are whitespace separated.',
            'DESIGN.md section 5 C13'),
    'C14': ('solve/check typestate over the inlined, specialised effect tree (loops to fixpoint, value-sensitive status tests); edge-dominance of every output statement by the Timeout and Optimal gates on the CFG of get_results; gate conditions decided by truth table over their atoms',
            'Part: decides the structural clauses that are necessary for the property - no solve is issued while the previous one is unchecked or after a non-Optimal status (every criterion, arities, sequences), run() returns the latest status unchanged into pulp_status, and every statement that can emit the matching, a statistic or stability_correct is reachable only past the Timeout gate (limit set and (Not Solved or total_s > limit)) and through the Optimal edge of the status gate, with constants equal to the PuLP LpStatus strings read from the library source. Fault injection can only sample solve positions; the typestate covers all of them, including per-rank solves.',
            'NOT decided: that a time-limited stop always makes total_s exceed the limit (wall clock) - the only guard against an incumbent reported Optimal. Trusted: ast, PuLP constants.py source, A3.',
            'DESIGN.md section 5 C14'),
    'C15': ('argparse table extraction; abstract interpretation of parse() per problem type with a None-ness domain ({None, False, True, Num} sets refined by guards, short-circuit and no-return parser.error); integer-shift-normalised bound guards vs the documented bounds; call-graph + CFG dominance for file-system writes',
            'Static: for each of the four problem types parse() is interpreted with the type fixed; the required and banned sets are read off the guards that compare with parser.get_default and equal the documented tables; every absent option is a sentinel (None/False) so presence is decidable; the option checks and every arithmetic/ordering/count use in instance generation only ever see values that are present for every accepted argument set of that type (this is what found that no SM set was accepted); each documented bound is enforced by a guard ending in parser.error that is actually evaluated for each type it applies to; parse() dominates everything that can create a directory or open a file for writing; the popularity weights never divide by n-1 when n2 = 1.',
            'Trusted: ast; argparse contracts (A5). Single-fault perturbations are covered symbolically (each required/banned/bound guard), not enumerated.',
            'DESIGN.md section 5 C15'),
    'C16': ('abstract interpretation of Options_parser.parse to an effect tree: scatter/compact idiom, guard normal forms (integer interval of the range test), guard/scatter order, CFG dominance in Solver.__init__, argparse table vs documented flag table, typestate for the executed prefix',
            'Static: the ordering helper is shown to be scatter-at-(position-1) plus ascending compaction (hence sorted by position, gaps allowed, for every position assignment); each present criterion is range-checked against exactly 1..9 before the scatter; the duplicate check compares kept-count with present-count on every path; -stab without -twopl is refused on every path through parse(); parse dominates import_model; extras stay with their criterion; each criterion records its line before its first solve and the run stops at the first non-Optimal solve. Position vectors are never enumerated or executed.',
            'Trusted: ast; argparse contracts A5 (parser.error does not return; nargs=+ gives a list; store default None).',
            'DESIGN.md section 5 C16'),
    'C17': ('symbolic list model of the weight vector; the element formula as a rational function of (x, n, s); polynomial identities (cross-multiplied); evaluation-point analysis of divisions; purity scan; argument flow into np.random.choice',
            'Static proof by polynomial identity: the weight list has n entries, entry 0 and entries 1..n-1 follow one formula f(x) that is affine in x with f(0) = 1 and f(n-1) = s (checked as identities num - s*den == 0 etc.), the vector returned is that list divided by the sum of the same list, every division by a quantity vanishing at n = 1 sits inside range(1, n) (so n >= 2 there) and a single agent gets weight one; the function reads no module-level mutable state; the vector reaches np.random.choice(p=..., replace=False) unchanged over the population 1..n. Holds for every n >= 1 and s > 0, not a grid.',
            'Floating-point rounding of the sum is not decided. Trusted: ast, numpy contracts (A4).',
            'DESIGN.md section 5 C17'),
    'C18': ('interprocedural side-effect summaries with a provenance domain (fresh vs reachable-from-self/parameter access paths) over the resolved call graph; CFG dominance of resets over accumulations followed through call sites and constructor fields; taint of the option containers; presence/None-guard facts by a guard-propagating syntax walk',
            'Part: histories cannot be enumerated statically; decided instead is the effect discipline that makes every history behave. (1) The mutation summary of each of the four Solver getters - every attribute store, item store, in-place method and augmented assignment in the 25 functions they reach, with objects created inside the call excluded and parameters re-rooted at each call site - is empty, and no getter reaches a solve / set-up / variable-creating call: getters are functions of the state left by the last solve, so any order and number of calls returns the same text. (2) Every in-place accumulation that solve() performs on an object that outlives it is dominated, through call sites and constructor arguments up to Solver.solve, by a re-assignment of that attribute to a fresh value; solve() constructs a new solver object on every path before run(), the LP problem and every decision variable are created unconditionally, nothing is created once and kept; no mutation event has an option container on its access path: the second solve builds the same model from the same configuration. (3) Getters do not fail: LP-only attributes are presence-guarded where get_debug reads them and a possibly-None varValue is tested before an ordering comparison (found D11, D12).',
            'NOT decided: that CBC returns the same optimum values for the same model (A6, determinism of the solver binary). The timing lines are computed from time stamps stored by solve(), so they too are identical between getter calls (no getter reaches a clock). Trusted: ast; A3.',
            'DESIGN.md section 5 C18'),
}

NOT_YET = 'checker under construction in this round (see DESIGN.md section 5 for the planned static rules)'


def build():
    checks = []
    for pid, (tech, text, note, ref) in sorted(CHECKS.items()):
        checks.append({
            'property_id': pid,
            'quick_cmd': '%s -m sa.check %s --tier quick' % (PY, pid),
            'thorough_cmd': '%s -m sa.check %s --tier thorough' % (PY, pid),
            'evidence_file': 'evidence/%s.json' % pid,
            'replay_cmd_template': '%s -m sa.check %s --explain {path}' % (PY, pid),
            'engine': 'sa',
            'level_claimed': {'category': 'other', 'text': text, 'design_ref': ref},
            'level_note': note,
            'technique': 'static analysis: ' + tech,
        })
    na = [{'property_id': 'C%02d' % i, 'reason': NOT_YET} for i in range(1, 19) if 'C%02d' % i not in CHECKS]
    na += [{'property_id': k, 'reason': v} for k, v in sorted(NOT_APPLICABLE.items())]
    return {
        'version': 1,
        'setup_cmd': '%s -m sa.selfcheck' % PY,
        'hooks': {
            'guard': 'MATCHINGPROBLEMS_VERIF',
            'enable': 'none needed: the checks never run the repository, so nothing is instrumented (no source commits carry the guard)',
            'baseline_off_cmd': 'cd /repo && /venv/bin/python -m pytest -ra -q -p no:cacheprovider --timeout=900 --continue-on-collection-errors',
            'source_commits': [],
            'add_only': True,
        },
        'engines': [{'name': 'sa', 'path': 'sa', 'serves_properties': sorted(CHECKS),
                     'kind_free_text': 'repository-specific static analysis over the Python ast: abstract interpreter to effect trees, linear normal forms, CFG/dominators/reaching definitions, finite decision tables and transducer products; nothing from /repo is imported or executed'}],
        'checks': checks,
        'not_applicable': na,
        'notes': 'All checks are static (family: static analysis). Exit 0 = all obligations discharged; exit 1 + VIOLATION line = an obligation refuted; exit 2 = ANALYSIS-ERROR/INCONCLUSIVE (anchor vanished or construct outside the recognised fragment). Genuine defects found and repaired are listed in known_findings.json as fixed entries.',
    }


NOT_APPLICABLE = {}


def main():
    m = build()
    with open(os.path.join(VERIF, 'MANIFEST.json'), 'w') as f:
        json.dump(m, f, indent=1)
    print('MANIFEST.json: %d checks, %d not_applicable' % (len(m['checks']), len(m['not_applicable'])))


if __name__ == '__main__':
    main()
