"""Generates /verif/MANIFEST.json from one table, so that it always validates and stays consistent with the checkers
that exist:  /venv/bin/python -m sa.manifest"""
import json, os

from .report import VERIF

PY = '/venv/bin/python'

# property -> (technique, level text, level note, design ref)
CHECKS = {
    'C01': ('abstract interpretation of the LP builder to an effect tree; linear normal form of every constraint family compared with the 7 reference validity families; must-precede-solve on the specialised tree',
            'Static proof-by-schema: for each of the (pc, stab) specialisations and criterion lists the constraint families handed to PuLP before the first solve are extracted in closed form (forall-families over symbolic instance data, never an instance) and shown equal to the definition of a valid matching; variables Binary; grouping lists = scatter of all pairs by their own index; read-back selects by the same variables. This covers every instance and option set at once, which no finite test can; it decides the structural clause (the LP\'s solutions are exactly valid matchings), not CBC\'s behaviour.',
            'Trusted: CPython ast; PuLP semantics of LpVariable/+=/solve (A3); CBC returns exact 0/1 values (A6); well-formed instance (A1); the four row-membership facts discharged by C01.R4/C03.R4/C10.',
            'DESIGN.md section 5 C01'),
}

NOT_YET = 'checker under construction in this round (see DESIGN.md section 5 for the planned static rules)'


def build():
    checks = []
    for pid, (tech, text, note, ref) in sorted(CHECKS.items()):
        checks.append({
            'property_id': pid,
            'quick_cmd': '%s -m sa.check %s --tier quick' % (PY, pid),
            'thorough_cmd': '%s -m sa.check %s --tier thorough' % (PY, pid),
            'evidence_file': 'evidence/%s.json' % pid,
            'replay_cmd_template': '%s -m sa.check %s --explain {path}' % (PY, pid),
            'engine': 'sa',
            'level_claimed': {'category': 'other', 'text': text, 'design_ref': ref},
            'level_note': note,
            'technique': 'static analysis: ' + tech,
        })
    na = [{'property_id': 'C%02d' % i, 'reason': NOT_YET} for i in range(1, 19) if 'C%02d' % i not in CHECKS]
    na += [{'property_id': k, 'reason': v} for k, v in sorted(NOT_APPLICABLE.items())]
    return {
        'version': 1,
        'setup_cmd': '%s -m sa.selfcheck' % PY,
        'hooks': {
            'guard': 'MATCHINGPROBLEMS_VERIF',
            'enable': 'none needed: the checks never run the repository, so nothing is instrumented (no source commits carry the guard)',
            'baseline_off_cmd': 'cd /repo && /venv/bin/python -m pytest -ra -q -p no:cacheprovider --timeout=900 --continue-on-collection-errors',
            'source_commits': [],
            'add_only': True,
        },
        'engines': [{'name': 'sa', 'path': 'sa', 'serves_properties': sorted(CHECKS),
                     'kind_free_text': 'repository-specific static analysis over the Python ast: abstract interpreter to effect trees, linear normal forms, CFG/dominators/reaching definitions, finite decision tables and transducer products; nothing from /repo is imported or executed'}],
        'checks': checks,
        'not_applicable': na,
        'notes': 'All checks are static (family: static analysis). Exit 0 = all obligations discharged; exit 1 + VIOLATION line = an obligation refuted; exit 2 = ANALYSIS-ERROR/INCONCLUSIVE (anchor vanished or construct outside the recognised fragment). Genuine defects found and repaired are listed in known_findings.json as fixed entries.',
    }


NOT_APPLICABLE = {}


def main():
    m = build()
    with open(os.path.join(VERIF, 'MANIFEST.json'), 'w') as f:
        json.dump(m, f, indent=1)
    print('MANIFEST.json: %d checks, %d not_applicable' % (len(m['checks']), len(m['not_applicable'])))


if __name__ == '__main__':
    main()
