"""A3: facts about the installed PuLP, read from its *source text* with ast (the library is not imported)."""
import ast, importlib.util, os

from .loader import AnalysisError

_cache = {}


def pulp_dir():
    spec = importlib.util.find_spec('pulp')          # locates the package; does not execute it
    if spec is None or not spec.submodule_search_locations:
        raise AnalysisError('PuLP source not found in this interpreter')
    return list(spec.submodule_search_locations)[0]


def constants():
    if 'c' in _cache:
        return _cache['c']
    p = os.path.join(pulp_dir(), 'constants.py')
    tree = ast.parse(open(p).read(), p)
    names, status = {}, {}
    for n in tree.body:
        if isinstance(n, ast.Assign) and len(n.targets) == 1 and isinstance(n.targets[0], ast.Name):
            t = n.targets[0].id
            if isinstance(n.value, ast.Constant):
                names[t] = n.value.value
            elif isinstance(n.value, ast.UnaryOp) and isinstance(n.value.op, ast.USub) and isinstance(n.value.operand, ast.Constant):
                names[t] = -n.value.operand.value
            elif t == 'LpStatus' and isinstance(n.value, ast.Dict):
                for k, v in zip(n.value.keys, n.value.values):
                    if isinstance(k, ast.Name) and isinstance(v, ast.Constant):
                        status[k.id] = v.value
    _cache['c'] = {'names': names, 'LpStatus': status, 'LpStatusStrings': set(status.values()), 'path': p}
    return _cache['c']
