"""Facts about the instance writer (both generators), shared by C08 and C09: line templates of create_instance (document
model), the role of every hole traced back through generate_instances to the option it comes from, file creation."""
import ast

from .terms import *
from .absint import Interp, iter_effects
from .loader import AnalysisError
from . import doc

ARGS = S('args')
_cache = {}


_dests_cache = {}


def dests(t):
    k = id(t)
    hit = _dests_cache.get(k)
    if hit is not None and hit[0] is t:
        return hit[1]
    r = frozenset(x[2] for x in walk_unique(t, set()) if x[0] == 'attr' and x[1] == ARGS)
    _dests_cache[k] = (t, r)
    return r


class WriterFacts:
    def __init__(self, repo, cls, twopl):
        self.repo, self.cls, self.twopl = repo, cls, twopl
        self.gi = repo.method(cls, 'generate_instances')
        self.ci = repo.method(cls, 'create_instance')
        it = Interp(repo)
        it.heap[A(ARGS, 'twopl')] = C(twopl)
        try:
            self.effs, _ = it.run(self.gi, {[p_ for p_ in self.gi.params if p_ != 'self'][0]: ARGS})      # the parsed namespace, whatever the parameter is called
        except Unknown as u:
            raise AnalysisError('%s.generate_instances outside the interpreted fragment: %s' % (cls, u))
        self.it = it
        calls = [(e, c) for e, c in iter_effects(self.effs) if e.kind == 'call' and e.target is self.ci]
        if len(calls) != 1:
            raise AnalysisError('%s.generate_instances: expected one call of create_instance, found %d' % (cls, len(calls)))
        self.call, self.callctx = calls[0]
        params = self.ci.params[1:]
        self.actual = dict(zip(params, self.call.args))
        self.actual.update({k: v for k, v in getattr(self.call, 'kw', ()) if k in params})
        # document of the instance text, expressed over create_instance's own parameters
        it2 = Interp(repo)
        try:
            self.ci_effs, rv = it2.run(self.ci, {})
            self.ci_it = it2
        except Unknown as u:
            raise AnalysisError('%s.create_instance outside the interpreted fragment: %s' % (cls, u))
        self.text = rv
        self.doc = doc.doc_of(rv)
        # a field that is present or absent depending on whether some VALUE is None (an optional parameter of a line-formatting
        # helper) is outside the writer fragment: the analysis cannot tell which callers pass None
        def none_tests(items):
            for x in items:
                if isinstance(x, doc.Alt):
                    c = x.cond
                    while c[0] == 'not':
                        c = c[1]
                    if c[0] == 'cmp' and c[1] in ('Is', 'IsNot', 'Eq', 'NotEq') and NONE in (c[2], c[3]) and (c[2] if c[3] == NONE else c[3])[0] not in ('const',):
                        yield c
                    yield from none_tests(x.a)
                    yield from none_tests(x.b)
                elif isinstance(x, doc.Rep):
                    yield from none_tests(x.items)
        nt = list(none_tests(self.doc))
        if nt:
            raise AnalysisError('%s.create_instance: a part of the instance text depends on whether %s is None (optional field of a formatting helper)' % (cls, show((nt[0][2] if nt[0][3] == NONE else nt[0][3]))[:60]))
        self.lines, self.problems = doc.lines_of(self.doc)

    def params_in(self, t):
        """create_instance parameters mentioned by a term (loop-variable domains are not followed)"""
        out = set()
        seen_loops = set()
        def go(x):
            if not isinstance(x, tuple) or not x:
                return
            if isinstance(x[0], str):
                if x[0] in ('carried', 'prefix', 'while') or (x[0] == 'bvar' and x[3][0] == 'while'):
                    # a value that depends on how often / how far a loop ran: it depends on whatever the loop's condition reads
                    lid = x[2] if x[0] in ('carried', 'prefix') else (x[1] if x[0] == 'while' else x[3][1])
                    info = getattr(getattr(self, 'ci_it', None), 'loopinfo', {}).get(lid)
                    if info is not None and lid not in seen_loops:
                        seen_loops.add(lid)
                        if getattr(info, 'cond', None) is not None:
                            go(info.cond)
                        for v in getattr(info, 'pre', {}).values():
                            go(v)
                if x[0] == 'bvar':
                    return
                if x[0] == 'sym' and x[1] in self.actual:
                    out.add(x[1])
                for y in x[1:]:
                    go(y)
            else:
                for y in x:
                    go(y)
        go(t)
        return out

    def param_of(self, t):
        """the create_instance parameter a hole term draws from (array[x] / scalar), or None"""
        ps = self.params_in(t)
        return next(iter(ps)) if len(ps) == 1 else None

    def role(self, t):
        """option names that determine the value of a hole, via the actual argument passed by generate_instances"""
        p = self.param_of(t)
        if p is None:
            return None
        return dests(self.actual[p])


def writer_facts(repo, cls, twopl):
    key = (repo.root, cls, twopl)
    if key not in _cache:
        _cache[key] = WriterFacts(repo, cls, twopl)
    return _cache[key]


def hole_terms(field):
    """terms of the holes glued into one whitespace-separated field"""
    out = []
    for x in field:
        if isinstance(x, doc.Hole):
            out.append(('hole', x.term, x.sep))
        elif isinstance(x, doc.Rep):
            out.append(('list', x, x.sep))
        elif isinstance(x, doc.Alt):
            out.append(('alt', x, None))
        else:
            out.append(('text', x, None))
    return out


def nonempty_polarity(cond):
    """+1 when cond holds iff some list is NON-empty (x, len(x) != 0, len(x) > 0, not len(x) == 0, x != []), -1 for the
    negation, 0 when it is not such a test; second value: the list term tested"""
    neg = False
    c = cond
    while c[0] == 'not':
        neg, c = not neg, c[1]
    if c[0] == 'bool' and c[1] == 'and' and not neg:
        # `x is not None and len(x) > 0`: the None test only protects the emptiness test of the same list
        rest = [y for y in c[2] if not (y[0] == 'cmp' and y[1] in ('IsNot', 'NotEq') and y[3] == NONE)]
        nones = [y[2] for y in c[2] if y[0] == 'cmp' and y[1] in ('IsNot', 'NotEq') and y[3] == NONE]
        if len(rest) == 1 and nones:
            pol_, lst_ = nonempty_polarity(rest[0])
            if pol_ == 1 and all(n_ == lst_ for n_ in nones):
                return pol_, lst_
    pol, lst = 0, None
    if c[0] == 'cmp' and c[2][0] == 'call' and c[2][1] == S('len') and len(c[2][2]) == 1 and c[3] in (C(0), C(1)):
        lst = c[2][2][0]
        if c[3] == C(0):
            pol = {'NotEq': 1, 'Gt': 1, 'Eq': -1, 'LtE': -1}.get(c[1], 0)
        else:
            pol = {'GtE': 1, 'Lt': -1}.get(c[1], 0)
    elif c[0] == 'cmp' and c[3] == ('list', ()) and c[1] in ('Eq', 'NotEq'):
        lst, pol = c[2], (1 if c[1] == 'NotEq' else -1)
    elif c[0] in ('sym', 'attr', 'idx', 'bvar', 'comp', 'accum'):
        lst, pol = c, 1
    return (-pol if neg else pol), lst


def list_alt_problems(field):
    """a preference-list field that is written conditionally: the branch that carries the tokens must be the one taken when
    the lists EXIST.  -> list of problem texts"""
    out = []
    for x in field:
        if not isinstance(x, doc.Alt):
            continue
        def has_tokens(items):
            return any(isinstance(i_, (doc.Rep, doc.Hole, doc.Alt)) for i_ in items)
        a_tok, b_tok = has_tokens(x.a), has_tokens(x.b)
        if a_tok == b_tok:
            continue
        pol, lst = nonempty_polarity(x.cond)
        if pol == 0:
            if contains(x.cond, lambda t: t[0] == 'call' and t[1] == S('len')):
                out.append('the preference tokens are written under %s, which is not a test for "the side has lists"' % show(x.cond)[:80])
            continue
        if (pol == 1) != a_tok:
            out.append('the preference tokens are written when %s is EMPTY and left out when it has entries (condition %s)' % (show(lst)[:40], show(x.cond)[:60]))
    return out


def stale_line_fields(wf):
    """fields of an agent's line whose text reads a variable CARRIED by the loop over the agents (set in an earlier iteration,
    not in this one): the line of agent x then shows what an earlier agent left behind.  -> [(line index, field index, name)]"""
    from .absint import iter_effects
    lids = {}
    for e, _ in iter_effects(wf.ci_effs):          # the lines are read off create_instance's own interpretation
        if e.kind == 'for':
            lids[e.binder] = e.lid
    def terms(items):
        for x in items:
            if isinstance(x, doc.Hole):
                yield x.term
            elif isinstance(x, doc.Alt):
                yield x.cond
                yield from terms(x.a)
                yield from terms(x.b)
            elif isinstance(x, doc.Rep):
                yield from terms(x.items)
    out = []
    for li, ln in enumerate(wf.lines):
        if not ln.chain:
            continue
        own = {lids.get(b) for b, _ in ln.chain} - {None}
        for k, f in enumerate(doc.fields_of(ln)):
            for t in terms([y for y in f if not isinstance(y, str)]):
                for x in walk(t):
                    if x[0] in ('carried', 'prefix') and x[2] in own and (li, k, x[1]) not in out:
                        out.append((li, k, x[1]))
    return out
