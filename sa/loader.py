"""E1: loader / resolver.  Parses every module under <repo>/matchingproblems and builds
module / class / function tables.  Nothing is imported or executed."""
import ast, re, hashlib, os

PKG = 'matchingproblems'


def repo_root():
    return os.environ.get('SA_REPO', '/repo')


class AnalysisError(Exception):
    """An anchor vanished, a parser failed, or a construct left the fragment a rule understands.
    Mapped to exit code 2 (never a silent pass, never a violation)."""


def scalarise_dicts(fn):
    """Source normalisation: a local dictionary with literal string keys that is only ever subscripted with those literals
    (and at most walked with `for k, v in d.items():`) is a bundle of independent locals.  d['k'] becomes the local d__k
    and the .items() loop is unrolled over the literal keys, in order.  Anything else about d (passed on, returned,
    aliased, computed key) leaves the function untouched."""
    import copy
    cands = {}
    for st in fn.body:
        if isinstance(st, ast.Assign) and len(st.targets) == 1 and isinstance(st.targets[0], ast.Name) and isinstance(st.value, ast.Dict) and st.value.keys \
                and all(isinstance(k, ast.Constant) and isinstance(k.value, str) and k.value.isidentifier() for k in st.value.keys):
            cands[st.targets[0].id] = st
    if not cands:
        return fn
    parents = {}
    for p_ in ast.walk(fn):
        for ch in ast.iter_child_nodes(p_):
            parents[ch] = p_
    ok = {}
    for name, st in cands.items():
        keys = [k.value for k in st.value.keys]
        good = len(set(keys)) == len(keys)
        loops = []
        for n in ast.walk(fn):
            if not (isinstance(n, ast.Name) and n.id == name):
                continue
            par = parents.get(n)
            if par is st and n is st.targets[0]:
                continue
            if isinstance(par, ast.Subscript) and par.value is n and isinstance(par.slice, ast.Constant) and par.slice.value in keys:
                continue
            if isinstance(par, ast.Attribute) and par.attr == 'items' and isinstance(parents.get(par), ast.Call) and not parents[par].args:
                loop = parents.get(parents[par])
                if isinstance(loop, ast.For) and loop.iter is parents[par] and isinstance(loop.target, ast.Tuple) and len(loop.target.elts) == 2 \
                        and all(isinstance(e, ast.Name) for e in loop.target.elts) and not loop.orelse:
                    loops.append(loop)
                    continue
            good = False
            break
        # the assigned names must not be stored elsewhere
        if good and sum(1 for n in ast.walk(fn) if isinstance(n, ast.Name) and n.id == name and isinstance(n.ctx, ast.Store)) == 1:
            ok[name] = (st, keys, loops)
    if not ok:
        return fn
    fn = copy.deepcopy(fn)
    # recompute on the copy (positions are preserved, identities are not)
    class T(ast.NodeTransformer):
        def visit_Assign(self, node):
            if len(node.targets) == 1 and isinstance(node.targets[0], ast.Name) and node.targets[0].id in ok and isinstance(node.value, ast.Dict):
                out = []
                for k, v in zip(node.value.keys, node.value.values):
                    a = ast.Assign(targets=[ast.Name(id='%s__%s' % (node.targets[0].id, k.value), ctx=ast.Store())], value=self.visit(v))
                    out.append(ast.copy_location(a, node))
                    ast.fix_missing_locations(a)
                return out
            return self.generic_visit(node)

        def visit_Subscript(self, node):
            if isinstance(node.value, ast.Name) and node.value.id in ok and isinstance(node.slice, ast.Constant):
                return ast.copy_location(ast.Name(id='%s__%s' % (node.value.id, node.slice.value), ctx=node.ctx), node)
            return self.generic_visit(node)

        def visit_For(self, node):
            it = node.iter
            if isinstance(it, ast.Call) and isinstance(it.func, ast.Attribute) and it.func.attr == 'items' and isinstance(it.func.value, ast.Name) and it.func.value.id in ok:
                name = it.func.value.id
                kvar, vvar = node.target.elts[0].id, node.target.elts[1].id
                out = []
                for k in ok[name][1]:
                    a1 = ast.Assign(targets=[ast.Name(id=kvar, ctx=ast.Store())], value=ast.Constant(value=k))
                    a2 = ast.Assign(targets=[ast.Name(id=vvar, ctx=ast.Store())], value=ast.Name(id='%s__%s' % (name, k), ctx=ast.Load()))
                    body = [self.visit(copy.deepcopy(b)) for b in node.body]
                    for x in [a1, a2]:
                        ast.copy_location(x, node)
                        ast.fix_missing_locations(x)
                    out += [a1, a2]
                    for b in body:
                        out += b if isinstance(b, list) else [b]
                return out
            return self.generic_visit(node)
    new_body = []
    for st in fn.body:
        r = T().visit(st)
        new_body += r if isinstance(r, list) else [r]
    fn.body = new_body
    return fn


def normalise_updates(fn):
    """Source normalisation: `t = t + e` (also - and *, and `t = c + t` for a numeric literal c) is the update `t += e`.
    (For a list `t = t + e` builds a new list where `t += e` extends in place; the two differ only for aliases of t,
    which the interpreter does not track through either form.)"""
    hit = False
    for n in ast.walk(fn):
        if isinstance(n, ast.Assign) and len(n.targets) == 1 and isinstance(n.targets[0], (ast.Name, ast.Attribute, ast.Subscript)) and isinstance(n.value, ast.BinOp) \
                and isinstance(n.value.op, (ast.Add, ast.Sub, ast.Mult)):
            hit = True
            break
        if isinstance(n, ast.AugAssign) and isinstance(n.op, ast.Add) and isinstance(n.value, ast.List):
            hit = True
            break
    if not hit:
        return fn
    import copy
    fn = copy.deepcopy(fn)

    class T(ast.NodeTransformer):
        def visit_AugAssign(self, n):
            self.generic_visit(n)
            # xs += [a, b]  extends the list in place: xs.append(a); xs.append(b)
            if isinstance(n.op, ast.Add) and isinstance(n.value, ast.List) and n.value.elts and isinstance(n.target, (ast.Name, ast.Attribute, ast.Subscript)) \
                    and not any(isinstance(e, ast.Starred) for e in n.value.elts):
                out = []
                for e in n.value.elts:
                    recv = copy.deepcopy(n.target)
                    for x in ast.walk(recv):
                        if hasattr(x, 'ctx'):
                            x.ctx = ast.Load()
                    st = ast.Expr(value=ast.Call(func=ast.Attribute(value=recv, attr='append', ctx=ast.Load()), args=[e], keywords=[]))
                    out.append(ast.copy_location(st, n))
                return out
            return n

        def visit_Assign(self, n):
            self.generic_visit(n)
            if len(n.targets) == 1 and isinstance(n.targets[0], (ast.Name, ast.Attribute, ast.Subscript)) and isinstance(n.value, ast.BinOp) \
                    and isinstance(n.value.op, (ast.Add, ast.Sub, ast.Mult)):
                tgt = ast.unparse(n.targets[0])
                v = n.value
                if ast.unparse(v.left) == tgt:
                    return ast.copy_location(ast.AugAssign(target=n.targets[0], op=v.op, value=v.right), n)
                if isinstance(v.op, (ast.Add, ast.Mult)) and ast.unparse(v.right) == tgt and isinstance(v.left, ast.Constant) and isinstance(v.left.value, (int, float)) \
                        and not isinstance(v.left.value, bool):
                    return ast.copy_location(ast.AugAssign(target=n.targets[0], op=v.op, value=v.left), n)
            return n
    fn = T().visit(fn)
    ast.fix_missing_locations(fn)
    return fn


def normalise_counting_whiles(fn):
    """Source normalisation:  i = c; while i < N: body; i += 1   (i assigned nowhere else in the loop, no continue, i not read
    after the loop, N not changed by the body)  is  for i in range(c, N): body  (range(N) when c is 0; <= gives N + 1)."""
    import copy
    if not any(isinstance(n, ast.While) for n in ast.walk(fn)):
        return fn
    fn = copy.deepcopy(fn)

    def convert(block, later_blocks):
        out = []
        for k, st in enumerate(block):
            for fld in ('body', 'orelse', 'finalbody'):
                if hasattr(st, fld) and isinstance(getattr(st, fld), list):
                    setattr(st, fld, convert(getattr(st, fld), [block[k + 1:]] + later_blocks))
            if isinstance(st, ast.While) and not st.orelse and st.body:
                last = st.body[-1]
                c = st.test
                if isinstance(last, ast.AugAssign) and isinstance(last.target, ast.Name) and isinstance(last.op, ast.Add) and isinstance(last.value, ast.Constant) and last.value.value == 1 \
                        and isinstance(c, ast.Compare) and len(c.ops) == 1 and isinstance(c.ops[0], (ast.Lt, ast.LtE)) and isinstance(c.left, ast.Name) and c.left.id == last.target.id:
                    i = last.target.id
                    bound = c.comparators[0]
                    body = st.body[:-1]
                    bad = any(isinstance(x, ast.Continue) for b in body for x in ast.walk(b)) \
                        or any(isinstance(x, ast.Name) and x.id == i and isinstance(x.ctx, ast.Store) for b in body for x in ast.walk(b)) \
                        or any(isinstance(x, ast.Name) and x.id == i for x in ast.walk(bound))
                    bnames = {x.id for x in ast.walk(bound) if isinstance(x, ast.Name)}
                    bad = bad or any(isinstance(x, ast.Name) and x.id in bnames and isinstance(x.ctx, ast.Store) for b in body for x in ast.walk(b))
                    # the initial value: the nearest earlier statement of this block that binds i must be `i = <int>`
                    init = None
                    init_stmt = None
                    for prev in reversed(out):
                        if any(isinstance(x, ast.Name) and x.id == i and isinstance(x.ctx, ast.Store) for x in ast.walk(prev)):
                            if isinstance(prev, ast.Assign) and len(prev.targets) == 1 and isinstance(prev.targets[0], ast.Name) and isinstance(prev.value, ast.Constant) \
                                    and isinstance(prev.value.value, int) and not isinstance(prev.value.value, bool):
                                init = prev.value.value
                                init_stmt = prev
                            break
                        if any(isinstance(x, ast.Name) and x.id == i for x in ast.walk(prev)):
                            break                          # read before the loop: keep everything as it is
                    # i must not be read after the loop (a for leaves i at N - 1, the while at N)
                    read_after = False
                    for blk in [block[k + 1:]] + later_blocks:
                        stop = False
                        for nxt in blk:
                            for x in ast.walk(nxt):
                                if isinstance(x, ast.Name) and x.id == i:
                                    if isinstance(x.ctx, ast.Load):
                                        read_after = True
                                    stop = True
                            if stop:
                                break
                        if stop:
                            break
                    if not bad and init is not None and not read_after and body:
                        hi = bound if isinstance(c.ops[0], ast.Lt) else ast.BinOp(left=bound, op=ast.Add(), right=ast.Constant(1))
                        args = [hi] if init == 0 else [ast.Constant(init), hi]
                        node = ast.For(target=ast.Name(id=i, ctx=ast.Store()), iter=ast.Call(func=ast.Name(id='range', ctx=ast.Load()), args=args, keywords=[]), body=body, orelse=[])
                        ast.copy_location(node, st)
                        ast.fix_missing_locations(node)
                        if init_stmt is not None:
                            out.remove(init_stmt)             # dead: the for statement binds i itself
                        out.append(node)
                        continue
            out.append(st)
        return out
    fn.body = convert(fn.body, [])
    return fn


def normalise_index_loops(fn):
    """Source normalisation: `for i in range(len(E)): ... E[i] ...` (loop or comprehension clause; E built from names,
    attributes and subscripts; neither i nor E[...] assigned inside) reads the elements of E in order: it becomes
    `for i, e in enumerate(E): ... e ...`, or `for e in E` when i has no other use."""
    import copy

    def simple(e):
        return all(isinstance(x, (ast.Name, ast.Attribute, ast.Subscript, ast.Load, ast.Constant)) for x in ast.walk(e))

    def header(it):
        if isinstance(it, ast.Call) and isinstance(it.func, ast.Name) and it.func.id == 'range' and len(it.args) == 1 and not it.keywords:
            a = it.args[0]
            if isinstance(a, ast.Call) and isinstance(a.func, ast.Name) and a.func.id == 'len' and len(a.args) == 1 and simple(a.args[0]):
                return a.args[0]
        return None

    counter = [0]

    def rewrite(target, it, scope_nodes):
        """-> (new target, new iter) or None; scope_nodes are rewritten in place"""
        E = header(it)
        if E is None or not isinstance(target, ast.Name):
            return None
        i = target.id
        etxt = ast.unparse(E)
        roots = {x.id for x in ast.walk(E) if isinstance(x, ast.Name)}
        hits = []
        for sc in scope_nodes:
            for x in ast.walk(sc):
                if isinstance(x, ast.Name) and x.id == i and isinstance(x.ctx, ast.Store):
                    return None
                if isinstance(x, ast.Name) and x.id in roots and isinstance(x.ctx, ast.Store):
                    return None
                if isinstance(x, ast.Subscript) and not isinstance(x.ctx, ast.Load) and ast.unparse(x.value) == etxt:
                    return None
                if isinstance(x, ast.Call) and isinstance(x.func, ast.Attribute) and ast.unparse(x.func.value) == etxt and x.func.attr in ('append', 'extend', 'insert', 'pop', 'remove', 'sort', 'clear'):
                    return None
                if isinstance(x, ast.Subscript) and isinstance(x.ctx, ast.Load) and isinstance(x.slice, ast.Name) and x.slice.id == i and ast.unparse(x.value) == etxt:
                    hits.append(x)
        if not hits:
            return None
        counter[0] += 1
        ev = '_%s_at_%s' % (re.sub(r'\W+', '_', etxt).strip('_')[-24:], i)

        class R(ast.NodeTransformer):
            def visit_Subscript(self, node):
                if isinstance(node.ctx, ast.Load) and isinstance(node.slice, ast.Name) and node.slice.id == i and ast.unparse(node.value) == etxt:
                    return ast.copy_location(ast.Name(id=ev, ctx=ast.Load()), node)
                return self.generic_visit(node)
        new_scope = [R().visit(sc) for sc in scope_nodes]
        still = any(isinstance(x, ast.Name) and x.id == i for sc in new_scope for x in ast.walk(sc))
        if still:
            nt = ast.Tuple(elts=[ast.Name(id=i, ctx=ast.Store()), ast.Name(id=ev, ctx=ast.Store())], ctx=ast.Store())
            ni = ast.Call(func=ast.Name(id='enumerate', ctx=ast.Load()), args=[copy.deepcopy(E)], keywords=[])
        else:
            nt = ast.Name(id=ev, ctx=ast.Store())
            ni = copy.deepcopy(E)
        return nt, ni, new_scope

    if not any(header(getattr(n, 'iter', None)) is not None for n in ast.walk(fn) if isinstance(n, (ast.For, ast.comprehension))):
        return fn
    fn = copy.deepcopy(fn)

    class T(ast.NodeTransformer):
        def visit_For(self, node):
            self.generic_visit(node)
            if node.orelse:
                return node
            r = rewrite(node.target, node.iter, node.body)
            if r is not None:
                node.target, node.iter, node.body = r
                ast.fix_missing_locations(node)
            return node

        def comp(self, node, elts):
            self.generic_visit(node)
            gens = node.generators
            for k, g in enumerate(gens):
                scope = list(g.ifs) + [x for g2 in gens[k + 1:] for x in [g2.iter] + list(g2.ifs)] + elts(node)
                r = rewrite(g.target, g.iter, scope)
                if r is not None:
                    g.target, g.iter, new_scope = r
                    n_if = len(g.ifs)
                    g.ifs = new_scope[:n_if]
                    pos = n_if
                    for g2 in gens[k + 1:]:
                        g2.iter = new_scope[pos]
                        g2.ifs = new_scope[pos + 1:pos + 1 + len(g2.ifs)]
                        pos += 1 + len(g2.ifs)
                    self.set_elts(node, new_scope[pos:])
            ast.fix_missing_locations(node)
            return node

        def set_elts(self, node, vals):
            if isinstance(node, ast.DictComp):
                node.key, node.value = vals
            else:
                node.elt = vals[0]

        def visit_ListComp(self, node):
            return self.comp(node, lambda n: [n.elt])
        visit_GeneratorExp = visit_ListComp
        visit_SetComp = visit_ListComp

        def visit_DictComp(self, node):
            return self.comp(node, lambda n: [n.key, n.value])
    fn = T().visit(fn)
    ast.fix_missing_locations(fn)
    return fn


def inline_callable_aliases(fn):
    """append = out.append ... append(x)   ->   out.append(x);   choice = np.random.choice ... choice(a)  ->  np.random.choice(a).
    A local assigned ONCE, at the top level of the function body, a dotted attribute chain, and used only as the callee
    of calls; the chain's base name is not assigned again after the alias.  (A performance idiom: a local look-up instead of
    an attribute look-up per call.  Nested functions see the alias too.)"""
    import copy
    def dotted(e):
        if isinstance(e, ast.Name):
            return [e.id]
        if isinstance(e, ast.Attribute):
            b = dotted(e.value)
            return None if b is None else b + [e.attr]
        return None
    params = {a.arg for a in fn.args.posonlyargs + fn.args.args + fn.args.kwonlyargs}
    stores = {}
    for n in ast.walk(fn):
        if isinstance(n, ast.Name) and isinstance(n.ctx, (ast.Store, ast.Del)):
            stores.setdefault(n.id, []).append(n)
    aliases = {}
    for st in fn.body:
        if isinstance(st, ast.Assign) and len(st.targets) == 1 and isinstance(st.targets[0], ast.Name) and isinstance(st.value, ast.Attribute):
            name, d = st.targets[0].id, dotted(st.value)
            if d is None or name in params or len(stores.get(name, [])) != 1 or d[0] == name:
                continue
            base_later = [x for x in stores.get(d[0], []) if (x.lineno, x.col_offset) > (st.lineno, st.col_offset)]
            if base_later:
                continue
            uses = [x for x in ast.walk(fn) if isinstance(x, ast.Name) and x.id == name and isinstance(x.ctx, ast.Load)]
            callee_ids = {id(c.func) for c in ast.walk(fn) if isinstance(c, ast.Call)}
            if uses and all(id(u) in callee_ids for u in uses):
                aliases[name] = (st, st.value)
    if not aliases:
        return fn
    fn = copy.deepcopy(fn)
    # (positions are preserved by deepcopy: find the alias statements again by name)
    class T(ast.NodeTransformer):
        def visit_Call(self, node):
            self.generic_visit(node)
            if isinstance(node.func, ast.Name) and node.func.id in aliases:
                node.func = ast.copy_location(copy.deepcopy(aliases[node.func.id][1]), node.func)
            return node
    fn = T().visit(fn)
    fn.body = [st for st in fn.body if not (isinstance(st, ast.Assign) and len(st.targets) == 1 and isinstance(st.targets[0], ast.Name) and st.targets[0].id in aliases
                                            and isinstance(st.value, ast.Attribute))] or [ast.Pass()]
    ast.fix_missing_locations(fn)
    return fn


class Func:
    def __init__(self, module, cls, node, relpath):
        self.module = module          # dotted module name
        self.cls = cls                # class name or None
        try:
            node = inline_callable_aliases(node)
        except Exception:
            pass
        try:
            node = scalarise_dicts(node)
            node = normalise_updates(node)
            node = normalise_counting_whiles(node)
            node = normalise_index_loops(node)
        except Exception:
            pass
        self.node = node              # ast.FunctionDef
        self.name = node.name
        self.relpath = relpath

    @property
    def qualname(self):
        return (self.cls + '.' if self.cls else '') + self.name

    @property
    def where(self):
        return '%s::%s' % (self.relpath, self.qualname)

    @property
    def params(self):
        return [a.arg for a in self.node.args.args]

    @property
    def is_static(self):
        return any(isinstance(d, ast.Name) and d.id == 'staticmethod' for d in self.node.decorator_list)

    @property
    def is_classmethod(self):
        return any(isinstance(d, ast.Name) and d.id == 'classmethod' for d in self.node.decorator_list)

    def __repr__(self):
        return '<Func %s>' % self.where


class Repo:
    def __init__(self, root=None):
        self.root = root or repo_root()
        self.trees = {}       # relpath -> ast.Module
        self.sources = {}     # relpath -> text
        self.modname = {}     # relpath -> dotted name
        self.classes = {}     # class name -> {method name: Func}
        self.class_module = {}
        self.functions = {}   # (relpath, name) -> Func  (module-level)
        self.funcs_by_name = {}  # name -> [Func] module-level
        base = os.path.join(self.root, PKG)
        if not os.path.isdir(base):
            raise AnalysisError('package directory %s not found' % base)
        for dp, dn, fn in sorted(os.walk(base)):
            dn.sort()
            for f in sorted(fn):
                if not f.endswith('.py'):
                    continue
                p = os.path.join(dp, f)
                rel = os.path.relpath(p, self.root)
                try:
                    src = open(p, encoding='utf-8').read()
                    tree = ast.parse(src, p)
                except (SyntaxError, OSError, UnicodeDecodeError) as e:
                    raise AnalysisError('cannot parse %s: %s' % (rel, e))
                self.trees[rel] = tree
                self.sources[rel] = src
                self.modname[rel] = rel[:-3].replace(os.sep, '.')
                for n in tree.body:
                    if isinstance(n, ast.ClassDef):
                        meths = {}
                        for m in n.body:
                            if isinstance(m, ast.FunctionDef):
                                meths[m.name] = Func(self.modname[rel], n.name, m, rel)
                        self.classes[n.name] = meths
                        self.class_module[n.name] = rel
                    elif isinstance(n, ast.FunctionDef):
                        fu = Func(self.modname[rel], None, n, rel)
                        self.functions[(rel, n.name)] = fu
                        self.funcs_by_name.setdefault(n.name, []).append(fu)

    # ---- look-ups -------------------------------------------------------------
    @staticmethod
    def _core(name):
        return name.strip('_').lower()

    def _renamed(self, name, candidates):
        """a PRIVATE helper that was renamed keeps its role: the unique candidate whose name still carries the old name's
        core (prefix / suffix added or dropped).  Public names are the interface and must match exactly."""
        if not name.startswith('_') or name.startswith('__'):
            return None
        core = self._core(name)
        hits = [c for c in candidates if c.name != name and (core in self._core(c.name) or (len(self._core(c.name)) >= 6 and self._core(c.name) in core))]
        # prefer the tightest match (fewest extra characters); it must be unique
        hits.sort(key=lambda c: abs(len(self._core(c.name)) - len(core)))
        if hits and (len(hits) == 1 or abs(len(self._core(hits[0].name)) - len(core)) < abs(len(self._core(hits[1].name)) - len(core))):
            return hits[0]
        return None

    def method(self, cls, name, required=True):
        m = self.classes.get(cls, {}).get(name)
        if m is None:
            m = self._renamed(name, list(self.classes.get(cls, {}).values()))
        if m is None and required:
            raise AnalysisError('anchor vanished: method %s.%s not found' % (cls, name))
        return m

    def actual(self, cls, name):
        """the name under which the method `name` of class `cls` exists in this tree (see _renamed)"""
        m = self.method(cls, name, required=False)
        return m.name if m is not None else name

    def function(self, name, relpath=None, required=True):
        c = [f for f in self.funcs_by_name.get(name, []) if relpath is None or f.relpath == relpath]
        if len(c) == 1:
            return c[0]
        if not c:
            pool = [f for fs in self.funcs_by_name.values() for f in fs if relpath is None or f.relpath == relpath]
            r = self._renamed(name, pool)
            if r is not None:
                return r
        if not c and not required:
            return None
        raise AnalysisError('anchor vanished or ambiguous: function %s (%d candidates)' % (name, len(c)))

    def actual_function(self, name, relpath=None):
        f = self.function(name, relpath, required=False)
        return f.name if f is not None else name

    def all_funcs(self):
        for c in self.classes.values():
            for f in c.values():
                yield f
        for f in self.functions.values():
            yield f

    def rel(self, *parts):
        return os.path.join(PKG, *parts)

    def digest(self, relpaths=None):
        h = hashlib.sha256()
        for r in sorted(relpaths or self.sources):
            h.update(r.encode())
            h.update(self.sources.get(r, '').encode())
        return h.hexdigest()[:16]

    def enum_members(self, relpath, cls):
        """Members of an Enum class defined by plain assignments, in order."""
        tree = self.trees.get(relpath)
        if tree is None:
            raise AnalysisError('module %s not found' % relpath)
        for n in tree.body:
            if isinstance(n, ast.ClassDef) and n.name == cls:
                out = []
                for s in n.body:
                    if isinstance(s, ast.Assign) and len(s.targets) == 1 and isinstance(s.targets[0], ast.Name):
                        v = s.value.value if isinstance(s.value, ast.Constant) else None
                        out.append((s.targets[0].id, v))
                return out
        raise AnalysisError('enum %s not found in %s' % (cls, relpath))


def loc(func, node):
    return '%s:%d' % (func.relpath, getattr(node, 'lineno', 0))


def src(node):
    try:
        return ast.unparse(node)
    except Exception:
        return '<?>'
