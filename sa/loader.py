"""E1: loader / resolver.  Parses every module under <repo>/matchingproblems and builds
module / class / function tables.  Nothing is imported or executed."""
import ast, hashlib, os

PKG = 'matchingproblems'


def repo_root():
    return os.environ.get('SA_REPO', '/repo')


class AnalysisError(Exception):
    """An anchor vanished, a parser failed, or a construct left the fragment a rule understands.
    Mapped to exit code 2 (never a silent pass, never a violation)."""


class Func:
    def __init__(self, module, cls, node, relpath):
        self.module = module          # dotted module name
        self.cls = cls                # class name or None
        self.node = node              # ast.FunctionDef
        self.name = node.name
        self.relpath = relpath

    @property
    def qualname(self):
        return (self.cls + '.' if self.cls else '') + self.name

    @property
    def where(self):
        return '%s::%s' % (self.relpath, self.qualname)

    @property
    def params(self):
        return [a.arg for a in self.node.args.args]

    @property
    def is_static(self):
        return any(isinstance(d, ast.Name) and d.id == 'staticmethod' for d in self.node.decorator_list)

    @property
    def is_classmethod(self):
        return any(isinstance(d, ast.Name) and d.id == 'classmethod' for d in self.node.decorator_list)

    def __repr__(self):
        return '<Func %s>' % self.where


class Repo:
    def __init__(self, root=None):
        self.root = root or repo_root()
        self.trees = {}       # relpath -> ast.Module
        self.sources = {}     # relpath -> text
        self.modname = {}     # relpath -> dotted name
        self.classes = {}     # class name -> {method name: Func}
        self.class_module = {}
        self.functions = {}   # (relpath, name) -> Func  (module-level)
        self.funcs_by_name = {}  # name -> [Func] module-level
        base = os.path.join(self.root, PKG)
        if not os.path.isdir(base):
            raise AnalysisError('package directory %s not found' % base)
        for dp, dn, fn in sorted(os.walk(base)):
            dn.sort()
            for f in sorted(fn):
                if not f.endswith('.py'):
                    continue
                p = os.path.join(dp, f)
                rel = os.path.relpath(p, self.root)
                try:
                    src = open(p, encoding='utf-8').read()
                    tree = ast.parse(src, p)
                except (SyntaxError, OSError, UnicodeDecodeError) as e:
                    raise AnalysisError('cannot parse %s: %s' % (rel, e))
                self.trees[rel] = tree
                self.sources[rel] = src
                self.modname[rel] = rel[:-3].replace(os.sep, '.')
                for n in tree.body:
                    if isinstance(n, ast.ClassDef):
                        meths = {}
                        for m in n.body:
                            if isinstance(m, ast.FunctionDef):
                                meths[m.name] = Func(self.modname[rel], n.name, m, rel)
                        self.classes[n.name] = meths
                        self.class_module[n.name] = rel
                    elif isinstance(n, ast.FunctionDef):
                        fu = Func(self.modname[rel], None, n, rel)
                        self.functions[(rel, n.name)] = fu
                        self.funcs_by_name.setdefault(n.name, []).append(fu)

    # ---- look-ups -------------------------------------------------------------
    def method(self, cls, name, required=True):
        m = self.classes.get(cls, {}).get(name)
        if m is None and required:
            raise AnalysisError('anchor vanished: method %s.%s not found' % (cls, name))
        return m

    def function(self, name, relpath=None, required=True):
        c = [f for f in self.funcs_by_name.get(name, []) if relpath is None or f.relpath == relpath]
        if len(c) == 1:
            return c[0]
        if not c and not required:
            return None
        raise AnalysisError('anchor vanished or ambiguous: function %s (%d candidates)' % (name, len(c)))

    def all_funcs(self):
        for c in self.classes.values():
            for f in c.values():
                yield f
        for f in self.functions.values():
            yield f

    def rel(self, *parts):
        return os.path.join(PKG, *parts)

    def digest(self, relpaths=None):
        h = hashlib.sha256()
        for r in sorted(relpaths or self.sources):
            h.update(r.encode())
            h.update(self.sources.get(r, '').encode())
        return h.hexdigest()[:16]

    def enum_members(self, relpath, cls):
        """Members of an Enum class defined by plain assignments, in order."""
        tree = self.trees.get(relpath)
        if tree is None:
            raise AnalysisError('module %s not found' % relpath)
        for n in tree.body:
            if isinstance(n, ast.ClassDef) and n.name == cls:
                out = []
                for s in n.body:
                    if isinstance(s, ast.Assign) and len(s.targets) == 1 and isinstance(s.targets[0], ast.Name):
                        v = s.value.value if isinstance(s.value, ast.Constant) else None
                        out.append((s.targets[0].id, v))
                return out
        raise AnalysisError('enum %s not found in %s' % (cls, relpath))


def loc(func, node):
    return '%s:%d' % (func.relpath, getattr(node, 'lineno', 0))


def src(node):
    try:
        return ast.unparse(node)
    except Exception:
        return '<?>'
