"""E1: loader / resolver.  Parses every module under <repo>/matchingproblems and builds
module / class / function tables.  Nothing is imported or executed."""
import ast, re, hashlib, os

PKG = 'matchingproblems'


def repo_root():
    return os.environ.get('SA_REPO', '/repo')


class AnalysisError(Exception):
    """An anchor vanished, a parser failed, or a construct left the fragment a rule understands.
    Mapped to exit code 2 (never a silent pass, never a violation)."""


def scalarise_dicts(fn):
    """Source normalisation: a local dictionary with literal string keys that is only ever subscripted with those literals
    (and at most walked with `for k, v in d.items():`) is a bundle of independent locals.  d['k'] becomes the local d__k
    and the .items() loop is unrolled over the literal keys, in order.  Anything else about d (passed on, returned,
    aliased, computed key) leaves the function untouched."""
    import copy
    cands = {}
    for st in fn.body:
        if isinstance(st, ast.Assign) and len(st.targets) == 1 and isinstance(st.targets[0], ast.Name) and isinstance(st.value, ast.Dict) and st.value.keys \
                and all(isinstance(k, ast.Constant) and isinstance(k.value, str) and k.value.isidentifier() for k in st.value.keys):
            cands[st.targets[0].id] = st
    if not cands:
        return fn
    parents = {}
    for p_ in ast.walk(fn):
        for ch in ast.iter_child_nodes(p_):
            parents[ch] = p_
    ok = {}
    for name, st in cands.items():
        keys = [k.value for k in st.value.keys]
        good = len(set(keys)) == len(keys)
        loops = []
        for n in ast.walk(fn):
            if not (isinstance(n, ast.Name) and n.id == name):
                continue
            par = parents.get(n)
            if par is st and n is st.targets[0]:
                continue
            if isinstance(par, ast.Subscript) and par.value is n and isinstance(par.slice, ast.Constant) and par.slice.value in keys:
                continue
            if isinstance(par, ast.Attribute) and par.attr == 'items' and isinstance(parents.get(par), ast.Call) and not parents[par].args:
                loop = parents.get(parents[par])
                if isinstance(loop, ast.For) and loop.iter is parents[par] and isinstance(loop.target, ast.Tuple) and len(loop.target.elts) == 2 \
                        and all(isinstance(e, ast.Name) for e in loop.target.elts) and not loop.orelse:
                    loops.append(loop)
                    continue
            good = False
            break
        # the assigned names must not be stored elsewhere
        if good and sum(1 for n in ast.walk(fn) if isinstance(n, ast.Name) and n.id == name and isinstance(n.ctx, ast.Store)) == 1:
            ok[name] = (st, keys, loops)
    if not ok:
        return fn
    fn = copy.deepcopy(fn)
    # recompute on the copy (positions are preserved, identities are not)
    class T(ast.NodeTransformer):
        def visit_Assign(self, node):
            if len(node.targets) == 1 and isinstance(node.targets[0], ast.Name) and node.targets[0].id in ok and isinstance(node.value, ast.Dict):
                out = []
                for k, v in zip(node.value.keys, node.value.values):
                    a = ast.Assign(targets=[ast.Name(id='%s__%s' % (node.targets[0].id, k.value), ctx=ast.Store())], value=self.visit(v))
                    out.append(ast.copy_location(a, node))
                    ast.fix_missing_locations(a)
                return out
            return self.generic_visit(node)

        def visit_Subscript(self, node):
            if isinstance(node.value, ast.Name) and node.value.id in ok and isinstance(node.slice, ast.Constant):
                return ast.copy_location(ast.Name(id='%s__%s' % (node.value.id, node.slice.value), ctx=node.ctx), node)
            return self.generic_visit(node)

        def visit_For(self, node):
            it = node.iter
            if isinstance(it, ast.Call) and isinstance(it.func, ast.Attribute) and it.func.attr == 'items' and isinstance(it.func.value, ast.Name) and it.func.value.id in ok:
                name = it.func.value.id
                kvar, vvar = node.target.elts[0].id, node.target.elts[1].id
                out = []
                for k in ok[name][1]:
                    a1 = ast.Assign(targets=[ast.Name(id=kvar, ctx=ast.Store())], value=ast.Constant(value=k))
                    a2 = ast.Assign(targets=[ast.Name(id=vvar, ctx=ast.Store())], value=ast.Name(id='%s__%s' % (name, k), ctx=ast.Load()))
                    body = [self.visit(copy.deepcopy(b)) for b in node.body]
                    for x in [a1, a2]:
                        ast.copy_location(x, node)
                        ast.fix_missing_locations(x)
                    out += [a1, a2]
                    for b in body:
                        out += b if isinstance(b, list) else [b]
                return out
            return self.generic_visit(node)
    new_body = []
    for st in fn.body:
        r = T().visit(st)
        new_body += r if isinstance(r, list) else [r]
    fn.body = new_body
    return fn


def normalise_updates(fn):
    """Source normalisation: `t = t + e` (also - and *, and `t = c + t` for a numeric literal c) is the update `t += e`.
    (For a list `t = t + e` builds a new list where `t += e` extends in place; the two differ only for aliases of t,
    which the interpreter does not track through either form.)"""
    hit = False
    for n in ast.walk(fn):
        if isinstance(n, ast.Assign) and len(n.targets) == 1 and isinstance(n.targets[0], (ast.Name, ast.Attribute, ast.Subscript)) and isinstance(n.value, ast.BinOp) \
                and isinstance(n.value.op, (ast.Add, ast.Sub, ast.Mult)):
            hit = True
            break
        if isinstance(n, ast.AugAssign) and isinstance(n.op, ast.Add) and isinstance(n.value, ast.List):
            hit = True
            break
    if not hit:
        return fn
    import copy
    fn = copy.deepcopy(fn)

    class T(ast.NodeTransformer):
        def visit_AugAssign(self, n):
            self.generic_visit(n)
            # xs += [a, b]  extends the list in place: xs.append(a); xs.append(b)
            if isinstance(n.op, ast.Add) and isinstance(n.value, ast.List) and n.value.elts and isinstance(n.target, (ast.Name, ast.Attribute, ast.Subscript)) \
                    and not any(isinstance(e, ast.Starred) for e in n.value.elts):
                out = []
                for e in n.value.elts:
                    recv = copy.deepcopy(n.target)
                    for x in ast.walk(recv):
                        if hasattr(x, 'ctx'):
                            x.ctx = ast.Load()
                    st = ast.Expr(value=ast.Call(func=ast.Attribute(value=recv, attr='append', ctx=ast.Load()), args=[e], keywords=[]))
                    out.append(ast.copy_location(st, n))
                return out
            return n

        def visit_Assign(self, n):
            self.generic_visit(n)
            if len(n.targets) == 1 and isinstance(n.targets[0], (ast.Name, ast.Attribute, ast.Subscript)) and isinstance(n.value, ast.BinOp) \
                    and isinstance(n.value.op, (ast.Add, ast.Sub, ast.Mult)):
                tgt = ast.unparse(n.targets[0])
                v = n.value
                if ast.unparse(v.left) == tgt:
                    return ast.copy_location(ast.AugAssign(target=n.targets[0], op=v.op, value=v.right), n)
                if isinstance(v.op, (ast.Add, ast.Mult)) and ast.unparse(v.right) == tgt and isinstance(v.left, ast.Constant) and isinstance(v.left.value, (int, float)) \
                        and not isinstance(v.left.value, bool):
                    return ast.copy_location(ast.AugAssign(target=n.targets[0], op=v.op, value=v.left), n)
            return n
    fn = T().visit(fn)
    ast.fix_missing_locations(fn)
    return fn


def normalise_counting_whiles(fn):
    """Source normalisation:  i = c; while i < N: body; i += 1   (i assigned nowhere else in the loop, no continue, i not read
    after the loop, N not changed by the body)  is  for i in range(c, N): body  (range(N) when c is 0; <= gives N + 1)."""
    import copy
    if not any(isinstance(n, ast.While) for n in ast.walk(fn)):
        return fn
    fn = copy.deepcopy(fn)

    def convert(block, later_blocks):
        out = []
        for k, st in enumerate(block):
            for fld in ('body', 'orelse', 'finalbody'):
                if hasattr(st, fld) and isinstance(getattr(st, fld), list):
                    setattr(st, fld, convert(getattr(st, fld), [block[k + 1:]] + later_blocks))
            if isinstance(st, ast.While) and not st.orelse and st.body:
                last = st.body[-1]
                c = st.test
                if isinstance(last, ast.AugAssign) and isinstance(last.target, ast.Name) and isinstance(last.op, ast.Add) and isinstance(last.value, ast.Constant) and last.value.value == 1 \
                        and isinstance(c, ast.Compare) and len(c.ops) == 1 and isinstance(c.ops[0], (ast.Lt, ast.LtE)) and isinstance(c.left, ast.Name) and c.left.id == last.target.id:
                    i = last.target.id
                    bound = c.comparators[0]
                    body = st.body[:-1]
                    bad = any(isinstance(x, ast.Continue) for b in body for x in ast.walk(b)) \
                        or any(isinstance(x, ast.Name) and x.id == i and isinstance(x.ctx, ast.Store) for b in body for x in ast.walk(b)) \
                        or any(isinstance(x, ast.Name) and x.id == i for x in ast.walk(bound))
                    bnames = {x.id for x in ast.walk(bound) if isinstance(x, ast.Name)}
                    bad = bad or any(isinstance(x, ast.Name) and x.id in bnames and isinstance(x.ctx, ast.Store) for b in body for x in ast.walk(b))
                    # the initial value: the nearest earlier statement of this block that binds i must be `i = <int>`
                    init = None
                    init_stmt = None
                    for prev in reversed(out):
                        if any(isinstance(x, ast.Name) and x.id == i and isinstance(x.ctx, ast.Store) for x in ast.walk(prev)):
                            if isinstance(prev, ast.Assign) and len(prev.targets) == 1 and isinstance(prev.targets[0], ast.Name) and isinstance(prev.value, ast.Constant) \
                                    and isinstance(prev.value.value, int) and not isinstance(prev.value.value, bool):
                                init = prev.value.value
                                init_stmt = prev
                            break
                        if any(isinstance(x, ast.Name) and x.id == i for x in ast.walk(prev)):
                            break                          # read before the loop: keep everything as it is
                    # i must not be read after the loop (a for leaves i at N - 1, the while at N)
                    read_after = False
                    for blk in [block[k + 1:]] + later_blocks:
                        stop = False
                        for nxt in blk:
                            for x in ast.walk(nxt):
                                if isinstance(x, ast.Name) and x.id == i:
                                    if isinstance(x.ctx, ast.Load):
                                        read_after = True
                                    stop = True
                            if stop:
                                break
                        if stop:
                            break
                    if not bad and init is not None and not read_after and body:
                        hi = bound if isinstance(c.ops[0], ast.Lt) else ast.BinOp(left=bound, op=ast.Add(), right=ast.Constant(1))
                        args = [hi] if init == 0 else [ast.Constant(init), hi]
                        node = ast.For(target=ast.Name(id=i, ctx=ast.Store()), iter=ast.Call(func=ast.Name(id='range', ctx=ast.Load()), args=args, keywords=[]), body=body, orelse=[])
                        ast.copy_location(node, st)
                        ast.fix_missing_locations(node)
                        if init_stmt is not None:
                            out.remove(init_stmt)             # dead: the for statement binds i itself
                        out.append(node)
                        continue
            out.append(st)
        return out
    fn.body = convert(fn.body, [])
    return fn


def normalise_index_loops(fn):
    """Source normalisation: `for i in range(len(E)): ... E[i] ...` (loop or comprehension clause; E built from names,
    attributes and subscripts; neither i nor E[...] assigned inside) reads the elements of E in order: it becomes
    `for i, e in enumerate(E): ... e ...`, or `for e in E` when i has no other use."""
    import copy

    def simple(e):
        return all(isinstance(x, (ast.Name, ast.Attribute, ast.Subscript, ast.Load, ast.Constant)) for x in ast.walk(e))

    def header(it):
        if isinstance(it, ast.Call) and isinstance(it.func, ast.Name) and it.func.id == 'range' and len(it.args) == 1 and not it.keywords:
            a = it.args[0]
            if isinstance(a, ast.Call) and isinstance(a.func, ast.Name) and a.func.id == 'len' and len(a.args) == 1 and simple(a.args[0]):
                return a.args[0]
        return None

    counter = [0]

    def rewrite(target, it, scope_nodes):
        """-> (new target, new iter) or None; scope_nodes are rewritten in place"""
        E = header(it)
        if E is None or not isinstance(target, ast.Name):
            return None
        i = target.id
        etxt = ast.unparse(E)
        roots = {x.id for x in ast.walk(E) if isinstance(x, ast.Name)}
        # E must be a sequence: a table bound to a dictionary anywhere in the function (E[i] is then a key lookup, and
        # range(len(E)) counts its keys, not its positions) is left alone
        for x in ast.walk(fn):
            if isinstance(x, ast.Assign) and any(ast.unparse(t_) == etxt for t_ in x.targets):
                v_ = x.value
                if isinstance(v_, (ast.Dict, ast.DictComp)) or (isinstance(v_, ast.Call) and ast.unparse(v_.func).split('.')[-1] in ('dict', 'defaultdict', 'OrderedDict', 'Counter')):
                    return None
        hits = []
        for sc in scope_nodes:
            for x in ast.walk(sc):
                if isinstance(x, ast.Name) and x.id == i and isinstance(x.ctx, ast.Store):
                    return None
                if isinstance(x, ast.Name) and x.id in roots and isinstance(x.ctx, ast.Store):
                    return None
                if isinstance(x, ast.Subscript) and not isinstance(x.ctx, ast.Load) and ast.unparse(x.value) == etxt:
                    return None
                if isinstance(x, ast.Call) and isinstance(x.func, ast.Attribute) and ast.unparse(x.func.value) == etxt and x.func.attr in ('append', 'extend', 'insert', 'pop', 'remove', 'sort', 'clear'):
                    return None
                if isinstance(x, ast.Subscript) and isinstance(x.ctx, ast.Load) and isinstance(x.slice, ast.Name) and x.slice.id == i and ast.unparse(x.value) == etxt:
                    hits.append(x)
        if not hits:
            return None
        counter[0] += 1
        ev = '_%s_at_%s' % (re.sub(r'\W+', '_', etxt).strip('_')[-24:], i)

        class R(ast.NodeTransformer):
            def visit_Subscript(self, node):
                if isinstance(node.ctx, ast.Load) and isinstance(node.slice, ast.Name) and node.slice.id == i and ast.unparse(node.value) == etxt:
                    return ast.copy_location(ast.Name(id=ev, ctx=ast.Load()), node)
                return self.generic_visit(node)
        new_scope = [R().visit(sc) for sc in scope_nodes]
        still = any(isinstance(x, ast.Name) and x.id == i for sc in new_scope for x in ast.walk(sc))
        if still:
            nt = ast.Tuple(elts=[ast.Name(id=i, ctx=ast.Store()), ast.Name(id=ev, ctx=ast.Store())], ctx=ast.Store())
            ni = ast.Call(func=ast.Name(id='enumerate', ctx=ast.Load()), args=[copy.deepcopy(E)], keywords=[])
        else:
            nt = ast.Name(id=ev, ctx=ast.Store())
            ni = copy.deepcopy(E)
        return nt, ni, new_scope

    if not any(header(getattr(n, 'iter', None)) is not None for n in ast.walk(fn) if isinstance(n, (ast.For, ast.comprehension))):
        return fn
    fn = copy.deepcopy(fn)

    class T(ast.NodeTransformer):
        def visit_For(self, node):
            self.generic_visit(node)
            if node.orelse:
                return node
            r = rewrite(node.target, node.iter, node.body)
            if r is not None:
                node.target, node.iter, node.body = r
                ast.fix_missing_locations(node)
            return node

        def comp(self, node, elts):
            self.generic_visit(node)
            gens = node.generators
            for k, g in enumerate(gens):
                scope = list(g.ifs) + [x for g2 in gens[k + 1:] for x in [g2.iter] + list(g2.ifs)] + elts(node)
                r = rewrite(g.target, g.iter, scope)
                if r is not None:
                    g.target, g.iter, new_scope = r
                    n_if = len(g.ifs)
                    g.ifs = new_scope[:n_if]
                    pos = n_if
                    for g2 in gens[k + 1:]:
                        g2.iter = new_scope[pos]
                        g2.ifs = new_scope[pos + 1:pos + 1 + len(g2.ifs)]
                        pos += 1 + len(g2.ifs)
                    self.set_elts(node, new_scope[pos:])
            ast.fix_missing_locations(node)
            return node

        def set_elts(self, node, vals):
            if isinstance(node, ast.DictComp):
                node.key, node.value = vals
            else:
                node.elt = vals[0]

        def visit_ListComp(self, node):
            return self.comp(node, lambda n: [n.elt])
        visit_GeneratorExp = visit_ListComp
        visit_SetComp = visit_ListComp

        def visit_DictComp(self, node):
            return self.comp(node, lambda n: [n.key, n.value])
    fn = T().visit(fn)
    ast.fix_missing_locations(fn)
    return fn


def inline_callable_aliases(fn):
    """append = out.append ... append(x)   ->   out.append(x);   choice = np.random.choice ... choice(a)  ->  np.random.choice(a).
    A local assigned ONCE, at the top level of the function body, a dotted attribute chain, and used only as the callee
    of calls; the chain's base name is not assigned again after the alias.  (A performance idiom: a local look-up instead of
    an attribute look-up per call.  Nested functions see the alias too.)"""
    import copy
    def dotted(e):
        if isinstance(e, ast.Name):
            return [e.id]
        if isinstance(e, ast.Attribute):
            b = dotted(e.value)
            return None if b is None else b + [e.attr]
        return None
    params = {a.arg for a in fn.args.posonlyargs + fn.args.args + fn.args.kwonlyargs}
    stores = {}
    for n in ast.walk(fn):
        if isinstance(n, ast.Name) and isinstance(n.ctx, (ast.Store, ast.Del)):
            stores.setdefault(n.id, []).append(n)
    aliases = {}
    for st in fn.body:
        if isinstance(st, ast.Assign) and len(st.targets) == 1 and isinstance(st.targets[0], ast.Name) and isinstance(st.value, ast.Attribute):
            name, d = st.targets[0].id, dotted(st.value)
            if d is None or name in params or len(stores.get(name, [])) != 1 or d[0] == name:
                continue
            base_later = [x for x in stores.get(d[0], []) if (x.lineno, x.col_offset) > (st.lineno, st.col_offset)]
            if base_later:
                continue
            uses = [x for x in ast.walk(fn) if isinstance(x, ast.Name) and x.id == name and isinstance(x.ctx, ast.Load)]
            callee_ids = {id(c.func) for c in ast.walk(fn) if isinstance(c, ast.Call)}
            if uses and all(id(u) in callee_ids for u in uses):
                aliases[name] = (st, st.value)
    if not aliases:
        return fn
    fn = copy.deepcopy(fn)
    # (positions are preserved by deepcopy: find the alias statements again by name)
    class T(ast.NodeTransformer):
        def visit_Call(self, node):
            self.generic_visit(node)
            if isinstance(node.func, ast.Name) and node.func.id in aliases:
                node.func = ast.copy_location(copy.deepcopy(aliases[node.func.id][1]), node.func)
            return node
    fn = T().visit(fn)
    fn.body = [st for st in fn.body if not (isinstance(st, ast.Assign) and len(st.targets) == 1 and isinstance(st.targets[0], ast.Name) and st.targets[0].id in aliases
                                            and isinstance(st.value, ast.Attribute))] or [ast.Pass()]
    ast.fix_missing_locations(fn)
    return fn



_PURE_BUILTINS = {'len', 'abs', 'int', 'max', 'min', 'sum', 'str', 'bool', 'float', 'round', 'sorted', 'tuple', 'list', 'set', 'any', 'all',
                  'isinstance', 'hasattr', 'getattr', 'range', 'enumerate', 'zip', 'frozenset', 'dict', 'divmod', 'repr'}
_MUTATORS = {'append', 'extend', 'insert', 'pop', 'remove', 'clear', 'sort', 'reverse', 'update', 'add', 'discard', 'setdefault', 'popitem'}


def normalise_properties(trees):
    """Read-only @property getters whose body is `return E` with E a pure expression of `self`.
       * materialised  (self.f = E  placed after every store to an attribute E reads) when E reads only plain attributes of
         self that are assigned nowhere but in the class's own methods and are never mutated in place: the stored attribute
         then always equals what the getter would return, and the analyses keep seeing an attribute;
       * otherwise inlined at every read  x.f  whose receiver x is a name / attribute chain (the getter is evaluated at the
         read: exactly Python's semantics), provided the name f is unambiguous in the package.
       Returns the names of properties that could be handled in neither way (reads of them leave the fragment)."""
    props = {}                      # name -> [(class node, FunctionDef, E)]
    other_defs = set()              # attribute names stored / defined elsewhere
    for tree in trees.values():
        for cls in [n for n in ast.walk(tree) if isinstance(n, ast.ClassDef)]:
            for m in cls.body:
                if not isinstance(m, ast.FunctionDef):
                    continue
                decs = [ast.unparse(d) for d in m.decorator_list]
                if any(d in ('property', 'functools.cached_property', 'cached_property') for d in decs):
                    body = [b for b in m.body if not (isinstance(b, ast.Expr) and isinstance(b.value, ast.Constant))]
                    e = body[0].value if (len(body) == 1 and isinstance(body[0], ast.Return) and body[0].value is not None and len(m.args.args) == 1
                                          and decs == ['property']) else None
                    props.setdefault(m.name, []).append((cls, m, e))
                elif any(d.endswith('.setter') or d.endswith('.deleter') for d in decs):
                    props.setdefault(m.name, []).append((cls, m, None))
    if not props:
        return set()
    for tree in trees.values():
        for n in ast.walk(tree):
            if isinstance(n, ast.Attribute) and isinstance(n.ctx, (ast.Store, ast.Del)):
                other_defs.add(n.attr)
            if isinstance(n, ast.ClassDef):
                for m in n.body:
                    if isinstance(m, ast.FunctionDef) and not any(ast.unparse(d) == 'property' for d in m.decorator_list):
                        other_defs.add(m.name)
                    if isinstance(m, (ast.Assign, ast.AnnAssign)):
                        for t in (m.targets if isinstance(m, ast.Assign) else [m.target]):
                            if isinstance(t, ast.Name):
                                other_defs.add(t.id)
    unsupported = set()
    good = {}
    for name, defs in props.items():
        if len(defs) != 1 or defs[0][2] is None or name in other_defs:
            unsupported.add(name)
            continue
        cls, m, e = defs[0]
        sname = m.args.args[0].arg
        bound = {g.id for c in ast.walk(e) if isinstance(c, ast.comprehension) for g in ast.walk(c.target) if isinstance(g, ast.Name)}
        bound |= {a.arg for l in ast.walk(e) if isinstance(l, ast.Lambda) for a in l.args.args}
        ok = True
        for x in ast.walk(e):
            if isinstance(x, ast.Name) and x.id != sname and x.id not in bound and x.id not in _PURE_BUILTINS and not x.id[:1].isupper():
                ok = False            # a module-level helper or global: not known to be pure  (Capitalised: enum / class constant)
            if isinstance(x, ast.Call) and isinstance(x.func, ast.Attribute) and not (isinstance(x.func.value, ast.Name) and x.func.value.id in ('np', 'math')) \
                    and x.func.attr not in ('get', 'keys', 'values', 'items', 'lower', 'upper', 'strip', 'count', 'index', 'startswith', 'endswith', 'format', 'join', 'split'):
                ok = False            # a method call on something: may have effects
            if isinstance(x, (ast.NamedExpr, ast.Yield, ast.YieldFrom, ast.Await)):
                ok = False
        if not ok:
            unsupported.add(name)
            continue
        good[name] = (cls, m, e, sname)
    # properties that read other properties: substitute (dependency order, bounded)
    for _ in range(4):
        for name, (cls, m, e, sname) in list(good.items()):
            class Sub(ast.NodeTransformer):
                def visit_Attribute(self, n):
                    self.generic_visit(n)
                    if isinstance(n.ctx, ast.Load) and n.attr in good and n.attr != name and isinstance(n.value, ast.Name) and n.value.id == sname:
                        return _subst_self(good[n.attr][2], good[n.attr][3], n.value)
                    return n
            good[name] = (cls, m, Sub().visit(e), sname)

    def deps_of(e, sname):
        d = set()
        plain = True
        for x in ast.walk(e):
            if isinstance(x, ast.Attribute) and isinstance(x.value, ast.Name) and x.value.id == sname:
                d.add(x.attr)
        # every use of self must be  self.attr  used as a scalar (no deeper path, no subscript, no call on it)
        parents = {}
        for x in ast.walk(e):
            for c in ast.iter_child_nodes(x):
                parents[c] = x
        for x in ast.walk(e):
            if isinstance(x, ast.Name) and x.id == sname:
                par = parents.get(x)
                if not (isinstance(par, ast.Attribute) and par.value is x):
                    plain = False
                else:
                    gp = parents.get(par)
                    if isinstance(gp, (ast.Attribute, ast.Subscript)) and getattr(gp, 'value', None) is par:
                        plain = False
                    if isinstance(gp, ast.Call) and gp.func is par:
                        plain = False
        return d, plain

    materialised = {}
    for name, (cls, m, e, sname) in good.items():
        d, plain = deps_of(e, sname)
        if not plain or not d:
            continue
        if isinstance(e, (ast.Compare, ast.BoolOp)) or (isinstance(e, ast.UnaryOp) and isinstance(e.op, ast.Not)) \
                or (isinstance(e, ast.Call) and isinstance(e.func, ast.Name) and e.func.id in ('hasattr', 'isinstance', 'bool')):
            continue                  # a predicate: inlined, so that the rules see the test itself
        fine = True
        for tree in trees.values():
            own_nodes = set()
            for c in ast.walk(tree):
                if c is cls:
                    for mm in c.body:
                        if isinstance(mm, ast.FunctionDef) and mm.args.args:
                            s0 = mm.args.args[0].arg
                            for y in ast.walk(mm):
                                if isinstance(y, ast.Attribute) and isinstance(y.value, ast.Name) and y.value.id == s0:
                                    own_nodes.add(id(y))
            for y in ast.walk(tree):
                if isinstance(y, ast.Attribute) and y.attr in d:
                    if isinstance(y.ctx, (ast.Store, ast.Del)) and id(y) not in own_nodes:
                        fine = False              # assigned from outside the class
                if isinstance(y, ast.Call) and isinstance(y.func, ast.Attribute) and y.func.attr in _MUTATORS and isinstance(y.func.value, ast.Attribute) and y.func.value.attr in d:
                    fine = False                  # mutated in place
                if isinstance(y, ast.Subscript) and isinstance(y.ctx, (ast.Store, ast.Del)) and isinstance(y.value, ast.Attribute) and y.value.attr in d:
                    fine = False
                if isinstance(y, ast.Call) and isinstance(y.func, ast.Name) and y.func.id in ('setattr', 'delattr', 'vars'):
                    fine = False
            if not fine:
                break
        if not fine:
            continue
        init = next((mm for mm in cls.body if isinstance(mm, ast.FunctionDef) and mm.name == '__init__'), None)
        init_defined = set()
        if init is not None and init.args.args:
            s0 = init.args.args[0].arg
            for st in init.body:
                for t in _store_targets(st):
                    if isinstance(t, ast.Attribute) and isinstance(t.value, ast.Name) and t.value.id == s0:
                        init_defined.add(t.attr)
        placed = [0]

        def place(block, s0, have, is_init, top):
            i = 0
            while i < len(block):
                st = block[i]
                hit = [t.attr for t in _store_targets(st) if isinstance(t, ast.Attribute) and isinstance(t.value, ast.Name) and t.value.id == s0 and t.attr in d]
                for fld in ('body', 'orelse', 'finalbody', 'handlers'):
                    sub = getattr(st, fld, None)
                    if isinstance(sub, list) and sub and isinstance(sub[0], ast.stmt):
                        place(sub, s0, set(have), is_init, False)
                    elif isinstance(sub, list):
                        for h in sub:
                            if isinstance(h, ast.ExceptHandler):
                                place(h.body, s0, set(have), is_init, False)
                if hit:
                    if top or not is_init:
                        have |= set(hit)
                    if d <= (have | set(hit)):
                        new = ast.Assign(targets=[ast.Attribute(value=ast.Name(id=s0, ctx=ast.Load()), attr=name, ctx=ast.Store())], value=_subst_self(e, sname, ast.Name(id=s0, ctx=ast.Load())))
                        ast.copy_location(new, st)
                        ast.fix_missing_locations(new)
                        block.insert(i + 1, new)
                        placed[0] += 1
                        i += 1
                i += 1
        for mm in cls.body:
            if isinstance(mm, ast.FunctionDef) and mm is not m and mm.args.args and not any(ast.unparse(dd) in ('staticmethod', 'classmethod') for dd in mm.decorator_list):
                is_init = mm.name == '__init__'
                place(mm.body, mm.args.args[0].arg, set() if is_init else set(init_defined), is_init, True)
        if placed[0]:
            cls.body.remove(m)
            materialised[name] = True
    # the rest: inline at reads
    inl = {n_: v for n_, v in good.items() if n_ not in materialised}
    if inl:
        def simple(x):
            return isinstance(x, ast.Name) or (isinstance(x, ast.Attribute) and simple(x.value))

        class Inl(ast.NodeTransformer):
            def visit_Attribute(self, n):
                self.generic_visit(n)
                if isinstance(n.ctx, ast.Load) and n.attr in inl:
                    if not simple(n.value):
                        unsupported.add(n.attr)
                        return n
                    cls, m, e, sname = inl[n.attr]
                    new = _subst_self(e, sname, n.value)
                    ast.copy_location(new, n)
                    for y in ast.walk(new):
                        ast.copy_location(y, n)
                    return new
                return n
        for tree in trees.values():
            Inl().visit(tree)
            ast.fix_missing_locations(tree)
        for n_, (cls, m, e, sname) in inl.items():
            if n_ not in unsupported and m in cls.body:
                cls.body.remove(m)
    return unsupported


def inline_predicate_methods(trees):
    """def has_x(self): return <pure test of self>   called as   obj.has_x()   ->   the test itself, written on obj
    (methods without parameters whose body is one `return` of a comparison / boolean combination / hasattr / isinstance /
    `not`, defined once in the package, only ever called - never passed around - on a name or attribute chain)."""
    defs = {}
    for tree in trees.values():
        for cls in [n for n in ast.walk(tree) if isinstance(n, ast.ClassDef)]:
            for m in cls.body:
                if isinstance(m, ast.FunctionDef):
                    defs.setdefault(m.name, []).append((cls, m))
        for n in tree.body:
            if isinstance(n, ast.FunctionDef):
                defs.setdefault(n.name, []).append((None, n))
    cand = {}
    for name, ds in defs.items():
        if len(ds) != 1 or ds[0][0] is None or name.startswith('__'):
            continue
        cls, m = ds[0]
        if m.decorator_list or len(m.args.args) != 1 or m.args.vararg or m.args.kwarg or m.args.kwonlyargs:
            continue
        body = [b for b in m.body if not (isinstance(b, ast.Expr) and isinstance(b.value, ast.Constant))]
        if len(body) != 1 or not isinstance(body[0], ast.Return) or body[0].value is None:
            continue
        e = body[0].value
        pred = isinstance(e, (ast.Compare, ast.BoolOp)) or (isinstance(e, ast.UnaryOp) and isinstance(e.op, ast.Not)) \
            or (isinstance(e, ast.Call) and isinstance(e.func, ast.Name) and e.func.id in ('hasattr', 'isinstance', 'bool'))
        if not pred:
            continue
        sname = m.args.args[0].arg
        ok = True
        for x in ast.walk(e):
            if isinstance(x, ast.Name) and x.id != sname and x.id not in _PURE_BUILTINS and not x.id[:1].isupper() and x.id not in ('None', 'True', 'False'):
                ok = False
            if isinstance(x, ast.Call) and not (isinstance(x.func, ast.Name) and x.func.id in _PURE_BUILTINS):
                ok = False
            if isinstance(x, (ast.NamedExpr, ast.Lambda, ast.ListComp, ast.GeneratorExp, ast.SetComp, ast.DictComp)):
                ok = False
        if ok:
            cand[name] = (cls, m, e, sname)
    if not cand:
        return
    simple = lambda x: isinstance(x, ast.Name) or (isinstance(x, ast.Attribute) and simple(x.value))
    # every occurrence of .name must be the callee of a call without arguments on a simple receiver
    uses_ok = {n_: True for n_ in cand}
    for tree in trees.values():
        callee_ids = set()
        for n in ast.walk(tree):
            if isinstance(n, ast.Call) and isinstance(n.func, ast.Attribute) and n.func.attr in cand:
                callee_ids.add(id(n.func))
                if n.args or n.keywords or not simple(n.func.value):
                    uses_ok[n.func.attr] = False
        for n in ast.walk(tree):
            if isinstance(n, ast.Attribute) and n.attr in cand and id(n) not in callee_ids:
                uses_ok[n.attr] = False
            if isinstance(n, ast.Constant) and isinstance(n.value, str) and n.value in cand:
                uses_ok[n.value] = False                      # getattr(x, 'name') and the like
    cand = {n_: v for n_, v in cand.items() if uses_ok[n_]}
    if not cand:
        return

    class Inl(ast.NodeTransformer):
        def visit_Call(self, n):
            self.generic_visit(n)
            if isinstance(n.func, ast.Attribute) and n.func.attr in cand and not n.args and not n.keywords:
                cls, m, e, sname = cand[n.func.attr]
                new = _subst_self(e, sname, n.func.value)
                for y in ast.walk(new):
                    ast.copy_location(y, n)
                return new
            return n
    for tree in trees.values():
        Inl().visit(tree)
        ast.fix_missing_locations(tree)
    for n_, (cls, m, e, sname) in cand.items():
        if m in cls.body:
            cls.body.remove(m)
            if not cls.body:
                cls.body.append(ast.Pass())


def normalise_module_qualified_names(trees):
    """from . import helpers; helpers.f(x); helpers.LIMIT   ->   f(x); LIMIT   for modules of the package imported as a name,
    when f / LIMIT is defined at the top level of that module, that name is unique among the package's module-level names and
    the importing module does not define it itself.  (The rules resolve plain names across the package.)"""
    top = {}              # relpath -> set of top-level names
    owners = {}           # name -> [relpath]
    for rel, tree in trees.items():
        names = set()
        for n in tree.body:
            if isinstance(n, (ast.FunctionDef, ast.ClassDef)):
                names.add(n.name)
            elif isinstance(n, ast.Assign):
                names |= {t.id for t in n.targets if isinstance(t, ast.Name)}
        top[rel] = names
        for nm in names:
            owners.setdefault(nm, []).append(rel)
    by_base = {}
    for rel in trees:
        by_base.setdefault(os.path.basename(rel)[:-3], []).append(rel)
    for rel, tree in trees.items():
        alias = {}
        for n in tree.body:
            if isinstance(n, ast.ImportFrom):
                for a in n.names:
                    cand = by_base.get(a.name, [])
                    if len(cand) == 1 and a.name not in top.get(rel, ()):           # `from . import orderings`
                        # only when the imported name is a module, not a name defined by the package named in the import
                        src_is_pkg = n.module is None or not any(r_.endswith((n.module or '').replace('.', os.sep) + '.py') and a.name in top[r_] for r_ in trees)
                        if src_is_pkg:
                            alias[a.asname or a.name] = cand[0]
            elif isinstance(n, ast.Import):
                for a in n.names:
                    base = a.name.split('.')[-1]
                    cand = [r_ for r_ in by_base.get(base, []) if r_[:-3].replace(os.sep, '.').endswith(a.name)]
                    if len(cand) == 1 and a.asname:
                        alias[a.asname] = cand[0]
        if not alias:
            continue
        local_names = {x.id for x in ast.walk(tree) if isinstance(x, ast.Name) and isinstance(x.ctx, ast.Store)} | {a.arg for f in ast.walk(tree) if isinstance(f, ast.FunctionDef) for a in f.args.args}

        class T(ast.NodeTransformer):
            def visit_Attribute(self, n):
                self.generic_visit(n)
                if isinstance(n.ctx, ast.Load) and isinstance(n.value, ast.Name) and n.value.id in alias and n.value.id not in local_names:
                    src = alias[n.value.id]
                    if n.attr in top[src] and owners.get(n.attr) == [src] and n.attr not in local_names:
                        used.add((src, n.attr))
                        return ast.copy_location(ast.Name(id=n.attr, ctx=ast.Load()), n)
                return n
        used = set()
        T().visit(tree)
        for src, nm in sorted(used):
            imp = ast.ImportFrom(module=src[:-3].replace(os.sep, '.'), names=[ast.alias(name=nm, asname=None)], level=0)
            imp.lineno, imp.col_offset, imp.end_lineno, imp.end_col_offset = 1, 0, 1, 0
            tree.body.insert(0, imp)                       # the plain name is bound, as if imported by name
        ast.fix_missing_locations(tree)


def _index_function_defs(trees):
    _FUNCTION_DEFS.clear()
    for tree in trees.values():
        for n in ast.walk(tree):
            if isinstance(n, ast.FunctionDef):
                _FUNCTION_DEFS.setdefault(n.name, []).append(n)


def normalise_optional_attributes(trees):
    """`self.a = None` in __init__ + `x.a is (not) None` tests  ->  no initial store + `(not) hasattr(x, 'a')`: the optional
    attribute idiom the repository itself uses (and the rules know).  Only when every other store to .a assigns something
    that is not syntactically None-able, and .a is never truth-tested or read through getattr."""
    cands = {}
    for tree in trees.values():
        for cls in [n for n in ast.walk(tree) if isinstance(n, ast.ClassDef)]:
            init = next((m for m in cls.body if isinstance(m, ast.FunctionDef) and m.name == '__init__' and m.args.args), None)
            if init is None:
                continue
            s0 = init.args.args[0].arg
            for st in init.body:
                if isinstance(st, ast.Assign) and len(st.targets) == 1 and isinstance(st.targets[0], ast.Attribute) and isinstance(st.targets[0].value, ast.Name) \
                        and st.targets[0].value.id == s0 and isinstance(st.value, ast.Constant) and st.value.value is None:
                    cands.setdefault(st.targets[0].attr, []).append((init, st))
    cands = {a: v[0] for a, v in cands.items() if len(v) == 1}
    if not cands:
        return
    bad = set()
    tests = {}
    stored_elsewhere = set()
    _index_function_defs(trees)
    for tree in trees.values():
        parents = {}
        for x in ast.walk(tree):
            for c in ast.iter_child_nodes(x):
                parents[c] = x
        for x in ast.walk(tree):
            if isinstance(x, ast.ClassDef):
                for m in x.body:
                    if isinstance(m, ast.FunctionDef) and m.name in cands:
                        bad.add(m.name)
            if isinstance(x, ast.Call) and isinstance(x.func, ast.Name) and x.func.id in ('getattr', 'setattr', 'delattr', 'vars', 'hasattr'):
                # (a hasattr probe of an attribute that __init__ sets to None is always true: mixing the two idioms is exactly the
                # slip this normalisation must not paper over)
                for a in x.args[1:2]:
                    if isinstance(a, ast.Constant) and a.value in cands:
                        bad.add(a.value)
                if x.func.id == 'vars':
                    bad |= set(cands)
            if not (isinstance(x, ast.Attribute) and x.attr in cands):
                continue
            a = x.attr
            par = parents.get(x)
            if isinstance(x.ctx, ast.Del):
                bad.add(a)
            elif isinstance(x.ctx, ast.Store):
                if isinstance(par, ast.Assign) and par is cands[a][1]:
                    continue
                v = par.value if isinstance(par, (ast.Assign, ast.AnnAssign)) and x in _store_targets(par) else None
                fn_ = par
                while fn_ is not None and not isinstance(fn_, (ast.FunctionDef, ast.Lambda)):
                    fn_ = parents.get(fn_)
                if v is None or not _never_none(v, fn_):
                    bad.add(a)
                else:
                    stored_elsewhere.add(a)
            else:
                if isinstance(par, ast.Compare) and par.left is x and len(par.ops) == 1 and isinstance(par.ops[0], (ast.Is, ast.IsNot, ast.Eq, ast.NotEq)) \
                        and isinstance(par.comparators[0], ast.Constant) and par.comparators[0].value is None:
                    tests.setdefault(a, []).append((par, parents.get(par)))
                elif isinstance(par, (ast.If, ast.While, ast.IfExp)) and par.test is x:
                    bad.add(a)
                elif isinstance(par, ast.BoolOp) or (isinstance(par, ast.UnaryOp) and isinstance(par.op, ast.Not)):
                    bad.add(a)
                elif isinstance(par, ast.Compare) and any(isinstance(c, ast.Constant) and c.value is None for c in [par.left] + par.comparators):
                    bad.add(a)
    # an attribute that is only ever initialised to None and later assigned for real (never tested): the initial None is a
    # place-holder for "not set yet" as well - dropped, so that the attribute has one defining store
    todo = {a for a in cands if a not in bad and (tests.get(a) or a in stored_elsewhere)}
    if not todo:
        return

    class T(ast.NodeTransformer):
        def visit_Compare(self, n):
            self.generic_visit(n)
            if len(n.ops) == 1 and isinstance(n.left, ast.Attribute) and n.left.attr in todo and isinstance(n.comparators[0], ast.Constant) and n.comparators[0].value is None:
                h = ast.Call(func=ast.Name(id='hasattr', ctx=ast.Load()), args=[n.left.value, ast.Constant(n.left.attr)], keywords=[])
                new = h if isinstance(n.ops[0], (ast.IsNot, ast.NotEq)) else ast.UnaryOp(op=ast.Not(), operand=h)
                ast.copy_location(new, n)
                for y in ast.walk(new):
                    if not hasattr(y, 'lineno'):
                        ast.copy_location(y, n)
                return new
            return n
    for tree in trees.values():
        T().visit(tree)
        ast.fix_missing_locations(tree)
    for a in todo:
        init, st = cands[a]
        init.body[init.body.index(st)] = ast.copy_location(ast.Pass(), st)


def normalise_keyword_calls(trees):
    """f(a, c=z, b=y)  ->  f(a, y, z)  for calls of package functions / methods whose definition is unique by name: keyword
    arguments become positional ones in the callee's parameter order, omitted parameters in between get their (constant)
    default.  Purely syntactic and meaning-preserving; the rules read call sites positionally."""
    defs = {}
    for tree in trees.values():
        for n in tree.body:
            if isinstance(n, ast.FunctionDef):
                defs.setdefault(('f', n.name), []).append((n, False))
            elif isinstance(n, ast.ClassDef):
                for m in n.body:
                    if isinstance(m, ast.FunctionDef):
                        static = any(isinstance(d, ast.Name) and d.id == 'staticmethod' for d in m.decorator_list)
                        key = ('f', n.name) if m.name == '__init__' else ('m', m.name)
                        defs.setdefault(key, []).append((m, not static))
    class_names = {n.name for tree in trees.values() for n in tree.body if isinstance(n, ast.ClassDef)}
    for tree in trees.values():
        for c in ast.walk(tree):
            if not (isinstance(c, ast.Call) and c.keywords) or any(k.arg is None for k in c.keywords) or any(isinstance(a, ast.Starred) for a in c.args):
                continue
            if isinstance(c.func, ast.Name):
                cands = defs.get(('f', c.func.id), [])
                if c.func.id in class_names and not cands:
                    continue
            elif isinstance(c.func, ast.Attribute) and not (isinstance(c.func.value, ast.Name) and c.func.value.id in ('np', 'numpy', 'random', 'os', 'math', 'pulp', 'argparse', 'parser')):
                cands = defs.get(('m', c.func.attr), [])
                if ('f', c.func.attr) in defs:
                    continue
            else:
                continue
            if len(cands) != 1:
                continue
            fn, has_self = cands[0]
            a = fn.args
            if a.vararg or a.kwarg or a.kwonlyargs or a.posonlyargs:
                continue
            params = [p_.arg for p_ in a.args][1 if has_self else 0:]
            defaults = dict(zip([p_.arg for p_ in a.args][len(a.args) - len(a.defaults):], a.defaults))
            kws = {k.arg: k.value for k in c.keywords}
            if not set(kws) <= set(params[len(c.args):]):
                continue
            rest = params[len(c.args):]
            last = max(i for i, p_ in enumerate(rest) if p_ in kws)
            new = []
            okay = True
            for p_ in rest[:last + 1]:
                if p_ in kws:
                    new.append(kws[p_])
                elif p_ in defaults and isinstance(defaults[p_], ast.Constant):
                    new.append(ast.copy_location(ast.Constant(defaults[p_].value), c))
                else:
                    okay = False
                    break
            if okay:
                c.args = list(c.args) + new
                c.keywords = []
        ast.fix_missing_locations(tree)


def normalise_match(trees):
    """match subject: case V1: ... case V2 | V3: ... case _: ...   ->   if subject == V1: ... elif subject == V2 or subject == V3: ...
    else: ...   for value / singleton / or / wildcard / bare-capture patterns (with optional guards).  Structural patterns are
    left alone (and leave the fragment)."""
    counter = [0]

    def cond_of(pat, subj):
        import copy
        if isinstance(pat, ast.MatchValue):
            return ast.Compare(left=copy.deepcopy(subj), ops=[ast.Eq()], comparators=[pat.value])
        if isinstance(pat, ast.MatchSingleton):
            return ast.Compare(left=copy.deepcopy(subj), ops=[ast.Is()], comparators=[ast.Constant(pat.value)])
        if isinstance(pat, ast.MatchOr):
            parts = [cond_of(q, subj) for q in pat.patterns]
            if any(x is None for x in parts):
                return None
            return ast.BoolOp(op=ast.Or(), values=parts)
        return None

    class T(ast.NodeTransformer):
        def visit_Match(self, node):
            self.generic_visit(node)
            pre = []
            subj = node.subject
            simple = lambda x: isinstance(x, ast.Name) or (isinstance(x, ast.Attribute) and simple(x.value))
            if not simple(subj):
                counter[0] += 1
                nm = '__match_subject_%d' % counter[0]
                pre.append(ast.Assign(targets=[ast.Name(id=nm, ctx=ast.Store())], value=subj))
                subj = ast.Name(id=nm, ctx=ast.Load())
            branches = []
            for c in node.cases:
                pat = c.pattern
                if isinstance(pat, ast.MatchAs) and pat.pattern is None:
                    body = list(c.body)
                    if pat.name is not None:
                        import copy
                        body.insert(0, ast.Assign(targets=[ast.Name(id=pat.name, ctx=ast.Store())], value=copy.deepcopy(subj)))
                    cond = c.guard if c.guard is not None else ast.Constant(True)
                    branches.append((cond, body))
                    if c.guard is None:
                        break
                    continue
                cond = cond_of(pat, subj)
                if cond is None:
                    return node
                if c.guard is not None:
                    cond = ast.BoolOp(op=ast.And(), values=[cond, c.guard])
                branches.append((cond, list(c.body)))
            out = None
            for cond, body in reversed(branches):
                if isinstance(cond, ast.Constant) and cond.value is True:
                    out = body
                else:
                    out = [ast.If(test=cond, body=body, orelse=out or [])]
            res = pre + (out or [ast.Pass()])
            for x in res:
                ast.copy_location(x, node)
                for y in ast.walk(x):
                    if not hasattr(y, 'lineno'):
                        ast.copy_location(y, node)
            return res
    for tree in trees.values():
        if any(isinstance(n, ast.Match) for n in ast.walk(tree)):
            T().visit(tree)
            ast.fix_missing_locations(tree)


def normalise_delete(trees):
    """del X[a:b]  ->  X[a:b] = []      and      del X[k]  ->  X.pop(k)      (same effect on lists and dicts; one target per
    statement after splitting).  `del name` / `del obj.attr` are left alone (and leave the fragment)."""
    class T(ast.NodeTransformer):
        def visit_Delete(self, node):
            if not all(isinstance(t, ast.Subscript) for t in node.targets):
                return node
            out = []
            for t in node.targets:
                if isinstance(t.slice, ast.Slice):
                    new = ast.Assign(targets=[ast.Subscript(value=t.value, slice=t.slice, ctx=ast.Store())], value=ast.List(elts=[], ctx=ast.Load()))
                else:
                    new = ast.Expr(value=ast.Call(func=ast.Attribute(value=t.value, attr='pop', ctx=ast.Load()), args=[t.slice], keywords=[]))
                ast.copy_location(new, node)
                out.append(new)
            return out
    for tree in trees.values():
        if any(isinstance(n, ast.Delete) for n in ast.walk(tree)):
            T().visit(tree)
            ast.fix_missing_locations(tree)


def normalise_counted_while(trees):
    """i = A ... while [C and] i < B [and C']: BODY; i += 1      ->      [if C and C':] for i in range(A, B): BODY; [if not (C and C'): break]
    when that is the same loop: i is assigned nowhere else in BODY, BODY has no `continue` of this loop, B is not changed by BODY,
    the extra conditions are call-free, the loop has no else, and i is not read after the loop."""
    import copy

    def stores(nodes, name):
        for n in nodes:
            for x in ast.walk(n):
                if isinstance(x, ast.Name) and x.id == name and isinstance(x.ctx, (ast.Store, ast.Del)):
                    return True
        return False

    def own_continue(body):
        todo = list(body)
        while todo:
            n = todo.pop()
            if isinstance(n, ast.Continue):
                return True
            if isinstance(n, (ast.For, ast.While, ast.FunctionDef, ast.Lambda, ast.ClassDef)):
                continue
            todo.extend(ast.iter_child_nodes(n))
        return False

    fresh = [0]

    def fill_until(fn, block, k, w):
        """L = [] ... while len(L) < B: BODY; L.append(v)   ->   for _ in range(B): BODY; L.append(v)"""
        t = w.test
        if not (isinstance(t, ast.Compare) and len(t.ops) == 1 and isinstance(t.ops[0], ast.Lt) and isinstance(t.left, ast.Call) and isinstance(t.left.func, ast.Name)
                and t.left.func.id == 'len' and len(t.left.args) == 1 and isinstance(t.left.args[0], ast.Name) and not t.left.keywords):
            return False
        L = t.left.args[0].id
        B = t.comparators[0]
        last = w.body[-1]
        if not (isinstance(last, ast.Expr) and isinstance(last.value, ast.Call) and isinstance(last.value.func, ast.Attribute) and last.value.func.attr == 'append'
                and isinstance(last.value.func.value, ast.Name) and last.value.func.value.id == L and len(last.value.args) == 1):
            return False
        if own_continue(w.body) or stores(w.body, L):
            return False
        for n in w.body[:-1]:
            for x in ast.walk(n):
                if isinstance(x, ast.Call) and isinstance(x.func, ast.Attribute) and isinstance(x.func.value, ast.Name) and x.func.value.id == L:
                    return False
        start = None
        for prev in reversed(block[:k]):
            if isinstance(prev, ast.Assign) and len(prev.targets) == 1 and isinstance(prev.targets[0], ast.Name) and prev.targets[0].id == L:
                start = prev.value
                break
            if any(isinstance(x, ast.Name) and x.id == L for x in ast.walk(prev)):
                break
        if not (isinstance(start, ast.List) and not start.elts):
            return False
        bnames = {x.id for x in ast.walk(B) if isinstance(x, ast.Name)}
        if L in bnames or any(isinstance(x, ast.Name) and x.id in bnames and isinstance(x.ctx, (ast.Store, ast.Del)) for n in w.body for x in ast.walk(n)):
            return False
        fresh[0] += 1
        loop = ast.For(target=ast.Name(id='_fill_%d' % fresh[0], ctx=ast.Store()), iter=ast.Call(func=ast.Name(id='range', ctx=ast.Load()), args=[B], keywords=[]),
                       body=list(w.body), orelse=[])
        for x in ast.walk(loop):
            if not hasattr(x, 'lineno'):
                ast.copy_location(x, w)
        ast.copy_location(loop, w)
        block[k] = loop
        return True

    dead = []

    def rewrite(fn, block):
        for k, w in enumerate(list(block)):
            if not isinstance(w, ast.While) or w.orelse or not w.body:
                continue
            if fill_until(fn, block, k, w):
                continue
            conj = list(w.test.values) if isinstance(w.test, ast.BoolOp) and isinstance(w.test.op, ast.And) else [w.test]
            bound = [c for c in conj if isinstance(c, ast.Compare) and len(c.ops) == 1 and isinstance(c.ops[0], ast.Lt) and isinstance(c.left, ast.Name)]
            if len(bound) != 1:
                continue
            cmp_ = bound[0]
            i = cmp_.left.id
            B = cmp_.comparators[0]
            extra = [c for c in conj if c is not cmp_]
            if any(isinstance(x, ast.Call) or (isinstance(x, ast.Name) and x.id == i) for c in extra for x in ast.walk(c)):
                continue
            last = w.body[-1]
            inc = (isinstance(last, ast.AugAssign) and isinstance(last.op, ast.Add) and isinstance(last.target, ast.Name) and last.target.id == i
                   and isinstance(last.value, ast.Constant) and last.value.value == 1) or \
                  (isinstance(last, ast.Assign) and len(last.targets) == 1 and isinstance(last.targets[0], ast.Name) and last.targets[0].id == i
                   and ast.unparse(last.value) in ('%s + 1' % i, '1 + %s' % i))
            if not inc or stores(w.body[:-1], i) or own_continue(w.body[:-1]):
                continue
            # the start value: the nearest assignment to i in front of the loop, in the same block, a plain expression without i
            start = None
            init_stmt = None
            for prev in reversed(block[:k]):
                if isinstance(prev, ast.Assign) and len(prev.targets) == 1 and isinstance(prev.targets[0], ast.Name) and prev.targets[0].id == i:
                    start = prev.value
                    init_stmt = prev
                    break
                if stores([prev], i):
                    break
            if start is None or not isinstance(start, ast.Constant) or not isinstance(start.value, int):
                continue
            # B unchanged by the body
            bnames = {x.id for x in ast.walk(B) if isinstance(x, ast.Name)}
            changed = False
            for n in w.body:
                for x in ast.walk(n):
                    if isinstance(x, ast.Name) and x.id in bnames and isinstance(x.ctx, (ast.Store, ast.Del)):
                        changed = True
                    if isinstance(x, ast.Call) and isinstance(x.func, ast.Attribute) and x.func.attr in ('append', 'extend', 'insert', 'pop', 'remove', 'clear') \
                            and any(isinstance(y, ast.Name) and y.id in bnames for y in ast.walk(x.func.value)):
                        changed = True
                    if isinstance(x, (ast.Subscript, ast.Attribute)) and isinstance(x.ctx, (ast.Store, ast.Del)) and any(isinstance(y, ast.Name) and y.id in bnames for y in ast.walk(x.value)) \
                            and isinstance(x, ast.Subscript) and isinstance(x.slice, ast.Slice):
                        changed = True
            if changed:
                continue
            # i not read after the loop: no later occurrence at all, or the next statement of this block that mentions i is a
            # plain re-initialisation `i = <expression without i>`
            end = getattr(w, 'end_lineno', w.lineno)
            later = [x for x in ast.walk(fn) if isinstance(x, ast.Name) and x.id == i and x.lineno > end]
            if later:
                nxt = next((st for st in block[k + 1:] if any(isinstance(x, ast.Name) and x.id == i for x in ast.walk(st))), None)
                reinit = (nxt is not None and isinstance(nxt, ast.Assign) and len(nxt.targets) == 1 and isinstance(nxt.targets[0], ast.Name) and nxt.targets[0].id == i
                          and not any(isinstance(x, ast.Name) and x.id == i for x in ast.walk(nxt.value)))
                inside_block = {id(x) for st in block[k + 1:] for x in ast.walk(st)}
                if not reinit or any(id(x) not in inside_block for x in later):
                    continue
            body = list(w.body[:-1])
            if extra:
                cond = extra[0] if len(extra) == 1 else ast.BoolOp(op=ast.And(), values=[copy.deepcopy(c) for c in extra])
                body.append(ast.If(test=ast.UnaryOp(op=ast.Not(), operand=copy.deepcopy(cond)), body=[ast.Break()], orelse=[]))
            rng = ast.Call(func=ast.Name(id='range', ctx=ast.Load()), args=([] if start.value == 0 else [copy.deepcopy(start)]) + [B], keywords=[])
            loop = ast.For(target=ast.Name(id=i, ctx=ast.Store()), iter=rng, body=body or [ast.Pass()], orelse=[])
            new = loop
            if extra:
                new = ast.If(test=copy.deepcopy(cond), body=[loop], orelse=[])
            for x in ast.walk(new):
                if not hasattr(x, 'lineno'):
                    ast.copy_location(x, w)
            ast.copy_location(new, w)
            ast.copy_location(loop, w)
            block[k] = new
            # the initialisation is dead once the for statement binds i itself (nothing reads i in between)
            between = block[block.index(init_stmt) + 1:k]
            if not any(isinstance(x, ast.Name) and x.id == i for n_ in between for x in ast.walk(n_)) \
                    and not any(isinstance(x, ast.Name) and x.id == i for c_ in extra for x in ast.walk(c_)):
                dead.append((block, init_stmt))

    for tree in trees.values():
        if not any(isinstance(n, ast.While) for n in ast.walk(tree)):
            continue
        for fn in [n for n in ast.walk(tree) if isinstance(n, ast.FunctionDef)]:
            if not any(isinstance(n, ast.While) for n in ast.walk(fn)):
                continue
            saved_body = copy.deepcopy(fn.body)
            for n in ast.walk(fn):
                for fld in ('body', 'orelse', 'finalbody'):
                    blk = getattr(n, fld, None)
                    if isinstance(blk, list) and blk and isinstance(blk[0], ast.stmt):
                        rewrite(fn, blk)
            if any(isinstance(n, ast.While) for n in ast.walk(fn)):
                # all or nothing per function: a function in which some loop stays a `while` is left to the older, per-function
                # treatment as a whole (mixing the two left a half-converted function)
                fn.body = saved_body
                del dead[:]
                continue
            for blk, st in dead:
                if st in blk and len(blk) > 1:
                    blk.remove(st)
            del dead[:]
        ast.fix_missing_locations(tree)


def inline_literal_constants(trees):
    """NAME = <literal> at module level (a number, string, None, bool, or a tuple of those; an UPPER_CASE name bound exactly
    once in the whole package, never declared global, never the target of another store) is replaced by the literal wherever
    the bare name is read in a function that does not bind the name itself.  Class-level `NAME = <literal>` read as
    `self.NAME` / `cls.NAME` / `ClassName.NAME` likewise, when no method stores that attribute.  The rules then see the
    number or the string, whatever it is called."""
    import copy

    def literal(v):
        if isinstance(v, ast.Constant) and isinstance(v.value, (int, float, str, bool, type(None))):
            return True
        if isinstance(v, ast.UnaryOp) and isinstance(v.op, ast.USub) and isinstance(v.operand, ast.Constant) and isinstance(v.operand.value, (int, float)):
            return True
        if isinstance(v, ast.Tuple) and v.elts and all(literal(e) for e in v.elts):
            return True
        return False

    mod_defs, cls_defs = {}, {}
    stores = {}
    attr_stores = set()
    for rel, tree in trees.items():
        for n in ast.walk(tree):
            if isinstance(n, ast.Name) and isinstance(n.ctx, (ast.Store, ast.Del)):
                stores[n.id] = stores.get(n.id, 0) + 1
            elif isinstance(n, (ast.Global, ast.Nonlocal)):
                for nm in n.names:
                    stores[nm] = stores.get(nm, 0) + 2
            elif isinstance(n, ast.Attribute) and isinstance(n.ctx, (ast.Store, ast.Del)):
                attr_stores.add(n.attr)
            elif isinstance(n, (ast.FunctionDef, ast.ClassDef)):
                stores[n.name] = stores.get(n.name, 0) + 2
            elif isinstance(n, ast.arg):
                stores[n.arg] = stores.get(n.arg, 0) + 2
            elif isinstance(n, ast.alias):
                nm = (n.asname or n.name).split('.')[0]
                if nm != '*':
                    stores[nm] = stores.get(nm, 0) + 2
        for st in tree.body:
            if isinstance(st, ast.Assign) and len(st.targets) == 1 and isinstance(st.targets[0], ast.Name) and st.targets[0].id.isupper() and literal(st.value):
                mod_defs.setdefault(st.targets[0].id, []).append(st.value)
            if isinstance(st, ast.ClassDef) and not any(ast.unparse(b_).split('.')[-1] in ('Enum', 'IntEnum', 'Flag', 'IntFlag', 'NamedTuple') for b_ in st.bases):
                for cst in st.body:
                    if isinstance(cst, ast.Assign) and len(cst.targets) == 1 and isinstance(cst.targets[0], ast.Name) and cst.targets[0].id.isupper() and literal(cst.value):
                        cls_defs.setdefault(cst.targets[0].id, []).append((st.name, cst.value))
    consts = {k: v[0] for k, v in mod_defs.items() if len(v) == 1 and stores.get(k, 0) == 1 and k not in cls_defs}
    # NAME = [A, B, C] / (A, B, C) of such constants (a table of choices), never mutated: one more level
    mutated = set()
    for tree in trees.values():
        for n in ast.walk(tree):
            if isinstance(n, ast.Call) and isinstance(n.func, ast.Attribute) and isinstance(n.func.value, ast.Name) and n.func.attr in ('append', 'extend', 'insert', 'pop', 'remove', 'clear', 'sort', 'reverse'):
                mutated.add(n.func.value.id)
            if isinstance(n, ast.Subscript) and isinstance(n.ctx, (ast.Store, ast.Del)) and isinstance(n.value, ast.Name):
                mutated.add(n.value.id)
    for tree in trees.values():
        for st in tree.body:
            if isinstance(st, ast.Assign) and len(st.targets) == 1 and isinstance(st.targets[0], ast.Name) and st.targets[0].id.isupper() and isinstance(st.value, (ast.List, ast.Tuple)) \
                    and st.value.elts and all(literal(e) or (isinstance(e, ast.Name) and e.id in consts) for e in st.value.elts) and not literal(st.value):
                nm = st.targets[0].id
                if stores.get(nm, 0) == 1 and nm not in mutated and nm not in cls_defs and nm not in consts:
                    v2 = copy.deepcopy(st.value)
                    v2.elts = [copy.deepcopy(consts[e.id]) if isinstance(e, ast.Name) else e for e in v2.elts]
                    consts[nm] = v2
    cconsts = {k: v[0] for k, v in cls_defs.items() if len(v) == 1 and stores.get(k, 0) == 1 and k not in attr_stores and k not in mod_defs}
    if not consts and not cconsts:
        return

    class T(ast.NodeTransformer):
        def visit_Name(self, node):
            if isinstance(node.ctx, ast.Load) and node.id in consts:
                return ast.copy_location(copy.deepcopy(consts[node.id]), node)
            return node

        def visit_Attribute(self, node):
            self.generic_visit(node)
            if isinstance(node.ctx, ast.Load) and node.attr in cconsts and isinstance(node.value, ast.Name) and node.value.id in ('self', 'cls', cconsts[node.attr][0]):
                return ast.copy_location(copy.deepcopy(cconsts[node.attr][1]), node)
            return node

    for tree in trees.values():
        for fn in [n for n in ast.walk(tree) if isinstance(n, (ast.FunctionDef, ast.Lambda))]:
            pass
        # only inside function bodies and class bodies' methods (the defining assignments themselves stay)
        for n in ast.walk(tree):
            if isinstance(n, ast.FunctionDef):
                n.body = [T().visit(st) for st in n.body]
                n.args.defaults = [T().visit(d) for d in n.args.defaults]
        ast.fix_missing_locations(tree)


def synthesise_dataclass_init(trees):
    """@dataclass class K: a: int; b: int = 0; def __post_init__(self): ...   gets the __init__ the decorator would generate:
    def __init__(self, a, b=0): self.a = a; self.b = b; <body of __post_init__>.  Fields with field(...) / InitVar / ClassVar
    specifications are not modelled (the class then has no __init__ for the analyses: constructing it leaves the fragment)."""
    for tree in trees.values():
        for cls in [n for n in ast.walk(tree) if isinstance(n, ast.ClassDef)]:
            decs = [ast.unparse(d.func if isinstance(d, ast.Call) else d) for d in cls.decorator_list]
            if not any(d in ('dataclass', 'dataclasses.dataclass') for d in decs):
                continue
            if any(isinstance(m, ast.FunctionDef) and m.name == '__init__' for m in cls.body) or cls.bases:
                continue
            dec = next(d for d in cls.decorator_list if ast.unparse(d.func if isinstance(d, ast.Call) else d) in ('dataclass', 'dataclasses.dataclass'))
            if isinstance(dec, ast.Call) and any(k.arg in ('init', 'kw_only', 'slots') for k in dec.keywords):
                continue
            fields, ok = [], True
            for m in cls.body:
                if isinstance(m, ast.AnnAssign) and isinstance(m.target, ast.Name):
                    ann = ast.unparse(m.annotation)
                    if 'ClassVar' in ann:
                        continue
                    if 'InitVar' in ann or (m.value is not None and isinstance(m.value, ast.Call) and ast.unparse(m.value.func).split('.')[-1] == 'field'):
                        ok = False
                    fields.append((m.target.id, m.value, m))
            if not ok or not fields:
                continue
            args = ast.arguments(posonlyargs=[], args=[ast.arg(arg='self')] + [ast.arg(arg=f) for f, _, _ in fields], kwonlyargs=[], kw_defaults=[],
                                 defaults=[d for _, d, _ in fields if d is not None])
            seen_default = False
            for _, d, _ in fields:
                if d is not None:
                    seen_default = True
                elif seen_default:
                    ok = False
            if not ok:
                continue
            body = [ast.Assign(targets=[ast.Attribute(value=ast.Name(id='self', ctx=ast.Load()), attr=f, ctx=ast.Store())], value=ast.Name(id=f, ctx=ast.Load())) for f, _, _ in fields]
            post = next((m for m in cls.body if isinstance(m, ast.FunctionDef) and m.name == '__post_init__'), None)
            if post is not None:
                if len(post.args.args) != 1:
                    continue
                import copy
                pb = [copy.deepcopy(b) for b in post.body if not (isinstance(b, ast.Expr) and isinstance(b.value, ast.Constant))]
                s0 = post.args.args[0].arg
                if s0 != 'self':
                    class R(ast.NodeTransformer):
                        def visit_Name(self, n):
                            if n.id == s0:
                                n.id = 'self'
                            return n
                    pb = [R().visit(b) for b in pb]
                if any(isinstance(x, ast.Return) for b in pb for x in ast.walk(b)):
                    continue
                body += pb
            init = ast.FunctionDef(name='__init__', args=args, body=body, decorator_list=[], returns=None, type_params=[])
            anchor = fields[0][2]
            ast.copy_location(init, anchor)
            for y in ast.walk(init):
                if not hasattr(y, 'lineno'):
                    ast.copy_location(y, anchor)
            init.end_lineno = getattr(cls, 'end_lineno', anchor.lineno)
            cls.body.insert(0, init)
            for _, _, m in fields:
                cls.body.remove(m)           # the annotated class-level names are not class attributes of their own
            ast.fix_missing_locations(tree)


def normalise_namedtuple_classes(trees):
    """class K(NamedTuple): a: T; b: T   (fields only, no defaults, no methods)   ->   K = namedtuple('K', ['a', 'b'])"""
    for tree in trees.values():
        for i, cls in enumerate(list(tree.body)):
            if not (isinstance(cls, ast.ClassDef) and len(cls.bases) == 1 and ast.unparse(cls.bases[0]).split('.')[-1] == 'NamedTuple' and not cls.decorator_list and not cls.keywords):
                continue
            body = [b for b in cls.body if not (isinstance(b, ast.Expr) and isinstance(b.value, ast.Constant))]
            if body and any(isinstance(b, ast.AnnAssign) for b in body) and all(isinstance(b, (ast.AnnAssign, ast.FunctionDef)) for b in body) \
                    and not all(isinstance(b, ast.AnnAssign) and b.value is None for b in body) \
                    and not any(isinstance(b, ast.FunctionDef) and b.name in ('__new__', '__init__', '__getitem__', '__iter__', '__len__') for b in body):
                # fields with defaults and / or methods: a record class; handled like a dataclass (generated __init__ storing the
                # fields; the tuple protocol - indexing, unpacking - is not modelled and leaves the fragment where it is used)
                cls.bases = []
                cls.decorator_list = [ast.Name(id='dataclass', ctx=ast.Load())]
                continue
            if not body or not all(isinstance(b, ast.AnnAssign) and isinstance(b.target, ast.Name) and b.value is None for b in body):
                continue
            new = ast.Assign(targets=[ast.Name(id=cls.name, ctx=ast.Store())],
                             value=ast.Call(func=ast.Name(id='namedtuple', ctx=ast.Load()), args=[ast.Constant(cls.name), ast.List(elts=[ast.Constant(b.target.id) for b in body], ctx=ast.Load())], keywords=[]))
            ast.copy_location(new, cls)
            ast.fix_missing_locations(new)
            tree.body[tree.body.index(cls)] = new


def first_assigned_attributes(trees):
    """{class: {method: [attribute names in the order `self.<attr>` is first assigned in the method]}}"""
    out = {}
    for tree in trees.values():
        for cls in [n for n in tree.body if isinstance(n, ast.ClassDef)]:
            for m in cls.body:
                if isinstance(m, ast.FunctionDef) and m.args.args:
                    s0 = m.args.args[0].arg
                    names = []

                    class V(ast.NodeVisitor):
                        def visit_Attribute(self, n):
                            self.generic_visit(n)
                            if isinstance(n.ctx, ast.Store) and isinstance(n.value, ast.Name) and n.value.id == s0 and n.attr not in names:
                                names.append(n.attr)
                    V().visit(m)
                    if names:
                        out.setdefault(cls.name, {})[m.name] = names
    return out


def canonical_attribute_names(trees, ref):
    """Bind consistently renamed attributes back to the names the rules use (spec.ATTR_ORDER).  A new name n stands for the
    old name o when, in some method of the table, the sequence of first-assigned attributes differs from the table's by a
    one-for-one replacement o -> n, o occurs nowhere in the package any more, and n is not a name of the table.  -> mapping"""
    import difflib
    cur = first_assigned_attributes(trees)
    present = set()
    for tree in trees.values():
        for n in ast.walk(tree):
            if isinstance(n, ast.Attribute):
                present.add(n.attr)
            elif isinstance(n, ast.Call) and isinstance(n.func, ast.Name) and n.func.id in ('hasattr', 'getattr', 'setattr') and len(n.args) >= 2 \
                    and isinstance(n.args[1], ast.Constant) and isinstance(n.args[1].value, str):
                present.add(n.args[1].value)
    vocab = {a for ms in ref.values() for names in ms.values() for a in names}
    mapping = {}
    for cls, ms in ref.items():
        for m, old in ms.items():
            new = cur.get(cls, {}).get(m)
            if not new or new == old:
                continue
            for tag, i1, i2, j1, j2 in difflib.SequenceMatcher(a=old, b=new, autojunk=False).get_opcodes():
                if tag == 'replace' and i2 - i1 == j2 - j1:
                    for o, n_ in zip(old[i1:i2], new[j1:j2]):
                        if o not in present and n_ not in vocab and mapping.get(n_, o) == o and (o not in mapping.values() or mapping.get(n_) == o):
                            mapping[n_] = o
    if not mapping:
        return {}
    for tree in trees.values():
        for n in ast.walk(tree):
            if isinstance(n, ast.Attribute) and n.attr in mapping:
                n.attr = mapping[n.attr]
            elif isinstance(n, ast.Call) and isinstance(n.func, ast.Name) and n.func.id in ('hasattr', 'getattr', 'setattr') and len(n.args) >= 2 \
                    and isinstance(n.args[1], ast.Constant) and n.args[1].value in mapping:
                n.args[1].value = mapping[n.args[1].value]
    return mapping


_FUNCTION_DEFS = {}


def _always_returns_value(fn):
    """every path of the function ends in `return <something that is not the literal None>` (syntactic: last statement is such a
    return, or an if/else whose branches all are; no bare return anywhere)"""
    for n in ast.walk(fn):
        if isinstance(n, ast.Return) and (n.value is None or (isinstance(n.value, ast.Constant) and n.value.value is None)):
            return False

    def ends(block):
        if not block:
            return False
        last = block[-1]
        if isinstance(last, ast.Return):
            return True
        if isinstance(last, ast.Raise):
            return True
        if isinstance(last, ast.If):
            return ends(last.body) and ends(last.orelse)
        if isinstance(last, (ast.With, ast.Try)):
            return ends(last.body)
        return False
    return ends(fn.body)


def normalise_partialmethods(trees):
    """class K: name = functools.partialmethod(method, a, b)   ->   def name(self): return self.method(a, b)
    (positional arguments only; `method` a method of the same class)"""
    for tree in trees.values():
        for cls in [n for n in ast.walk(tree) if isinstance(n, ast.ClassDef)]:
            own = {m.name for m in cls.body if isinstance(m, ast.FunctionDef)}
            for i, st in enumerate(list(cls.body)):
                if not (isinstance(st, ast.Assign) and len(st.targets) == 1 and isinstance(st.targets[0], ast.Name) and isinstance(st.value, ast.Call)):
                    continue
                c = st.value
                if ast.unparse(c.func) not in ('partialmethod', 'functools.partialmethod') or not c.args or c.keywords or not isinstance(c.args[0], ast.Name) or c.args[0].id not in own:
                    continue
                call = ast.Call(func=ast.Attribute(value=ast.Name(id='self', ctx=ast.Load()), attr=c.args[0].id, ctx=ast.Load()), args=list(c.args[1:]), keywords=[])
                fn = ast.FunctionDef(name=st.targets[0].id, args=ast.arguments(posonlyargs=[], args=[ast.arg(arg='self')], kwonlyargs=[], kw_defaults=[], defaults=[]),
                                     body=[ast.Return(value=call)], decorator_list=[], returns=None, type_params=[])
                ast.copy_location(fn, st)
                for y in ast.walk(fn):
                    if not hasattr(y, 'lineno'):
                        ast.copy_location(y, st)
                fn.end_lineno = getattr(st, 'end_lineno', st.lineno)
                cls.body[cls.body.index(st)] = fn
        ast.fix_missing_locations(tree)


def _never_none(v, fn):
    """is the expression certainly not None?  (literals, arithmetic, conversions, parameters that have no None default
    and are not re-bound)"""
    if isinstance(v, ast.Constant):
        return v.value is not None
    if isinstance(v, (ast.BinOp, ast.JoinedStr, ast.List, ast.Tuple, ast.Dict, ast.Set, ast.ListComp, ast.Compare)):
        return True
    if isinstance(v, ast.Call) and isinstance(v.func, ast.Name) and v.func.id in ('int', 'len', 'float', 'str', 'abs', 'round', 'max', 'min', 'sum', 'bool', 'list', 'tuple', 'dict', 'set', 'sorted'):
        return True
    if isinstance(v, ast.Call):
        nm = v.func.attr if isinstance(v.func, ast.Attribute) else (v.func.id if isinstance(v.func, ast.Name) else '')
        if nm in ('get', 'pop', 'setdefault', 'match', 'search', 'fullmatch', 'getattr', 'next', 'popitem') or not nm:
            return False
        if nm[:1].isupper():
            return True                       # a constructor
        defs = _FUNCTION_DEFS.get(nm)
        if defs is None:
            # not defined in the package: a library call (datetime.now(), LpVariable.dicts(...)); the few that answer None are listed above
            return isinstance(v.func, ast.Attribute)
        return all(_always_returns_value(d) for d in defs)
    if isinstance(v, ast.IfExp):
        return _never_none(v.body, fn) and _never_none(v.orelse, fn)
    if isinstance(v, ast.Name) and isinstance(fn, ast.FunctionDef):
        a = fn.args
        pos = a.posonlyargs + a.args
        names = [p_.arg for p_ in pos]
        if v.id in names:
            i = names.index(v.id)
            k = i - (len(pos) - len(a.defaults))
            d = a.defaults[k] if k >= 0 else None
            if d is not None and not (isinstance(d, ast.Constant) and d.value is not None):
                return False
            rebound = any(isinstance(y, ast.Name) and y.id == v.id and isinstance(y.ctx, ast.Store) for y in ast.walk(fn))
            return not rebound
    return False


def _store_targets(st):
    out = []
    if isinstance(st, ast.Assign):
        ts = st.targets
    elif isinstance(st, (ast.AugAssign, ast.AnnAssign)):
        ts = [st.target]
    else:
        ts = []
    for t in ts:
        if isinstance(t, (ast.Tuple, ast.List)):
            out.extend(t.elts)
        else:
            out.append(t)
    return out


def _subst_self(e, sname, recv):
    import copy
    e2 = copy.deepcopy(e)

    class R(ast.NodeTransformer):
        def visit_Name(self, n):
            if n.id == sname:
                return copy.deepcopy(recv)
            return n
    return R().visit(e2)


class Func:
    def __init__(self, module, cls, node, relpath):
        self.module = module          # dotted module name
        self.cls = cls                # class name or None
        try:
            node = inline_callable_aliases(node)
        except Exception:
            pass
        try:
            node = scalarise_dicts(node)
            node = normalise_updates(node)
            node = normalise_counting_whiles(node)
            node = normalise_index_loops(node)
        except Exception:
            pass
        self.node = node              # ast.FunctionDef
        self.name = node.name
        self.relpath = relpath

    @property
    def qualname(self):
        return (self.cls + '.' if self.cls else '') + self.name

    @property
    def where(self):
        return '%s::%s' % (self.relpath, self.qualname)

    @property
    def params(self):
        return [a.arg for a in self.node.args.args]

    @property
    def is_static(self):
        return any(isinstance(d, ast.Name) and d.id == 'staticmethod' for d in self.node.decorator_list)

    @property
    def is_classmethod(self):
        return any(isinstance(d, ast.Name) and d.id == 'classmethod' for d in self.node.decorator_list)

    def __repr__(self):
        return '<Func %s>' % self.where


class Repo:
    def __init__(self, root=None):
        self.root = root or repo_root()
        self.trees = {}       # relpath -> ast.Module
        self.sources = {}     # relpath -> text
        self.modname = {}     # relpath -> dotted name
        self.classes = {}     # class name -> {method name: Func}
        self.class_module = {}
        self.functions = {}   # (relpath, name) -> Func  (module-level)
        self.funcs_by_name = {}  # name -> [Func] module-level
        base = os.path.join(self.root, PKG)
        if not os.path.isdir(base):
            raise AnalysisError('package directory %s not found' % base)
        for dp, dn, fn in sorted(os.walk(base)):
            dn.sort()
            for f in sorted(fn):
                if not f.endswith('.py'):
                    continue
                p = os.path.join(dp, f)
                rel = os.path.relpath(p, self.root)
                try:
                    src = open(p, encoding='utf-8').read()
                    tree = ast.parse(src, p)
                except (SyntaxError, OSError, UnicodeDecodeError) as e:
                    raise AnalysisError('cannot parse %s: %s' % (rel, e))
                self.trees[rel] = tree
                self.sources[rel] = src
                self.modname[rel] = rel[:-3].replace(os.sep, '.')
        try:
            normalise_module_qualified_names(self.trees)
            inline_literal_constants(self.trees)
            normalise_namedtuple_classes(self.trees)
            synthesise_dataclass_init(self.trees)
            normalise_partialmethods(self.trees)
            from .spec import ATTR_ORDER
            self.renamed_attributes = canonical_attribute_names(self.trees, ATTR_ORDER)
            self.unsupported_properties = normalise_properties(self.trees)
            inline_predicate_methods(self.trees)
            normalise_optional_attributes(self.trees)
            normalise_keyword_calls(self.trees)
            normalise_match(self.trees)
            normalise_delete(self.trees)
            normalise_counted_while(self.trees)
        except RecursionError:
            raise AnalysisError('property getters are mutually recursive')
        for rel, tree in self.trees.items():
            if True:
                for n in tree.body:
                    if isinstance(n, ast.ClassDef):
                        meths = {}
                        for m in n.body:
                            if isinstance(m, ast.FunctionDef):
                                meths[m.name] = Func(self.modname[rel], n.name, m, rel)
                        self.classes[n.name] = meths
                        self.class_module[n.name] = rel
                    elif isinstance(n, ast.FunctionDef):
                        fu = Func(self.modname[rel], None, n, rel)
                        self.functions[(rel, n.name)] = fu
                        self.funcs_by_name.setdefault(n.name, []).append(fu)

        # inheritance inside the package: a subclass answers to the methods of its package bases that it does not override
        bases = {}
        for rel, tree in self.trees.items():
            for n in tree.body:
                if isinstance(n, ast.ClassDef):
                    bases[n.name] = [ast.unparse(b).split('.')[-1] for b in n.bases]
        self.class_bases = bases
        for _ in range(4):
            for c, bs in bases.items():
                for b in bs:
                    for mname, mf in list(self.classes.get(b, {}).items()):
                        if c in self.classes and mname not in self.classes[c]:
                            self.classes[c][mname] = mf

    # ---- look-ups -------------------------------------------------------------
    @staticmethod
    def _core(name):
        return name.strip('_').lower()

    def _renamed(self, name, candidates):
        """a PRIVATE helper that was renamed keeps its role: the unique candidate whose name still carries the old name's
        core (prefix / suffix added or dropped).  Public names are the interface and must match exactly."""
        if not name.startswith('_') or name.startswith('__'):
            return None
        core = self._core(name)
        hits = [c for c in candidates if c.name != name and (core in self._core(c.name) or (len(self._core(c.name)) >= 6 and self._core(c.name) in core))]
        # prefer the tightest match (fewest extra characters); it must be unique
        hits.sort(key=lambda c: abs(len(self._core(c.name)) - len(core)))
        if hits and (len(hits) == 1 or abs(len(self._core(hits[0].name)) - len(core)) < abs(len(self._core(hits[1].name)) - len(core))):
            return hits[0]
        return None

    def method(self, cls, name, required=True):
        m = self.classes.get(cls, {}).get(name)
        if m is None:
            m = self._renamed(name, list(self.classes.get(cls, {}).values()))
        if m is None and required:
            raise AnalysisError('anchor vanished: method %s.%s not found' % (cls, name))
        return m

    def actual(self, cls, name):
        """the name under which the method `name` of class `cls` exists in this tree (see _renamed)"""
        m = self.method(cls, name, required=False)
        return m.name if m is not None else name

    def function(self, name, relpath=None, required=True):
        c = [f for f in self.funcs_by_name.get(name, []) if relpath is None or f.relpath == relpath]
        if len(c) == 1:
            return c[0]
        if not c and relpath is not None:
            # moved to another module of the same package directory (and imported back): the unique function of that name
            c2 = [f for f in self.funcs_by_name.get(name, []) if os.path.dirname(f.relpath) == os.path.dirname(relpath)]
            if len(c2) == 1:
                return c2[0]
        if not c:
            pool = [f for fs in self.funcs_by_name.values() for f in fs if relpath is None or f.relpath == relpath]
            r = self._renamed(name, pool)
            if r is not None:
                return r
        if not c and not required:
            return None
        raise AnalysisError('anchor vanished or ambiguous: function %s (%d candidates)' % (name, len(c)))

    def actual_function(self, name, relpath=None):
        f = self.function(name, relpath, required=False)
        return f.name if f is not None else name

    def all_funcs(self):
        for c in self.classes.values():
            for f in c.values():
                yield f
        for f in self.functions.values():
            yield f

    def rel(self, *parts):
        return os.path.join(PKG, *parts)

    def digest(self, relpaths=None):
        h = hashlib.sha256()
        for r in sorted(relpaths or self.sources):
            h.update(r.encode())
            h.update(self.sources.get(r, '').encode())
        return h.hexdigest()[:16]

    def enum_members(self, relpath, cls):
        """Members of an Enum class defined by plain assignments, in order."""
        tree = self.trees.get(relpath)
        if tree is None:
            raise AnalysisError('module %s not found' % relpath)
        for n in tree.body:
            if isinstance(n, ast.ClassDef) and n.name == cls:
                out = []
                for s in n.body:
                    if isinstance(s, ast.Assign) and len(s.targets) == 1 and isinstance(s.targets[0], ast.Name):
                        v = s.value.value if isinstance(s.value, ast.Constant) else None
                        out.append((s.targets[0].id, v))
                return out
        raise AnalysisError('enum %s not found in %s' % (cls, relpath))


def loc(func, node):
    return '%s:%d' % (func.relpath, getattr(node, 'lineno', 0))


def src(node):
    try:
        return ast.unparse(node)
    except Exception:
        return '<?>'
