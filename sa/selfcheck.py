"""setup_cmd: parses /repo, validates the oracle tables; builds nothing, installs nothing."""
import sys

from .loader import Repo, AnalysisError
from . import spec, lp, lpfacts


def main():
    try:
        repo = Repo()
    except AnalysisError as e:
        print('ANALYSIS-ERROR', e)
        return 2
    n = sum(1 for _ in repo.all_funcs())
    for table in (spec.VALIDITY, spec.STABILITY, spec.ABSDIFF):
        for k, v in table.items():
            lpfacts.ref_family(v)
    print('sa.selfcheck: %d modules, %d functions parsed; %d reference families valid; python %s' % (
        len(repo.trees), n, len(spec.VALIDITY) + len(spec.STABILITY) + len(spec.ABSDIFF), sys.version.split()[0]))
    return 0


if __name__ == '__main__':
    sys.exit(main())
