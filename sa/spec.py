"""E10: oracle tables, written from the README, the property statements and the SPA-STL definition
(thesis p. 22, cited in model.py) -- NOT derived from the repository's current code.

Reference constraint families are written in Python *expression* syntax and parsed by lp.RefParser
(ast only).  Notation: see sa/lp.py."""

# ---- C01: definition of a valid matching as linear constraints over x -------------------------
VALIDITY = {
    # id: (quantifiers, constraint, when)    when in {'always', 'pc', 'nopc'}
    'ST':  (['i:S'], 'sum(x(q), s(q) == i) <= 1', 'always'),
    'PL':  (['j:P'], 'sum(x(q), pr(q) == j) >= lq[j]', 'nopc'),
    'PU':  (['j:P'], 'sum(x(q), pr(q) == j) <= uq[j]', 'nopc'),
    'PCL': (['j:P'], 'sum(x(q), pr(q) == j) + c[j]*lq[j] >= lq[j]', 'pc'),
    'PCU': (['j:P'], 'sum(x(q), pr(q) == j) + c[j]*uq[j] <= uq[j]', 'pc'),
    'LL':  (['k:L'], 'sum(x(q), l(q) == k) >= llq[k]', 'always'),
    'LU':  (['k:L'], 'sum(x(q), l(q) == k) <= luq[k]', 'always'),
}

# ---- C05: reference SPA-STL stability encoding (DESIGN.md Appendix A proves it equals the definition) ----
STABILITY = {
    'ALPHA': (['p:pair'], 'luq[l(p)]*a(p) <= sum(x(q), l(q) == l(p), rl(q) <= rl(p), s(q) != s(p))'),
    'BETA':  (['p:pair'], 'uq[pr(p)]*b(p) <= sum(x(q), pr(q) == pr(p), rl(q) <= rl(p), s(q) != s(p))'),
    'GAMMA': (['p:pair'], '1 - sum(x(q), s(q) == s(p), rs(q) <= rs(p)) <= a(p) + b(p)'),
}

# ---- load-balancing auxiliary definition (C03.R3) ------------------------------------------------
ABSDIFF = {
    'OVER':  (['k:L'], 'd[k] >= sum(x(q), l(q) == k) - t[k]'),
    'UNDER': (['k:L'], 'd[k] >= t[k] - sum(x(q), l(q) == k)'),
}

# ---- criterion table (README section 3 + property C03) -------------------------------------------
# flag, argparse dest, enum member, direction, number of optional extras, defaults of the extras,
# measured linear form (reference syntax; a0, a1 = extras after defaults), link operators accepted
# ('==' always; '>=' additionally for MIN objectives that sit on the large side, i.e. obj >= expr).
CRITERIA = {
    'MAXSIZE':    dict(flag='-maxsize', dest='maxsize', dir='MAX', nextras=0, defaults=(), form='sum(x(q))', solves='one'),
    'MINSIZE':    dict(flag='-minsize', dest='minsize', dir='MIN', nextras=0, defaults=(), form='sum(x(q))', solves='one'),
    'GENEROUS':   dict(flag='-gen', dest='gen', dir='MIN', nextras=1, defaults=(1,), form='sum(x(q), rs(q) == r)', solves='ranks-desc'),
    'GREEDY':     dict(flag='-gre', dest='gre', dir='MAX', nextras=1, defaults=('R',), form='sum(x(q), rs(q) == r)', solves='ranks-asc'),
    'MINCOST':    dict(flag='-mincost', dest='mincost', dir='MIN', nextras=2, defaults=(1, 0),
                       form='sum(a0*rs(q)*x(q)) + sum(a1*rl(q)*x(q), has_rank_lecturer(q))', solves='one'),
    'MINSQCOST':  dict(flag='-minsqcost', dest='minsqcost', dir='MIN', nextras=2, defaults=(1, 0),
                       form='sum(a0*rs(q)*rs(q)*x(q)) + sum(a1*rl(q)*rl(q)*x(q), has_rank_lecturer(q))', solves='one'),
    'LOADMAXBAL': dict(flag='-lmb', dest='lmb', dir='MIN', nextras=0, defaults=(), form='max_k d[k]', solves='one'),
    'LOADSUMBAL': dict(flag='-lsb', dest='lsb', dir='MIN', nextras=0, defaults=(), form='sumk(d[k])', solves='one'),
    'MINCOSTLSB': dict(flag='-mincostlsb', dest='mincostlsb', dir='MIN', nextras=2, defaults=(1, 1),
                       form='sum(a0*rs(q)*x(q)) + a1*sumk(d[k])', solves='one'),
}
LOAD_BALANCING = ('LOADMAXBAL', 'LOADSUMBAL', 'MINCOSTLSB')

# ---- PuLP facts (A3), read from the installed library's source text by sa/pulpfacts.py -----------
LPSTATUS_REQUIRED = {'Optimal', 'Not Solved', 'Infeasible', 'Unbounded', 'Undefined'}

# ---- C15: documented generator tables (README section 2) ----------------------------------------------
GEN_REQUIRED = {
    'HA':  {'n1', 'n2', 'minpreflistlength', 'maxpreflistlength', 'upperquotas'},
    'SM':  {'n1', 'minpreflistlength', 'maxpreflistlength', 'twopl'},
    'HR':  {'n1', 'n2', 'minpreflistlength', 'maxpreflistlength', 'upperquotas', 'twopl'},
    'SPA': {'n1', 'n2', 'n3', 'minpreflistlength', 'maxpreflistlength', 'upperquotas', 'lecturerupperquotas'},
}
# parameters that do not apply to the type (property C15: "supplies a parameter that does not apply")
GEN_BANNED = {
    'HA':  {'n3', 'lecturerlowerquotas', 'lecturerupperquotas', 'lecturertargets', 'twopl', 'ties2'},
    'SM':  {'n2', 'n3', 'upperquotas', 'lowerquotas', 'lecturerlowerquotas', 'lecturerupperquotas', 'lecturertargets'},
    'HR':  {'n3', 'lecturerlowerquotas', 'lecturerupperquotas', 'lecturertargets'},
    'SPA': set(),
}
GEN_FLAGS = {
    'numberinstances': ('-numinst', int), 'outputdirectory': ('-o', str), 'matchingproblem': ('-mp', str),
    'twopl': ('-twopl', bool), 'skew': ('-skew', float), 'n1': ('-n1', int), 'n2': ('-n2', int), 'n3': ('-n3', int),
    'minpreflistlength': ('-pmin', int), 'maxpreflistlength': ('-pmax', int), 'ties1': ('-t1', float), 'ties2': ('-t2', float),
    'lowerquotas': ('-lq', int), 'upperquotas': ('-uq', int), 'lecturerlowerquotas': ('-llq', int),
    'lecturerupperquotas': ('-luq', int), 'lecturertargets': ('-lt', int),
}
# documented bounds (property C15), as (description, violated-when predicate in reference syntax over dests)
GEN_BOUNDS = [
    ('numberinstances >= 1', 'numberinstances < 1'),
    ('n1 >= 1', 'n1 < 1'),
    ('n2 >= 1', 'n2 < 1'),
    ('n3 >= 1', 'n3 < 1'),
    ('pmin >= 1', 'minpreflistlength < 1'),
    ('pmin <= pmax', 'maxpreflistlength < minpreflistlength'),
    ('pmax <= n2', 'maxpreflistlength > n2'),
    ('t1 >= 0', 'ties1 < 0'), ('t1 <= 1', 'ties1 > 1'),
    ('t2 >= 0', 'ties2 < 0'), ('t2 <= 1', 'ties2 > 1'),
    ('uq >= n2', 'upperquotas < n2'),
    ('lq <= uq', 'lowerquotas > upperquotas'),
    ('lt <= luq', 'lecturertargets > lecturerupperquotas'),
    ('llq <= lt', 'lecturerlowerquotas > lecturertargets'),
]

# ---- solver flags (README section 3) -----------------------------------------------------------
SOLVER_FLAGS = {
    'filename': ('-f', 'store', None, True), 'numagents': ('-na', 'store', int, True),
    'twopl': ('-twopl', 'store_true', None, False), 'pc': ('-pc', 'store_true', None, False),
    'stab': ('-stab', 'store_true', None, False), 'bruteforce': ('-bf', 'store_true', None, False),
}

# ---- C07: what brute-force mode prints (property statement) ------------------------------------------
# label -> (tier, statistic helper of Model, order).  tier 'size' = the maximum size itself; 'maxsize' = optimum over
# maximum-size valid matchings; 'all' = optimum over all valid matchings.  order: 'lt' smaller is better (tuples
# lexicographic), 'gen' more generous profile is better, 'gre' more greedy profile is better.
BRUTE_FORCE = {
    'optimal_size':               ('size', None, 'gt'),
    'optimal_maxsizemincost':     ('maxsize', '_get_cost', 'lt'),
    'optimal_maxsizemindegree':   ('maxsize', '_get_degree', 'lt'),
    'optimal_maxsizeminsqcost':   ('maxsize', '_get_cost_sq', 'lt'),
    'optimal_generousmaxprofile': ('maxsize', '_get_profile', 'gen'),
    'optimal_greedymaxprofile':   ('maxsize', '_get_profile', 'gre'),
    'optimal_greedyprofile':      ('all', '_get_profile', 'gre'),
    'optimal_max_lec_abs_diff':   ('all', '_get_max_lec_abs_diff', 'lt'),
    'optimal_sum_lec_abs_diff':   ('all', '_get_sum_lec_abs_diff', 'lt'),
}
# validity of an assignment (definition of a valid matching, with project closure): rejected-when predicates
BF_VALID = {
    'P': lambda c, lq, uq, pc: not ((pc and c == 0) or (lq <= c <= uq)),
    'L': lambda c, lq, uq, pc: not (lq <= c <= uq),
}


# ---- attribute vocabulary -------------------------------------------------------------------------------------------------
# The rules name the model's state by the attribute names of the pinned tree.  A tree that renames one of them consistently
# (lec_targets -> lecturer_targets everywhere) is the same program; the loader binds the new name back to the one the rules use
# by aligning, per class and method, the ORDER in which `self.<attr>` is first assigned with this table (loader.
# canonical_attribute_names; nothing is renamed when the alignment is not a clean one-for-one replacement of a vanished name).
ATTR_ORDER = {
    'Model': {
        '__init__': ['num_students', 'num_projects', 'num_lecturers', 'proj_lower_quotas', 'proj_upper_quotas', 'lec_lower_quotas', 'lec_targets', 'lec_upper_quotas',
                     'proj_lecturers', 'pairs', 'info_string', 'pulp_status', 'time_limit', 'OPTIMAL_PULP_STATUS', 'NOTSOLVED_PULP_STATUS'],
        'set_project_lists': ['project_lists'], 'set_lecturer_lists': ['lecturer_lists'], 'set_rank_lists': ['rank_lists'],
        'pulp_setup': ['lec_overload', 'lec_underload', 'abs_lec_diff', 'project_closures'],
    },
    'Pair': {
        '__init__': ['studentID', 'projectID', 'student_index', 'project_index', 'rank_student'],
        'set_lecturer': ['lecturerID', 'lecturer_index'], 'set_lecturer_rank': ['rank_lecturer'], 'pulp_setup': ['lp_var', 'alpha_var', 'beta_var'],
    },
    'LP_Solver': {'__init__': ['model', 'instance_options', 'extra_constraints', 'optimisation_options', 'prob'], 'run': ['info_string', 'num_solves', 'solver']},
    'Brute_force_solver': {'__init__': ['model', 'instance_options']},
    'Solver': {'__init__': ['options_parser', 'model'], 'solve': ['solver']},
    'Options_parser': {'parse': ['filename', 'instance_options', 'solver_options', 'extra_constraints', 'optimisation_options']},
}
