"""Immutable symbolic terms (nested tuples) + printer + simplifier.

Kinds: const sym attr idx slice call bin un cmp bool not ite tuple list dict bvar indexof
       carried top fold exists wsum lpvar fstr
"""
import itertools


class Unknown(Exception):
    """Construct outside the fragment the engine understands."""


def C(v): return ('const', v)
def S(n): return ('sym', n)
def A(b, n): return ('attr', b, n)
def I(b, i): return ('idx', b, i)
def CALL(f, args, kw=()): return ('call', f, tuple(args), tuple(kw))
def BIN(op, a, b): return ('bin', op, a, b)
def CMP(op, a, b): return ('cmp', op, a, b)
def NOT(a):
    if a == TRUE: return FALSE
    if a == FALSE: return TRUE
    if isinstance(a, tuple) and a[0] == 'not': return a[1]
    return ('not', a)
def TOP(why): return ('top', why)

TRUE = C(True)
FALSE = C(False)
NONE = C(None)


def known_truth(x):
    """truth value of a literal (None when it is not one)"""
    if x[0] == 'const':
        return bool(x[1])
    if x[0] in ('list', 'tuple') and all(isinstance(e, tuple) and e and e[0] != 'star' for e in x[1]):
        return bool(x[1])
    return None


def _is(x, b):
    """x is the constant True / False itself (C(1) == C(True) as tuples, but `a and 1` is not `a`)"""
    return x[0] == 'const' and x[1] is b


def AND(*xs):
    """`a and b and ...` (short-circuit: nothing after a literal falsy operand is evaluated)"""
    out = []
    for i, x in enumerate(xs):
        kt = known_truth(x)
        if _is(x, True) or (kt is True and i < len(xs) - 1):
            continue
        if _is(x, False):
            return FALSE
        if kt is False:
            out.append(x)
            break
        if x[0] == 'bool' and x[1] == 'and':
            out.extend(x[2])
        else:
            out.append(x)
    if not out:
        return TRUE
    if len(out) == 1:
        return out[0]
    return ('bool', 'and', tuple(out))


def OR(*xs):
    """`a or b or ...` (short-circuit: nothing after a literal truthy operand is evaluated)"""
    out = []
    for i, x in enumerate(xs):
        kt = known_truth(x)
        if _is(x, False) or (kt is False and i < len(xs) - 1):
            continue
        if _is(x, True):
            return TRUE
        if kt is True:
            out.append(x)
            break
        if x[0] == 'bool' and x[1] == 'or':
            out.extend(x[2])
        else:
            out.append(x)
    if not out:
        return FALSE
    if len(out) == 1:
        return out[0]
    if len(out) == 2 and (out[1] == ('not', out[0]) or out[0] == ('not', out[1])) and out[0][0] in ('cmp', 'not'):
        return TRUE                    # g or not g, with g a comparison (boolean valued, terms are pure)
    return ('bool', 'or', tuple(out))


def is_term(t):
    return isinstance(t, tuple) and t and isinstance(t[0], str)


def is_const(t, types=None):
    return t[0] == 'const' and (types is None or (isinstance(t[1], types) and not (types in (int, (int, float)) and isinstance(t[1], bool))))


def is_num(t):
    return t[0] == 'const' and isinstance(t[1], (int, float)) and not isinstance(t[1], bool)


def walk(t):
    """All sub-terms, pre-order."""
    if not isinstance(t, tuple):
        return
    if t and isinstance(t[0], str):
        yield t
        for x in t[1:]:
            if isinstance(x, tuple):
                yield from walk(x)
    else:
        for x in t:
            if isinstance(x, tuple):
                yield from walk(x)


def walk_unique(t, seen):
    """Like walk(), but each distinct tuple object is visited once (terms share sub-terms heavily)."""
    stack = [t]
    while stack:
        x = stack.pop()
        if not isinstance(x, tuple) or id(x) in seen:
            continue
        seen.add(id(x))
        if x and isinstance(x[0], str):
            yield x
            for y in x[1:]:
                if isinstance(y, tuple):
                    stack.append(y)
        else:
            for y in x:
                if isinstance(y, tuple):
                    stack.append(y)


def boolify(g):
    """conditional expressions with a constant branch as and/or (same value, same evaluation order)"""
    if g[0] == 'ite':
        c, a, b = g[1], boolify(g[2]), boolify(g[3])
        if a == FALSE:
            return AND(NOT(c), b)
        if b == FALSE:
            return AND(c, a)
        if a == TRUE:
            return OR(c, b)
        if b == TRUE:
            return OR(NOT(c), a)
        return g
    if g[0] == 'not' and g[1][0] in ('ite', 'bool', 'not'):
        return NOT(boolify(g[1]))
    if g[0] == 'bool' and any(x[0] in ('ite', 'bool', 'not') for x in g[2]):
        return (AND if g[1] == 'and' else OR)(*[boolify(x) for x in g[2]])
    return g


def subst(t, f):
    """Bottom-up rewrite: f(term) -> term or None (keep)."""
    if not isinstance(t, tuple):
        return t
    if t and isinstance(t[0], str):
        if t[0] == 'const':
            new = t
        else:
            new = (t[0],) + tuple(subst(x, f) if isinstance(x, tuple) else x for x in t[1:])
        r = f(new)
        return new if r is None else r
    return tuple(subst(x, f) if isinstance(x, tuple) else x for x in t)


def contains(t, pred):
    return any(pred(x) for x in walk(t))


def bvars(t):
    return [x for x in walk(t) if x[0] == 'bvar']


OPS = {'Add': '+', 'Sub': '-', 'Mult': '*', 'Div': '/', 'FloorDiv': '//', 'Mod': '%', 'Pow': '**',
       'Lt': '<', 'LtE': '<=', 'Gt': '>', 'GtE': '>=', 'Eq': '==', 'NotEq': '!=', 'In': 'in', 'NotIn': 'not in',
       'Is': 'is', 'IsNot': 'is not', 'USub': '-', 'UAdd': '+', 'Not': 'not'}


def show(t):
    if not isinstance(t, tuple) or not t:
        return repr(t)
    if not isinstance(t[0], str):
        return '(' + ', '.join(show(x) for x in t) + ')'
    k = t[0]
    if k == 'const': return repr(t[1])
    if k == 'sym': return t[1]
    if k == 'attr': return show(t[1]) + '.' + t[2]
    if k == 'idx': return show(t[1]) + '[' + show(t[2]) + ']'
    if k == 'slice': return show(t[1]) + '[' + ':'.join('' if x == NONE else show(x) for x in t[2:4]) + ']'
    if k == 'bvar': return '%s#%d' % (t[2], t[1])
    if k == 'indexof': return 'indexof(%s)' % show(t[1])
    if k == 'call':
        return show(t[1]) + '(' + ', '.join([show(a) for a in t[2]] + ['%s=%s' % (n, show(v)) for n, v in t[3]]) + ')'
    if k == 'bin': return '(' + show(t[2]) + ' ' + OPS.get(t[1], t[1]) + ' ' + show(t[3]) + ')'
    if k == 'un': return '(' + OPS.get(t[1], t[1]) + show(t[2]) + ')'
    if k == 'not': return '(not ' + show(t[1]) + ')'
    if k == 'cmp': return '(' + show(t[2]) + ' ' + OPS.get(t[1], t[1]) + ' ' + show(t[3]) + ')'
    if k == 'bool': return '(' + (' ' + t[1] + ' ').join(show(x) for x in t[2]) + ')'
    if k == 'ite': return 'ITE(%s, %s, %s)' % (show(t[1]), show(t[2]), show(t[3]))
    if k in ('tuple', 'list'): return ('(%s)' if k == 'tuple' else '[%s]') % ', '.join(show(x) for x in t[1])
    if k == 'dict': return '{' + ', '.join('%s: %s' % (show(a), show(b)) for a, b in t[1]) + '}'
    if k in ('sum', 'comp'):
        ch = ' '.join('for %s in %s%s' % (show(b), show(b[3]), '' if g == TRUE else ' if ' + show(g)) for b, g in t[1])
        return ('SUM{%s}(%s)' if k == 'sum' else '[%s: %s]') % ((ch, show(t[2])) if k == 'sum' else (show(t[2]), ch))
    if k == 'accum':
        return 'ACCUM<%s>(%s; %s)' % (t[3], show(t[1]), '; '.join('%s[%s] %s {%s}' % (op, show(ix), show(v), ' '.join('for %s in %s%s' % (show(b), show(b[3]), '' if g == TRUE else ' if ' + show(g)) for b, g in ch)) for op, ix, v, ch in t[2]))
    if k == 'upd': return 'UPD(%s; %s[%s] %s)' % (show(t[1]), t[2], show(t[3]), show(t[4]))
    if k == 'stale': return 'STALE<%s>' % show(t[1])
    if k == 'obj': return 'new %s#%d' % (t[1], t[2])
    if k == 'lpproblem': return 'LpProblem#%d' % t[1]
    if k == 'cat': return ' ++ '.join(show(x) for x in t[1])
    if k == 'top': return 'TOP<%s>' % (t[1],)
    if k == 'carried': return '%s@loop%s' % (t[1], t[2])
    if k == 'starred': return '*' + show(t[1])
    if k == 'distinct': return 'DISTINCT{%s}(%s)' % (' '.join('for %s in %s%s' % (show(b), show(b[3]), '' if g == TRUE else ' if ' + show(g)) for b, g in t[1]), show(t[2]))
    if k == 'lpvar': return 'LpVar<%s>' % show(t[1])
    if k == 'fstr': return 'F"' + ''.join(x[1] if x[0] == 'const' and isinstance(x[1], str) else '{' + show(x) + '}' for x in t[1]) + '"'
    if k == 'fold': return 'FOLD<%s>(%s; %s)' % (t[1], show(t[2]), show(t[3]))
    if k == 'wsum': return 'WSUM<%s>(%s)' % (t[1], show(t[3]))
    return k + '(' + ', '.join(show(x) if isinstance(x, tuple) else repr(x) for x in t[1:]) + ')'


# ---- simplifier (constant folding over the configuration) ----------------------------
ENUM_CLASSES = set()   # names of Enum classes of the repository (filled by the loader user)

CMPF = {'Lt': lambda a, b: a < b, 'LtE': lambda a, b: a <= b, 'Gt': lambda a, b: a > b, 'GtE': lambda a, b: a >= b,
        'Eq': lambda a, b: a == b, 'NotEq': lambda a, b: a != b}
BINF = {'Add': lambda a, b: a + b, 'Sub': lambda a, b: a - b, 'Mult': lambda a, b: a * b}


PATH = ('sym', 'Path')


def is_path(t):
    return t[0] == 'call' and t[1] == PATH and len(t[2]) == 1


def is_enum_member(t):
    return t[0] == 'attr' and t[1][0] == 'sym' and t[1][1] in ENUM_CLASSES


def is_literal_seq(t):
    return t[0] in ('list', 'tuple')


def known_value(t):
    """const, enum member, or literal sequence thereof -> hashable python-ish key, else None."""
    if t[0] == 'const':
        return ('c', t[1])
    if is_enum_member(t):
        return ('e', t[1][1], t[2])
    return None


def as_cond(t):
    """Truth value of a term used as a condition, when it is decided by its shape (literal sequences, constants)."""
    if t[0] in ('list', 'tuple'):
        return C(len(t[1]) > 0)
    if t[0] == 'dict':
        return C(len(t[1]) > 0)
    if t[0] == 'const':
        return C(bool(t[1]))
    return t


def simp1(t):
    k = t[0]
    if k == 'comp' and len(t[1]) == 1 and t[1][0][1] == TRUE:
        b = t[1][0][0]
        e = t[2]
        # [list(row) for row in X] / [row[:] for row in X] / [row for row in X]: X itself, as a value (a copy of its rows)
        if e == b or (e[0] == 'call' and e[1] in (S('list'), S('tuple')) and len(e[2]) == 1 and e[2][0] == b and not (len(e) > 3 and e[3])) \
                or (e[0] == 'slice' and e[1] == b and e[2] == NONE and e[3] == NONE):
            if b[0] == 'bvar' and b[3][0] in ('sym', 'attr'):
                return b[3]
    if k == 'not':
        a = as_cond(t[1])
        if a[0] == 'const':
            return C(not a[1])
        if a[0] == 'not':
            return a[1]
        return None
    if k == 'cmp':
        op, a, b = t[1], t[2], t[3]
        ka, kb = known_value(a), known_value(b)
        if op in ('Eq', 'NotEq', 'Is', 'IsNot') and ka is not None and kb is not None:
            eq = ka == kb
            return C(eq if op in ('Eq', 'Is') else not eq)
        if op in ('Eq', 'NotEq', 'Is', 'IsNot') and (a == NONE or b == NONE):
            other = b if a == NONE else a
            if other[0] == 'ite':
                # (c ? x : y) is None  ->  c ? (x is None) : (y is None)   when a branch is decided
                x, y = simp(('cmp', op, other[2], NONE)), simp(('cmp', op, other[3], NONE))
                if x[0] == 'const' or y[0] == 'const':
                    return simp(('ite', other[1], x, y))
            if other[0] in ('tuple', 'list', 'dict', 'obj', 'lpvar', 'lpproblem', 'fstr', 'comp', 'cat', 'lambda', 'dictcomp', 'accum', 'upd', 'sum', 'closure', 'slice') \
                    or (other[0] == 'call' and other[1] in (S('lpSum'), S('LpAffineExpression'), S('list'), S('tuple'), S('dict'), S('set'), S('sorted'), S('str'), S('len'), S('range'), S('int'), S('float'), S('bool'), S('abs'), S('frozenset'))) \
                    or (other[0] == 'const' and other[1] is not None) \
                    or (other[0] == 'bin' and other[1] in ('Add', 'Sub', 'Mult')) \
                    or (other[0] == 'idx' and other[1][0] == 'attr' and other[1][2] == 'project_closures' and other[2][0] != 'slice'):
                # (the closure table holds one LpVariable per project: the declaration rules of the LP checks read its
                #  construction, an entry is never None)
                return C(op in ('NotEq', 'IsNot'))          # a constructed value is never None
        if op in ('Eq', 'Is') and a == b and a[0] != 'top':
            return None  # syntactically equal symbolic terms: leave (could be NaN-like); rules decide
        if op in CMPF and is_num(a) and is_num(b):
            return C(CMPF[op](a[1], b[1]))
        if op in CMPF and is_num(b) and a[0] == 'ite' and (is_num(a[2]) or is_num(a[3])):
            # (c ? m : n) <op> k  with a number on one branch at least: decided per branch
            x = C(CMPF[op](a[2][1], b[1])) if is_num(a[2]) else ('cmp', op, a[2], b)
            y = C(CMPF[op](a[3][1], b[1])) if is_num(a[3]) else ('cmp', op, a[3], b)
            return simp(('ite', a[1], x, y))
        if op in ('In', 'NotIn') and b[0] == 'dict' and ka is not None and all(known_value(kk) is not None for kk, _ in b[1]):
            r = ka in [known_value(kk) for kk, _ in b[1]]
            return C(r if op == 'In' else not r)
        if op in ('In', 'NotIn') and is_literal_seq(b) and ka is not None:
            ks = [known_value(x) for x in b[1]]
            if all(x is not None for x in ks):
                r = ka in ks
                return C(r if op == 'In' else not r)
        return None
    if k == 'bool':
        if t[1] == 'and':
            r = AND(*t[2])
        else:
            r = OR(*t[2])
        return r if r != t else None
    if k == 'ite':
        c = as_cond(t[1])
        if c != t[1]:
            return simp(('ite', c, t[2], t[3]))
        if t[1] == TRUE: return t[2]
        if t[1] == FALSE: return t[3]
        if t[2] == t[3]: return t[2]
        if t[3][0] == 'ite' and (t[3][1] == ('not', t[1]) or t[1] == ('not', t[3][1])):
            return simp(('ite', t[1], t[2], t[3][2]))          # c ? a : (not c ? b : d)  - d cannot be reached
        if t[2][0] == 'ite' and t[2][1] == t[1]:
            return simp(('ite', t[1], t[2][2], t[3]))          # c ? (c ? a : d) : b
        if t[2] == TRUE and t[3] == FALSE: return t[1]
        if t[2] == FALSE and t[3] == TRUE: return NOT(t[1])
        return None
    if k == 'bin':
        op, a, b = t[1], t[2], t[3]
        if op == 'Div' and is_path(a):
            # Path(d) / name  is  Path(d + '/' + name)   (pathlib: the canonical spelling is the string one)
            return ('call', PATH, (('bin', 'Add', ('bin', 'Add', a[2][0], C('/')), b[2][0] if is_path(b) else b),), ())
        if op in ('BitAnd', 'BitOr') and is_literal_seq(a) and is_literal_seq(b) and all(known_value(x) is not None for x in a[1] + b[1]):
            # intersection / union of two literal collections (sets built from literals: used for membership and emptiness only)
            kb = {known_value(x) for x in b[1]}
            if op == 'BitAnd':
                return ('tuple', tuple(x for x in a[1] if known_value(x) in kb))
            ka = {known_value(x) for x in a[1]}
            return ('tuple', tuple(a[1]) + tuple(x for x in b[1] if known_value(x) not in ka))
        if op in BINF and is_num(a) and is_num(b):
            return C(BINF[op](a[1], b[1]))
        if op == 'Add' and a[0] == 'const' and b[0] == 'const' and isinstance(a[1], str) and isinstance(b[1], str):
            return C(a[1] + b[1])
        if op == 'Add' and a[0] == b[0] and a[0] in ('list', 'tuple') and is_literal_seq(a) and is_literal_seq(b):
            return (a[0], a[1] + b[1])
        return None
    if k == 'attr' and t[2] == 'name' and is_enum_member(t[1]):
        return C(t[1][2])                     # Enum member .name
    if k == 'idx' and t[1][0] == 'call' and t[1][1] == S('divmod') and len(t[1][2]) == 2 and t[2] in (C(0), C(1)) and not (len(t[1]) > 3 and t[1][3]):
        return ('bin', 'FloorDiv' if t[2] == C(0) else 'Mod', t[1][2][0], t[1][2][1])          # divmod(a, b)[0] is a // b, [1] is a % b
    if k == 'idx' and t[1][0] == 'slice' and t[2][0] == 'const' and isinstance(t[2][1], int) and not isinstance(t[2][1], bool) and t[2][1] >= 0 \
            and t[1][2][0] == 'const' and isinstance(t[1][2][1], int) and t[1][2][1] >= 0 and t[1][3] == NONE:
        return ('idx', t[1][1], C(t[1][2][1] + t[2][1]))             # xs[a:][k] is xs[a + k]
    if k == 'idx' and t[1][0] == 'ite' and (is_literal_seq(t[1][2]) or t[1][2][0] == 'ite') and (is_literal_seq(t[1][3]) or t[1][3][0] == 'ite') \
            and t[2][0] == 'const':
        return simp(('ite', t[1][1], ('idx', t[1][2], t[2]), ('idx', t[1][3], t[2])))
    if k == 'idx':
        b, i = t[1], t[2]
        if is_literal_seq(b) and i[0] == 'const' and isinstance(i[1], int) and not isinstance(i[1], bool):
            if -len(b[1]) <= i[1] < len(b[1]):
                return b[1][i[1]]
            return TOP('IndexError: %s' % show(t))
        if b[0] == 'call' and b[1] == ('sym', 'vars') and len(b[2]) == 1 and i[0] == 'const' and isinstance(i[1], str):
            return ('attr', b[2][0], i[1])                 # vars(obj)['name']  is  obj.name
        if b[0] == 'bin' and b[1] == 'Mult' and b[2][0] == 'list' and len(b[2][1]) == 1 and b[2][1][0][0] == 'const':
            return b[2][1][0]          # ([c] * n)[i]: a list nobody filled still holds its initial constant
        if b[0] == 'dict':
            ki = known_value(i)
            if ki is not None:
                for kk, vv in b[1]:
                    if known_value(kk) == ki:
                        return vv
        return None
    if k == 'slice':
        b, lo, hi = t[1], t[2], t[3]
        if is_literal_seq(b) and lo[0] == 'const' and hi[0] == 'const':
            return (b[0], tuple(b[1][lo[1]:hi[1]]))
        return None
    if k == 'call' and t[1] in (S('Path'), A(S('pathlib'), 'Path'), S('PurePath')) and len(t[2]) == 1 and not (len(t) > 3 and t[3]) and is_path(t[2][0]):
        return t[2][0]
    if k == 'call' and t[1] == A(S('pathlib'), 'Path') and len(t[2]) == 1 and not (len(t) > 3 and t[3]):
        return ('call', PATH, t[2], ())
    if k == 'call' and t[1][0] == 'attr' and is_path(t[1][1]):
        # Path(x).read_text() / .open(mode) / .write_text(s): the open()-based spellings the rules know
        m, x = t[1][2], t[1][1][2][0]
        if m == 'read_text' and not t[2]:
            return ('call', ('attr', ('call', S('open'), (x,), ()), 'read'), (), ())
        if m == 'open':
            return ('call', S('open'), (x,) + tuple(t[2]), tuple(t[3]) if len(t) > 3 else ())
        if m == 'write_text' and len(t[2]) == 1:
            return ('call', ('attr', ('call', S('open'), (x, C('w')), ()), 'write'), tuple(t[2]), ())
    if k == 'call' and t[1][0] == 'ite' and not (len(t) > 3 and t[3]):
        # (g if c else h)(args): the call is made on whichever function the condition selects
        return ('ite', t[1][1], ('call', t[1][2], t[2], ()), ('call', t[1][3], t[2], ()))
    if k == 'call' and len(t[2]) == 2 and not (len(t) > 3 and t[3]):
        f_ = t[1]
        opn = f_[2] if (f_[0] == 'attr' and f_[1] == ('sym', 'operator')) else None
        cmpn = {'ge': 'GtE', 'le': 'LtE', 'gt': 'Gt', 'lt': 'Lt', 'eq': 'Eq', 'ne': 'NotEq'}.get(opn)
        if cmpn:
            return ('cmp', cmpn, t[2][0], t[2][1])            # operator.ge(a, b) is a >= b
        binn = {'add': 'Add', 'sub': 'Sub', 'mul': 'Mult'}.get(opn)
        if binn:
            return ('bin', binn, t[2][0], t[2][1])
    if k == 'call':
        f, args = t[1], t[2]
        fname = f[1] if f[0] == 'sym' else (f[2] if (f[0] == 'attr' and f[1] == ('sym', 'itertools')) else None)
        if fname == 'chain' and args and not (len(t) > 3 and t[3]) and all(a[0] in ('list', 'tuple', 'comp', 'cat', 'accum') for a in args):
            # itertools.chain(a, b, ...) of list-valued pieces: their concatenation
            return ('cat', tuple(('list', a[1]) if a[0] == 'tuple' else a for a in args))
        if f[0] == 'call' and len(args) == 1 and len(f[2]) == 1 and f[2][0][0] == 'const' and not (len(f) > 3 and f[3]) and not (len(t) > 3 and t[3]):
            g_ = f[1]
            gname = g_[1] if g_[0] == 'sym' else (g_[2] if g_[0] == 'attr' and g_[1] == ('sym', 'operator') else None)
            if gname == 'attrgetter' and isinstance(f[2][0][1], str) and '.' not in f[2][0][1]:
                return ('attr', args[0], f[2][0][1])               # attrgetter('a')(x)  is  x.a
            if gname == 'itemgetter':
                return simp(('idx', args[0], f[2][0])) or ('idx', args[0], f[2][0])
        if f[0] == 'call' and len(args) == 1 and len(f[2]) > 1 and all(x[0] == 'const' for x in f[2]) and not (len(f) > 3 and f[3]) and not (len(t) > 3 and t[3]):
            g_ = f[1]
            gname = g_[1] if g_[0] == 'sym' else (g_[2] if g_[0] == 'attr' and g_[1] == ('sym', 'operator') else None)
            if gname == 'attrgetter' and all(isinstance(x[1], str) and '.' not in x[1] for x in f[2]):
                return ('tuple', tuple(('attr', args[0], x[1]) for x in f[2]))       # attrgetter('a', 'b')(x)  is  (x.a, x.b)
            if gname == 'itemgetter':
                return ('tuple', tuple(('idx', args[0], x) for x in f[2]))
        if f[0] == 'attr' and f[2] in ('lower', 'upper', 'strip', 'title', 'capitalize') and not args and f[1][0] == 'const' and isinstance(f[1][1], str) and not (len(t) > 3 and t[3]):
            return C(getattr(f[1][1], f[2])())
        if f[0] == 'attr' and f[2] in ('items', 'keys', 'values') and f[1][0] == 'dict' and not args and not (len(t) > 3 and t[3]):
            # the views of a literal dictionary, in insertion order
            if f[2] == 'items':
                return ('list', tuple(('tuple', (k_, v_)) for k_, v_ in f[1][1]))
            return ('list', tuple((k_ if f[2] == 'keys' else v_) for k_, v_ in f[1][1]))
        if f[0] == 'attr' and f[2] == 'get' and f[1][0] == 'dict' and len(args) in (1, 2):
            ki = known_value(args[0])
            if ki is not None and all(known_value(kk) is not None for kk, _ in f[1][1]):
                for kk, vv in f[1][1]:
                    if known_value(kk) == ki:
                        return vv
                return args[1] if len(args) == 2 else NONE
        if f in (S('any'), S('all')) and len(args) == 1 and is_literal_seq(args[0]):
            xs = [as_cond(x) for x in args[0][1]]
            return OR(*xs) if f == S('any') else AND(*xs)
        if f in (S('list'), S('tuple')) and len(args) == 1 and is_literal_seq(args[0]):
            return (f[1], args[0][1])
        if f == S('list') and len(args) == 1 and args[0][0] == 'comp' and not (len(t) > 3 and t[3]):
            return args[0]                  # list(<list comprehension / collected generator>) is that list
        if f in (S('frozenset'), S('set')) and len(args) == 1 and is_literal_seq(args[0]):
            return ('tuple', args[0][1])          # used for membership tests only
        if f == S('bool') and len(args) == 1:
            c = as_cond(args[0])
            if c[0] == 'const':
                return c
        if f == S('len') and len(args) == 1:
            if is_literal_seq(args[0]):
                return C(len(args[0][1]))
            if args[0] == NONE:
                return TOP('TypeError: len(None)')
        if f == S('isinstance') and len(args) == 2 and args[1] == S('list'):
            if is_literal_seq(args[0]):
                return C(args[0][0] == 'list')
            if args[0][0] == 'const':
                return FALSE
        if f in (S('max'), S('min')) and len(args) >= 2 and all(is_num(a) for a in args):
            return C((max if f == S('max') else min)(a[1] for a in args))
        if f == S('str') and len(args) == 1 and args[0][0] == 'const' and isinstance(args[0][1], (int, str)):
            return C(str(args[0][1]))
        return None
    return None


def simp(t):
    return subst(t, simp1)


def simp_top(t):
    """Simplify only at the root (children are already simplified when terms are built bottom-up)."""
    for _ in range(8):
        r = simp1(t)
        if r is None or r == t:
            return t
        t = r
    return t


def alpha(t):
    """Alpha-normal form: bound variables, loop ids and accumulator names renumbered by first occurrence (bottom-up), so
    that two summaries of the same computation obtained in different inlining contexts compare equal."""
    ids, loops = {}, {}
    def f(x):
        if x[0] == 'bvar':
            return ('bvar', ids.setdefault(x[1], len(ids)), 'v', x[3])
        if x[0] in ('carried', 'prefix'):
            return (x[0], 'c', loops.setdefault(x[2], len(loops))) + tuple(x[3:])
        if x[0] == 'accum':
            return x[:3] + ('acc',) + tuple(x[4:])
        return None
    return subst(t, f)


def facts_of(cond, truth, out=None):
    """elementary conditions decided by `cond is truth`  ->  {condition term: bool}"""
    out = {} if out is None else out
    c = cond
    if c[0] == 'not':
        return facts_of(c[1], not truth, out)
    out[c] = truth
    if c[0] == 'bool':
        if (c[1] == 'and' and truth) or (c[1] == 'or' and not truth):
            for x in c[2]:
                facts_of(x, truth, out)
    if c[0] == 'cmp' and c[1] in ('Eq', 'NotEq', 'Is', 'IsNot'):
        eq = c[1] in ('Eq', 'Is')
        for a, b in ((c[2], c[3]), (c[3], c[2])):
            if a[0] == 'ite':
                # (g ? X : Y) == K: a branch that is K itself (or a different literal) decides the comparison; if it would make
                # the comparison come out as NOT observed, that branch was not taken
                for br, val in ((a[2], True), (a[3], False)):
                    if br == b:
                        same = True
                    elif br[0] == 'const' and b[0] == 'const':
                        same = False
                    else:
                        continue
                    if (same == eq) != truth:
                        facts_of(a[1], not val, out)
    return out


def refine(t, facts):
    """t with every conditional whose test is decided by `facts` replaced by the branch taken"""
    if not facts:
        return t

    def f(x):
        if x[0] == 'ite':
            c = x[1]
            if c in facts:
                return x[2] if facts[c] else x[3]
            if c[0] == 'not' and c[1] in facts:
                return x[3] if facts[c[1]] else x[2]
        return None
    prev = None
    cur = t
    for _ in range(4):
        if cur == prev:
            break
        prev, cur = cur, subst(cur, f)
    return cur


def split_paths(t, facts=None):
    """leaves of a conditional term, each refined by the tests passed on the way to it  ->  [(facts, leaf)]"""
    facts = dict(facts or {})
    t = refine(t, facts)
    if t[0] == 'ite':
        ft = facts_of(t[1], True, dict(facts))
        ff = facts_of(t[1], False, dict(facts))
        return split_paths(t[2], ft) + split_paths(t[3], ff)
    return [(facts, t)]


def affine_form(t):
    """integer-affine normal form of a term built from +, -, unary minus and integer constants over opaque atoms:
    -> (frozenset of (atom, coefficient), constant) ; anything else is one atom"""
    coef, const = {}, 0
    def go(x, k):
        nonlocal const
        if x[0] == 'const' and isinstance(x[1], int) and not isinstance(x[1], bool):
            const += k * x[1]
        elif x[0] == 'bin' and x[1] in ('Add', 'Sub'):
            go(x[2], k)
            go(x[3], k if x[1] == 'Add' else -k)
        elif x[0] == 'un' and x[1] == 'USub':
            go(x[2], -k)
        elif x[0] == 'bin' and x[1] == 'Mult' and x[2][0] == 'const' and isinstance(x[2][1], int) and not isinstance(x[2][1], bool):
            go(x[3], k * x[2][1])
        elif x[0] == 'bin' and x[1] == 'Mult' and x[3][0] == 'const' and isinstance(x[3][1], int) and not isinstance(x[3][1], bool):
            go(x[2], k * x[3][1])
        else:
            coef[x] = coef.get(x, 0) + k
    go(t, 1)
    return frozenset((a, c) for a, c in coef.items() if c), const


def affine_equal(a, b):
    """a == b as integer-affine expressions (n - 1 + 1 is n)"""
    return a == b or affine_form(a) == affine_form(b)
