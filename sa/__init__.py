"""Repository-specific static analysis of fmcooper/matchingproblems (pure ast, no execution of the repo)."""
