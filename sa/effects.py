"""E12: side-effect (mutation) summaries over the resolved call graph, with a provenance domain for the mutated object.

For every function: the list of *mutation events* it can cause on objects that outlive the call, each described by the
access path of the mutated object rooted at `self`, a parameter or a module global, the kind of mutation
(attribute store, item store, accumulate, in-place method) and the call chain that leads to it.  Mutations of objects
created inside the call (fresh lists, comprehensions, `[c] * n`, results of constructors and of repository functions
that return fresh objects) are not events.  Callee events are re-rooted at the call site (parameter -> provenance of the
actual argument, `self` -> provenance of the receiver) and dropped when that provenance is fresh.

Provenance of an expression:
   ('fresh', deep)              a new object; deep=True when its elements are new / immutable too
   ('path', root, names)        reachable from root in {'self', 'param:<p>', 'global:<g>'} through the attribute / element
                                names listed (element access is recorded as '[]')
Nothing is executed; the analysis is flow-insensitive per function (a local is fresh only if all its bindings are)."""
import ast

MUTATORS = {'append', 'extend', 'insert', 'pop', 'remove', 'clear', 'sort', 'reverse', 'update', 'setdefault', 'add', 'discard',
            'popitem', 'appendleft', 'popleft', 'difference_update', 'intersection_update', 'symmetric_difference_update'}
ACCUMULATORS = {'append', 'extend', 'insert', 'add', 'update', 'setdefault', 'appendleft'}
FRESH_BUILTINS = {'list', 'dict', 'set', 'tuple', 'sorted', 'str', 'int', 'float', 'bool', 'len', 'range', 'max', 'min', 'sum', 'abs', 'repr', 'round', 'enumerate', 'zip',
                  'reversed', 'map', 'filter', 'frozenset', 'divmod', 'pow', 'isinstance', 'hasattr', 'getattr', 'type', 'open', 'iter', 'next', 'any', 'all', 'format', 'id', 'hash', 'print'}
RECV_CLASS = {'model': ['Model'], 'solver': ['LP_Solver', 'Brute_force_solver'], 'options_parser': ['Options_parser'], 'pair': ['Pair'], 'lec_pair': ['Pair'],
              'st_pr_pair': ['Pair'], 'candidate': ['Pair']}

FRESH = ('fresh', False)
FRESH_DEEP = ('fresh', True)


def is_fresh(p):
    return p[0] == 'fresh'


def path(root, names=()):
    return ('path', root, tuple(names))


def join(a, b):
    if a is None:
        return b
    if b is None:
        return a
    if is_fresh(a) and is_fresh(b):
        return ('fresh', a[1] and b[1])
    return b if is_fresh(a) else a


class Event:
    def __init__(self, kind, prov, func, node, attr=None, chain=()):
        self.kind, self.prov, self.func, self.node, self.attr, self.chain = kind, prov, func, node, attr, tuple(chain)

    @property
    def loc(self):
        return '%s:%d' % (self.func.relpath, getattr(self.node, 'lineno', 0))

    def describe(self):
        root, names = self.prov[1], self.prov[2]
        p = root.split(':')[-1] + ''.join('[]' if n == '[]' else '.' + n for n in names)
        what = {'attr-store': 'assigns %s.%s' % (p, self.attr), 'attr-acc': 'accumulates into %s.%s' % (p, self.attr), 'item-store': 'stores into an element of %s' % p,
                'item-acc': 'accumulates into an element of %s' % p, 'method': 'calls %s.%s() in place' % (p, self.attr), 'del': 'deletes from %s' % p}[self.kind]
        via = ' <- '.join(f.qualname for f in reversed(self.chain)) if self.chain else ''
        return '%s at %s (%s)%s' % (what, self.loc, self.func.qualname, ' via ' + via if via else '')

    def text(self):
        try:
            return ast.unparse(self.node)[:100]
        except Exception:
            return '?'


class Effects:
    def __init__(self, repo):
        self.repo = repo
        self.summaries = {}      # Func -> list of Event (own + callee events re-rooted), provenance rooted at self/param/global
        self.ret = {}            # Func -> provenance of the return value
        self.calls = {}          # Func -> list of (call node, [callee Func])
        self._busy = set()

    # ---- call resolution ------------------------------------------------------------------------------------------
    def resolve(self, func, call):
        fn = call.func
        repo = self.repo
        if isinstance(fn, ast.Name):
            if fn.id in repo.classes:
                init = repo.classes[fn.id].get('__init__')
                return [init] if init else []
            return list(repo.funcs_by_name.get(fn.id, []))
        if isinstance(fn, ast.Attribute):
            recv = fn.value
            name = fn.attr
            if isinstance(recv, ast.Name) and recv.id == 'self' and func.cls:
                m = repo.classes.get(func.cls, {}).get(name)
                return [m] if m else []
            hint = recv.attr if isinstance(recv, ast.Attribute) else (recv.id if isinstance(recv, ast.Name) else None)
            if hint in RECV_CLASS:
                out = [repo.classes[c][name] for c in RECV_CLASS[hint] if name in repo.classes.get(c, {})]
                if out:
                    return out
            if isinstance(recv, ast.Name) and recv.id in repo.classes:      # Class.static(...)
                m = repo.classes[recv.id].get(name)
                return [m] if m else []
            # unique method name across the repository (not for names shared with built-in containers / strings)
            if name in MUTATORS or name in ('join', 'format', 'count', 'index', 'split', 'replace', 'strip', 'get', 'keys', 'values', 'items', 'strftime', 'total_seconds', 'solve', 'copy'):
                return []
            cands = [c[name] for c in repo.classes.values() if name in c]
            if len(cands) == 1:
                return cands
        return []

    # ---- provenance -----------------------------------------------------------------------------------------------
    def analyse(self, func):
        if func in self.summaries:
            return self.summaries[func]
        if func in self._busy:
            return []
        self._busy.add(func)
        A = _FuncAnalysis(self, func)
        events, ret, calls = A.run()
        self._busy.discard(func)
        self.summaries[func] = events
        self.ret[func] = ret
        self.calls[func] = calls
        return events

    def reachable(self, roots):
        seen, todo = [], list(roots)
        while todo:
            f = todo.pop()
            if f in seen:
                continue
            seen.append(f)
            self.analyse(f)
            for node, cs in self.calls.get(f, []):
                todo += cs
        return seen


class _FuncAnalysis:
    def __init__(self, eff, func):
        self.eff, self.func = eff, func
        self.params = func.params
        self.bind = {}      # local name -> list of value exprs / ('elem', expr) / ('unpack', expr)
        self.contents = {}  # local name -> [('val' | 'elems', expr)]: what is put INTO the container bound to the name
        self.collect_bindings()
        self.collect_contents()
        self._memo = {}
        # flow-sensitive view: reaching definitions of local names at every statement
        from .cfg import CFG
        try:
            self.cfg = CFG(func.node)
            self.rd = self.cfg.reaching()
        except Exception:
            self.cfg, self.rd = None, {}
        self.node_map = {}
        if self.cfg is not None:
            for n in self.cfg.nodes:
                if n.ast is None:
                    continue
                if n.kind == 'loop':
                    parts = [n.ast.iter, n.ast.target] if isinstance(n.ast, ast.For) else [n.ast.test]
                elif n.kind == 'test':
                    parts = [n.ast.test] if hasattr(n.ast, 'test') else [n.ast]
                elif isinstance(n.ast, ast.With):
                    parts = [i.context_expr for i in n.ast.items]
                elif isinstance(n.ast, ast.Try):
                    parts = []
                else:
                    parts = [n.ast]
                for p_ in parts:
                    for x in ast.walk(p_):
                        self.node_map.setdefault(id(x), n)
        self.at = None      # CFG node of the statement being analysed

    def def_source(self, name, nid):
        """binding source of `name` established at CFG node nid -> list of (kind, expr)"""
        n = self.cfg.nodes[nid]
        a = n.ast
        out = []
        def from_target(t, src):
            if isinstance(t, ast.Name):
                if t.id == name:
                    out.append(src)
            elif isinstance(t, (ast.Tuple, ast.List)):
                for e in t.elts:
                    from_target(e, ('elem', src[1]))
            elif isinstance(t, ast.Starred):
                from_target(t.value, ('elem', src[1]))
        if n.kind == 'loop' and isinstance(a, ast.For):
            from_target(a.target, ('elem', a.iter))
        elif isinstance(a, ast.Assign):
            for t in a.targets:
                if isinstance(t, (ast.Tuple, ast.List)) and isinstance(a.value, (ast.Tuple, ast.List)) and len(t.elts) == len(a.value.elts):
                    for te, ve in zip(t.elts, a.value.elts):
                        from_target(te, ('val', ve))
                else:
                    from_target(t, ('val', a.value))
        elif isinstance(a, ast.AnnAssign) and a.value is not None:
            from_target(a.target, ('val', a.value))
        elif isinstance(a, ast.With):
            for it in a.items:
                if it.optional_vars is not None:
                    from_target(it.optional_vars, ('val', it.context_expr))
        return out

    def collect_bindings(self):
        def bind_target(t, src):
            if isinstance(t, ast.Name):
                self.bind.setdefault(t.id, []).append(src)
            elif isinstance(t, (ast.Tuple, ast.List)):
                for e in t.elts:
                    bind_target(e, ('elem', src[1]))
            elif isinstance(t, ast.Starred):
                bind_target(t.value, ('elem', src[1]))
        for n in ast.walk(self.func.node):
            if isinstance(n, ast.Assign):
                for t in n.targets:
                    if isinstance(t, (ast.Tuple, ast.List)) and isinstance(n.value, (ast.Tuple, ast.List)) and len(t.elts) == len(n.value.elts):
                        for te, ve in zip(t.elts, n.value.elts):
                            bind_target(te, ('val', ve))
                    else:
                        bind_target(t, ('val', n.value))
            elif isinstance(n, ast.AnnAssign) and n.value is not None:
                bind_target(n.target, ('val', n.value))
            elif isinstance(n, ast.AugAssign) and isinstance(n.target, ast.Name):
                self.bind.setdefault(n.target.id, []).append(('aug', n.value))
            elif isinstance(n, (ast.For, ast.comprehension)):
                it = n.iter
                # enumerate(x) / zip(x, y): elements of the arguments
                bind_target(n.target, ('elem', it))
            elif isinstance(n, ast.With):
                for item in n.items:
                    if item.optional_vars is not None:
                        bind_target(item.optional_vars, ('val', item.context_expr))
            elif isinstance(n, ast.NamedExpr):
                bind_target(n.target, ('val', n.value))

    def collect_contents(self):
        """x.append(v) / x.extend(vs) / x += vs / x[k] = v / x.insert(k, v) / x.add(v) / x.setdefault(k, v) / x.update(d) on a local
        name: a list created here is only *deeply* fresh while everything put into it is"""
        for n in ast.walk(self.func.node):
            if isinstance(n, ast.Call) and isinstance(n.func, ast.Attribute) and isinstance(n.func.value, ast.Name) and n.args:
                nm, m = n.func.value.id, n.func.attr
                if m in ('append', 'add', 'appendleft'):
                    self.contents.setdefault(nm, []).append(('val', n.args[0]))
                elif m in ('extend', 'update', 'extendleft'):
                    self.contents.setdefault(nm, []).append(('elems', n.args[0]))
                elif m in ('insert', 'setdefault') and len(n.args) >= 2:
                    self.contents.setdefault(nm, []).append(('val', n.args[1]))
            elif isinstance(n, ast.AugAssign) and isinstance(n.target, ast.Name) and isinstance(n.op, ast.Add):
                self.contents.setdefault(n.target.id, []).append(('elems', n.value))
            elif isinstance(n, (ast.Assign, ast.AugAssign)):
                for t in (n.targets if isinstance(n, ast.Assign) else [n.target]):
                    for tt in (t.elts if isinstance(t, (ast.Tuple, ast.List)) else [t]):
                        if isinstance(tt, ast.Subscript) and isinstance(tt.value, ast.Name):
                            self.contents.setdefault(tt.value.id, []).append(('elems' if isinstance(tt.slice, ast.Slice) else 'val', n.value))
                        elif isinstance(tt, ast.Subscript) and isinstance(tt.value, ast.Subscript) and isinstance(tt.value.value, ast.Name):
                            self.contents.setdefault(tt.value.value.id, []).append(('val', n.value))

    def with_contents(self, name, p, depth):
        """a deeply fresh local container stops being deep when something that is not itself deeply fresh is put into it"""
        if not (is_fresh(p) and p[1]) or name not in self.contents or depth > 6:
            return p
        key = ('contents', name)
        if key in self._memo:
            return FRESH if self._memo[key] else p
        self._memo[key] = False
        shallow = False
        for kind, e in self.contents[name]:
            q = self.prov(e, depth + 1) if kind == 'val' else self.elem_of(self.prov_iter(e, depth + 1))
            if not (is_fresh(q) and q[1]):
                shallow = True
                break
        self._memo[key] = shallow
        return FRESH if shallow else p

    def prov_name(self, name, depth=0):
        return self.with_contents(name, self.prov_name0(name, depth), depth)

    def prov_name0(self, name, depth=0):
        if name == 'self' and self.func.cls and not self.func.is_static:
            return path('self')
        if name in self.params and name not in self.bind:
            return path('param:' + name)
        if self.at is not None and self.cfg is not None and name in self.rd.get(self.at.id, {}) and name not in ('self',):
            defs = self.rd[self.at.id][name]
            key = ('rd', name, self.at.id)
            if key in self._memo:
                return self._memo[key]
            self._memo[key] = FRESH_DEEP
            p = None
            saved = self.at
            for d in sorted(defs):
                if d == -1:
                    q = path('param:' + name)
                else:
                    srcs = self.def_source(name, d)
                    if not srcs:
                        continue                     # augmented assignment: keeps what it had
                    q = None
                    self.at = self.cfg.nodes[d]
                    for kind, e in srcs:
                        q = join(q, self.prov(e, depth + 1) if kind == 'val' else self.elem_of(self.prov_iter(e, depth + 1)))
                    self.at = saved
                p = join(p, q)
            self.at = saved
            p = p or FRESH_DEEP
            self._memo[key] = p
            return p
        if name in self.bind:
            key = ('n', name)
            if key in self._memo:
                return self._memo[key]
            self._memo[key] = FRESH_DEEP      # cycle breaker (x = x + [..])
            p = path('param:' + name) if name in self.params else None
            for src in self.bind[name]:
                kind, e = src
                if kind == 'val':
                    q = self.prov(e, depth + 1)
                elif kind == 'aug':
                    q = FRESH_DEEP            # x += v rebinds for immutables; for lists it extends x itself: x keeps its provenance
                    continue
                else:
                    q = self.elem_of(self.prov_iter(e, depth + 1))
                p = join(p, q)
            p = p or FRESH_DEEP
            self._memo[key] = p
            return p
        if name in self.eff.repo.classes or name in self.eff.repo.funcs_by_name:
            return FRESH_DEEP
        return path('global:' + name)

    def prov_iter(self, e, depth):
        """provenance of the container whose elements an iteration yields"""
        if isinstance(e, ast.Call) and isinstance(e.func, ast.Name) and e.func.id in ('enumerate', 'zip', 'reversed', 'sorted', 'list', 'tuple', 'iter') and e.args:
            p = None
            for a in e.args:
                p = join(p, self.prov_iter(a, depth + 1))
            # the tuples produced are fresh but their components are the elements of the arguments
            return p
        if isinstance(e, ast.Call) and isinstance(e.func, ast.Name) and e.func.id == 'range':
            return FRESH_DEEP
        return self.prov(e, depth)

    def elem_of(self, p):
        if is_fresh(p):
            return FRESH_DEEP if p[1] else path('global:<element of a fresh container>')
        return ('path', p[1], p[2] + ('[]',))

    def prov(self, e, depth=0):
        if depth > 40:
            return path('global:<deep>')
        if isinstance(e, ast.Name):
            return self.prov_name(e.id, depth)
        if isinstance(e, ast.Attribute):
            p = self.prov(e.value, depth + 1)
            if is_fresh(p):
                return path('global:<attribute of a fresh object>') if not p[1] else FRESH_DEEP
            return ('path', p[1], p[2] + (e.attr,))
        if isinstance(e, ast.Subscript):
            if isinstance(e.slice, ast.Slice):
                p = self.prov(e.value, depth + 1)
                return ('fresh', is_fresh(p) and p[1])          # a slice is a new list (elements shared)
            return self.elem_of(self.prov(e.value, depth + 1))
        if isinstance(e, (ast.Constant, ast.JoinedStr, ast.Compare, ast.BoolOp, ast.UnaryOp, ast.Lambda)):
            if isinstance(e, ast.BoolOp):
                p = None
                for v in e.values:
                    p = join(p, self.prov(v, depth + 1))
                return p
            return FRESH_DEEP
        if isinstance(e, ast.BinOp):
            l, r = self.prov(e.left, depth + 1), self.prov(e.right, depth + 1)
            return ('fresh', (is_fresh(l) and l[1]) and (is_fresh(r) and r[1]) or isinstance(e.op, (ast.Mod,)) )
        if isinstance(e, (ast.List, ast.Tuple, ast.Set)):
            deep = all(is_fresh(self.prov(x, depth + 1)) and self.prov(x, depth + 1)[1] for x in e.elts)
            return ('fresh', deep)
        if isinstance(e, ast.Dict):
            return ('fresh', all(v is not None and is_fresh(self.prov(v, depth + 1)) and self.prov(v, depth + 1)[1] for v in e.values))
        if isinstance(e, (ast.ListComp, ast.SetComp, ast.GeneratorExp)):
            p = self.prov(e.elt, depth + 1)
            return ('fresh', is_fresh(p) and p[1])
        if isinstance(e, ast.DictComp):
            p = self.prov(e.value, depth + 1)
            return ('fresh', is_fresh(p) and p[1])
        if isinstance(e, ast.IfExp):
            return join(self.prov(e.body, depth + 1), self.prov(e.orelse, depth + 1))
        if isinstance(e, ast.Call):
            fn = e.func
            if isinstance(fn, ast.Name) and fn.id in FRESH_BUILTINS:
                if fn.id in ('list', 'tuple', 'sorted', 'reversed', 'set', 'frozenset', 'dict') and e.args:
                    p = self.prov(e.args[0], depth + 1)
                    return ('fresh', is_fresh(p) and p[1])
                if fn.id in ('getattr', 'next', 'max', 'min') and e.args:
                    return self.elem_of(self.prov(e.args[0], depth + 1)) if fn.id != 'getattr' else self.prov(ast.Attribute(value=e.args[0], attr='?', ctx=ast.Load()), depth + 1)
                return FRESH_DEEP
            callees = self.eff.resolve(self.func, e)
            if callees:
                p = None
                for c in callees:
                    if c.name == '__init__':
                        q = FRESH
                    else:
                        self.eff.analyse(c)
                        q = self.reroot(self.eff.ret.get(c, FRESH_DEEP), c, e)
                    p = join(p, q)
                return p
            if isinstance(fn, ast.Attribute):
                if fn.attr in ('copy', 'deepcopy', 'join', 'format', 'split', 'strip', 'replace', 'strftime', 'total_seconds', 'count', 'index', 'keys', 'values', 'items', 'lower', 'upper'):
                    return FRESH if fn.attr in ('copy', 'values', 'items') else FRESH_DEEP
                if fn.attr in ('get', 'pop', 'setdefault'):
                    return self.elem_of(self.prov(fn.value, depth + 1))
            nm_ = fn.id if isinstance(fn, ast.Name) else (fn.attr if isinstance(fn, ast.Attribute) else '')
            if nm_ in ('defaultdict', 'Counter', 'deque', 'OrderedDict') and all(
                    (isinstance(a, ast.Name) and a.id in ('list', 'int', 'set', 'dict', 'float', 'str', 'tuple', 'bool'))
                    or (isinstance(a, ast.Lambda) and isinstance(a.body, (ast.List, ast.Dict, ast.Set, ast.Constant, ast.Tuple)) and not any(isinstance(y, ast.Name) for y in ast.walk(a.body)))
                    for a in e.args) and not e.keywords:
                return FRESH_DEEP   # an empty collection whose slots are created by its own factory (contents: see with_contents)
            return FRESH            # library call (LpVariable(...), datetime.now(), np...) -> a new object
        if isinstance(e, ast.Starred):
            return self.prov(e.value, depth + 1)
        return FRESH

    def reroot(self, p, callee, call):
        """provenance expressed in the callee's roots -> the caller's"""
        if p is None or is_fresh(p):
            return p
        root, names = p[1], p[2]
        if root == 'self':
            if callee.name == '__init__' and isinstance(call.func, ast.Name):
                return FRESH
            recv = call.func.value if isinstance(call.func, ast.Attribute) else None
            base = self.prov(recv) if recv is not None else path('global:?')
        elif root.startswith('param:'):
            pname = root.split(':', 1)[1]
            params = [a for a in callee.params if not (a == 'self' and callee.cls and not callee.is_static)]
            base = None
            if pname in params:
                k = params.index(pname)
                if k < len(call.args):
                    base = self.prov(call.args[k])
                for kw in call.keywords:
                    if kw.arg == pname:
                        base = self.prov(kw.value)
            if base is None:
                base = FRESH_DEEP           # default value
        else:
            return p
        if is_fresh(base):
            if not names:
                return base
            return FRESH_DEEP if base[1] else path('global:<part of a fresh object>')
        return ('path', base[1], base[2] + names)

    # ---- events -----------------------------------------------------------------------------------------------------
    def run(self):
        events, calls = [], []
        rets = None
        f = self.func
        for n in ast.walk(f.node):
            self.at = self.node_map.get(id(n))
            if isinstance(n, (ast.Assign, ast.AugAssign, ast.AnnAssign)):
                targets = n.targets if isinstance(n, ast.Assign) else [n.target]
                acc = isinstance(n, ast.AugAssign)
                for t in targets:
                    for tt in (t.elts if isinstance(t, (ast.Tuple, ast.List)) else [t]):
                        if isinstance(tt, ast.Attribute):
                            p = self.prov(tt.value)
                            if not is_fresh(p):
                                events.append(Event('attr-acc' if acc else 'attr-store', p, f, n, tt.attr))
                        elif isinstance(tt, ast.Subscript):
                            p = self.prov(tt.value)
                            if not is_fresh(p):
                                events.append(Event('item-acc' if acc else 'item-store', p, f, n, None))
            elif isinstance(n, ast.Delete):
                for t in n.targets:
                    if isinstance(t, (ast.Subscript, ast.Attribute)):
                        p = self.prov(t.value)
                        if not is_fresh(p):
                            events.append(Event('del', p, f, n, getattr(t, 'attr', None)))
            elif isinstance(n, ast.Call):
                cs = self.eff.resolve(f, n)
                if cs:
                    calls.append((n, cs))
                    for c in cs:
                        for ev in self.eff.analyse(c):
                            p = self.reroot(ev.prov, c, n)
                            if p is None or is_fresh(p):
                                continue
                            events.append(Event(ev.kind, p, ev.func, ev.node, ev.attr, ev.chain + (f,)))
                elif isinstance(n.func, ast.Attribute) and n.func.attr in MUTATORS:
                    p = self.prov(n.func.value)
                    if not is_fresh(p):
                        events.append(Event('method', p, f, n, n.func.attr))
            elif isinstance(n, ast.Return) and n.value is not None:
                rets = join(rets, self.prov(n.value))
        return events, (rets or FRESH_DEEP), calls
