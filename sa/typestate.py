"""C14.R1 solve/check typestate over the (specialised, inlined) effect tree of the LP run.

States of the LP problem's *latest solve*:
  init       no solve yet (status is 'Not Solved')
  unchecked  a solve happened and nothing has looked at its status yet
  clean      the latest solve's status was tested and found Optimal on this path
  failed     a non-Optimal status was observed on this path

Violations:  a solve issued while `unchecked` (a non-Optimal outcome of the previous solve would be overwritten), or
while `failed` (the run goes on solving after having seen a non-Optimal status).
Control flow is followed through calls (returns resume after the call), loops run to a fixpoint over the finite
state set, and conditions on the solve status split the state set (value-sensitive: a helper that returns the
comparison is inlined as that comparison)."""
from .terms import *
from .absint import iter_effects


def status_polarity(cond, optimal_terms):
    """-> ('opt', True/False) when cond (resp. its negation) means 'status is Optimal';
          ('other', None) when it tests the status against something else; None when it is not a status test."""
    def has_status(t):
        return contains(t, lambda x: x[0] == 'attr' and x[2] == 'status')
    if not has_status(cond):
        return None
    neg = False
    c = cond
    while c[0] == 'not':
        neg = not neg
        c = c[1]
    if c[0] == 'cmp' and c[1] in ('Eq', 'NotEq', 'Is', 'IsNot'):
        a, b = c[2], c[3]
        side, other = (a, b) if has_status(a) else (b, a)
        raw = side[0] == 'attr' and side[2] == 'status'          # the integer code itself, not the LpStatus[...] string
        if raw:
            codes = {x[1] for x in optimal_terms if isinstance(x, tuple) and x and x[0] == 'rawcode'}
            if other in codes:
                is_eq = c[1] in ('Eq', 'Is')
                return ('opt', is_eq != neg)
            return ('other', None)
        if other in optimal_terms:
            is_eq = c[1] in ('Eq', 'Is')
            return ('opt', is_eq != neg)
        return ('other', None)
    return ('other', None)


def counter_test(cond):
    """cond compares an attribute with the literal 0 -> (attribute term, truth of the test when the attribute IS 0), else None"""
    neg = False
    c = cond
    while c[0] == 'not':
        neg, c = not neg, c[1]
    if c[0] == 'cmp' and c[2][0] == 'attr' and c[3] == C(0) and c[1] in ('Eq', 'NotEq', 'Gt', 'LtE', 'GtE', 'Lt'):
        zero = {'Eq': True, 'NotEq': False, 'Gt': False, 'LtE': True}.get(c[1])
        if zero is None:
            return None
        return c[2], (zero != neg)
    if c[0] == 'attr' and c[2] != 'status':
        return c, neg                        # truthiness of the counter: true when it is not 0
    return None


class Walker:
    """state = (latest-solve state, latest solve effect, counters) where counters is a frozenset of (attribute, 'zero'|'pos')
    for attributes that are set to the literal 0 and only ever incremented (a solve counter, a 'solved' flag)"""
    def __init__(self, optimal_terms):
        self.optimal_terms = optimal_terms
        self.violations = []     # (kind, solve event effect, previous solve effect)
        self.solves = 0
        self.checks = 0
        self.solve_states = {}   # id(solve effect) -> set of latest-solve states in which it can be issued

    @staticmethod
    def _st(s):
        return s if len(s) == 3 else (s[0], s[1], frozenset())

    def count_vals(self, e, st):
        """abstract value of a counter expression in state st -> [(zero | pos | None, state refined by the tests passed)]"""
        if e[0] == 'const' and isinstance(e[1], (int, float)) and not isinstance(e[1], bool):
            return [('zero' if e[1] == 0 else ('pos' if e[1] > 0 else None), st)]
        if e[0] == 'attr':
            return [(dict(self._st(st)[2]).get(e), st)]
        if e[0] == 'ite':
            t, f = self.split(e[1], {st})
            out = []
            for s2 in t:
                out += self.count_vals(e[2], s2)
            for s2 in f:
                out += self.count_vals(e[3], s2)
            return out
        if e[0] == 'bin' and e[1] == 'Add':
            out = []
            for va, s2 in self.count_vals(e[2], st):
                for vb, s3 in self.count_vals(e[3], s2):
                    out.append(('pos' if 'pos' in (va, vb) else ('zero' if (va, vb) == ('zero', 'zero') else None), s3))
            return out
        return [(None, st)]

    def split(self, cond, cur):
        """-> (states in which cond holds, states in which it does not), refining the states by what the test reveals"""
        c = cond
        if c[0] == 'call' and c[1] == ('sym', '__until_break__') and len(c[2]) == 1:
            return self.split(c[2][0], cur)          # "the loop was not left before": the same test, remembered
        if c[0] == 'ite':
            # a helper that returns  False if a else b  /  a if c else b : as and / or (same value, same evaluation order)
            from .terms import boolify
            c2 = boolify(c)
            if c2[0] != 'ite':
                return self.split(c2, cur)
            # general conditional: on the states where the test holds the value is the first branch, elsewhere the second
            t0, f0 = self.split(c[1], cur)
            t1, f1 = self.split(c[2], t0) if t0 else (set(), set())
            t2, f2 = self.split(c[3], f0) if f0 else (set(), set())
            return t1 | t2, f1 | f2
        if c[0] == 'not':
            t, f = self.split(c[1], cur)
            return f, t
        if c[0] == 'bool':
            if c[1] == 'and':
                t, f = set(cur), set()
                for x in c[2]:
                    t, f1 = self.split(x, t)
                    f |= f1
                return t, f
            t, f = set(), set(cur)
            for x in c[2]:
                t1, f = self.split(x, f)
                t |= t1
            return t, f
        # a counter expression compared with 0:  (c ? n : 1) + 1 == 0,  n + m > 0 ...  evaluated over {zero, pos} per state
        if c[0] == 'cmp' and c[3] == C(0) and c[1] in ('Eq', 'NotEq', 'Gt', 'LtE') and c[2][0] in ('ite', 'bin') \
                and any(contains(c[2], lambda x, a=a: x == a) for st in cur for a, _ in self._st(st)[2]):
            t, f = set(), set()
            zero_true = {'Eq': True, 'NotEq': False, 'Gt': False, 'LtE': True}[c[1]]
            for st in cur:
                for val, st2 in self.count_vals(c[2], st):
                    if val is None:
                        t.add(st2); f.add(st2)
                    elif (val == 'zero') == zero_true:
                        t.add(st2)
                    else:
                        f.add(st2)
            return t, f
        # the counter against an earlier snapshot of itself:  self.n > before  <=>  it was incremented since `before = self.n`
        if c[0] == 'cmp' and c[1] in ('Gt', 'NotEq', 'Eq', 'LtE', 'Lt', 'GtE') and ((c[2][0] == 'attr' and c[3][0] == 'snap' and c[3][1] == c[2]) or (c[3][0] == 'attr' and c[2][0] == 'snap' and c[2][1] == c[3])):
            snap = c[3] if c[3][0] == 'snap' else c[2]
            op = c[1] if c[3][0] == 'snap' else {'Gt': 'Lt', 'Lt': 'Gt', 'LtE': 'GtE', 'GtE': 'LtE'}.get(c[1], c[1])
            # attr OP snap with delta = attr - snap in {zero, pos}
            true_when = {'Gt': 'pos', 'NotEq': 'pos', 'Eq': 'zero', 'LtE': 'zero', 'Lt': 'never', 'GtE': 'always'}[op]
            t, f = set(), set()
            for st in cur:
                v = dict(self._st(st)[2]).get(('snapdelta', snap[2]))
                if true_when == 'always' or (v is not None and v == true_when):
                    t.add(st)
                elif true_when == 'never' or v is not None:
                    f.add(st)
                else:
                    t.add(st); f.add(st)
            return t, f
        ct = counter_test(c)
        if ct is not None and any(ct[0] == a for st in cur for a, _ in self._st(st)[2]):
            attr, true_when_zero = ct
            t, f = set(), set()
            for st in cur:
                v = dict(self._st(st)[2]).get(attr)
                if v is None:
                    t.add(st); f.add(st)
                elif (v == 'zero') == true_when_zero:
                    t.add(st)
                else:
                    f.add(st)
            return t, f
        pol = status_polarity(c, self.optimal_terms)
        if pol is None:
            return set(cur), set(cur)
        self.checks += 1
        t_states, f_states = set(), set()
        for full in cur:
            st, last, cnt = self._st(full)
            if pol[0] == 'opt':
                opt_when_true = pol[1]
                if st in ('unchecked',):
                    (t_states if opt_when_true else f_states).add(('clean', last, cnt))
                    (f_states if opt_when_true else t_states).add(('failed', last, cnt))
                elif st == 'clean':
                    (t_states if opt_when_true else f_states).add((st, last, cnt))
                elif st in ('failed', 'init'):
                    (f_states if opt_when_true else t_states).add(('failed', last, cnt))
            else:
                # tested against something that is not the Optimal constant: learns nothing about optimality
                if st == 'unchecked':
                    t_states.add(('failed', last, cnt))
                    f_states.add(('unchecked', last, cnt))
                else:
                    t_states.add((st, last, cnt))
                    f_states.add((st, last, cnt))
        return t_states, f_states

    def walk(self, effs, states):
        """states: frozenset of (state, last solve effect id or None).  Returns dict(fall, ret, brk, cont)."""
        cur = set(states)
        ret, brk, cont = set(), set(), set()
        i = 0
        while i < len(effs):
            e = effs[i]
            if not cur:
                break
            k = e.kind
            if k == 'solve':
                self.solves += 1
                new = set()
                for full in cur:
                    st, last, cnt = self._st(full)
                    self.solve_states.setdefault(id(e), set()).add(st)
                    if st == 'unchecked':
                        self.violations.append(('unchecked', e, last))
                    elif st == 'failed':
                        self.violations.append(('failed', e, last))
                    if getattr(self, 'loop_stack', None):
                        d_ = dict(cnt)
                        for lid_ in self.loop_stack:
                            d_[('insolve', lid_)] = 'pos'
                        cnt = frozenset(d_.items())
                    new.add(('unchecked', e, cnt))
                cur = new
            elif k == 'snap':
                new = set()
                for full in cur:
                    st, last, cnt = self._st(full)
                    d = dict(cnt)
                    d[('snapdelta', e.sid)] = 'zero'
                    d[('snapof', e.sid)] = e.attr
                    new.add((st, last, frozenset(d.items())))
                cur = new
            elif k in ('store', 'augstore') and e.target[0] == 'attr' and e.target[2] != 'status' and \
                    ((k == 'store' and e.value in (C(0), C(False))) or (k == 'augstore' and e.op == 'Add' and e.value == C(1)) or (k == 'store' and e.value == C(True))):
                # a counter / flag: reset to 0 (False), incremented (set True)
                val = 'zero' if (k == 'store' and e.value in (C(0), C(False))) else 'pos'
                new = set()
                for full in cur:
                    st, last, cnt = self._st(full)
                    d = dict(cnt)
                    if val == 'pos' and k == 'store' and e.target not in d:
                        new.add((st, last, cnt))          # a flag we never saw reset: not tracked
                        continue
                    if val == 'pos' and k == 'augstore' and e.target not in d:
                        new.add((st, last, cnt))
                        continue
                    d[e.target] = val
                    for key in list(d):
                        if key[0] == 'snapof' and d[key] == e.target:
                            if k == 'augstore':
                                d[('snapdelta', key[1])] = 'pos'          # incremented since the snapshot
                            else:
                                d.pop(('snapdelta', key[1]), None)        # reset: the relation to the snapshot is lost
                    new.add((st, last, frozenset(d.items())))
                cur = new
            elif k == 'if':
                synthetic = getattr(e, 'synthetic', False)   # "rest of the block" after a branch that left: no else path
                t_states, f_states = self.split(e.cond, cur)
                r1 = self.walk(e.then, frozenset(t_states))
                r2 = self.walk(e.orelse, frozenset() if synthetic else frozenset(f_states))
                cur = r1['fall'] | r2['fall']
                ret |= r1['ret'] | r2['ret']
                brk |= r1['brk'] | r2['brk']
                cont |= r1['cont'] | r2['cont']
            elif k in ('for', 'while'):
                seen = set(cur)
                frontier = set(cur)
                out_brk = set()
                rounds = 0
                # a loop that solves once per element (the per-rank loops of greedy / generous): leaving it right after a solve
                # that WAS Optimal skips the remaining elements - legitimate exits follow a non-Optimal status
                lid_ = id(e)
                solving = k == 'for' and any(x.kind == 'solve' for x, _ in iter_effects(e.body))
                if not hasattr(self, 'loop_stack'):
                    self.loop_stack = []
                def untag(states_):
                    out_ = set()
                    for full_ in states_:
                        st_, last_, cnt_ = self._st(full_)
                        out_.add((st_, last_, frozenset(kv for kv in cnt_ if kv[0] != ('insolve', lid_))))
                    return out_
                while frontier and rounds < 8:
                    rounds += 1
                    if solving:
                        self.loop_stack.append(lid_)
                        frontier = untag(frontier)
                    try:
                        r = self.walk(e.body, frozenset(frontier))
                    finally:
                        if solving:
                            self.loop_stack.pop()
                    if solving:
                        for full_ in r['brk'] | r['ret']:
                            st_, last_, cnt_ = self._st(full_)
                            if st_ == 'clean' and (('insolve', lid_), 'pos') in cnt_:
                                self.violations.append(('loop-early-exit', e, last_))
                        r = {k_: untag(v_) for k_, v_ in r.items()}
                    ret |= r['ret']
                    out_brk |= r['brk']
                    nxt = (r['fall'] | r['cont']) - seen
                    seen |= nxt
                    frontier = nxt
                cur = seen | out_brk
            elif k == 'iter':
                # unrolled iterations of one loop are consecutive siblings with the same source line
                j = i
                group = []
                while j < len(effs) and effs[j].kind == 'iter' and effs[j].line == e.line and effs[j].func is e.func:
                    group.append(effs[j])
                    j += 1
                out_brk = set()
                for gi_, it in enumerate(group):
                    r = self.walk(it.body, frozenset(cur))
                    if gi_ < len(group) - 1 and len(group) > 1 and getattr(it, 'value', None) is not None and it.value[0] == 'tuple' and it.value[1] \
                            and is_enum_member(it.value[1][0]):
                        # the run is left in the middle of the criterion list: legitimate only after a non-Optimal status was seen
                        for full_ in r['ret']:
                            if self._st(full_)[0] in ('init', 'clean'):
                                self.violations.append(('early-exit', it, self._st(full_)[1]))
                    ret |= r['ret']
                    out_brk |= r['brk']
                    cur = r['fall'] | r['cont']
                cur = cur | out_brk
                i = j
                continue
            elif k == 'call':
                r = self.walk(e.body, frozenset(cur))
                cur = r['fall'] | r['ret']
            elif k == 'return' or k == 'raise':
                ret |= cur
                cur = set()
            elif k == 'break':
                brk |= cur
                cur = set()
            elif k == 'continue':
                cont |= cur
                cur = set()
            i += 1
        return {'fall': cur, 'ret': ret, 'brk': brk, 'cont': cont}
