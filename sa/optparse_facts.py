"""Facts about the solver's option parser, extracted by abstract interpretation of Options_parser.parse
(argparse table, criterion tuples, guards that end in parser.error, their order)."""
import ast

from .terms import *
from .absint import Interp, iter_effects, dump
from .loader import AnalysisError

_cache = {}


class ArgSpec:
    def __init__(self, flags, kw, line):
        self.flags, self.kw, self.line = flags, kw, line
        self.dest = kw.get('dest')
        if self.dest is None and flags:
            # argparse (_get_optional_kwargs): the first option string with TWO prefix characters, else the first one
            longs = [f_ for f_ in flags if len(f_) > 1 and f_[1] == '-']
            self.dest = (longs[0] if longs else flags[0]).lstrip('-').replace('-', '_')
        self.action = kw.get('action', 'store')
        self.nargs = kw.get('nargs')
        self.type = kw.get('type')
        self.required = bool(kw.get('required', False))
        self.choices = kw.get('choices')
        if 'default' in kw:
            self.default = kw['default']
        elif self.action == 'store_true':
            self.default = False
        elif self.action == 'store_false':
            self.default = True
        else:
            self.default = None

    def __repr__(self):
        return 'Arg(%s dest=%s action=%s nargs=%s type=%s req=%s default=%r)' % (self.flags, self.dest, self.action, self.nargs, self.type, self.required, self.default)


def enum_listing(v, repo):
    """[m.name.lower() for m in SomeEnum] / [m.name for ...] / [m.value for ...] over an Enum class of the package whose
    members are plain assignments: the literal list it denotes (None when v is not of that shape)."""
    if repo is None or not (isinstance(v, (ast.ListComp, ast.GeneratorExp)) and len(v.generators) == 1 and not v.generators[0].ifs):
        if isinstance(v, ast.Call) and isinstance(v.func, ast.Name) and v.func.id in ('list', 'tuple', 'sorted') and len(v.args) == 1 and not v.keywords:
            inner = enum_listing(v.args[0], repo)
            return (sorted(inner) if v.func.id == 'sorted' else inner) if inner is not None else None
        return None
    g = v.generators[0]
    if not (isinstance(g.target, ast.Name) and isinstance(g.iter, ast.Name)):
        return None
    members = None
    for rel, tree in repo.trees.items():
        for n in tree.body:
            if isinstance(n, ast.ClassDef) and n.name == g.iter.id and any(ast.unparse(b).split('.')[-1] in ('Enum', 'IntEnum') for b in n.bases):
                if any(isinstance(m, ast.FunctionDef) and m.name in ('__iter__', '_missing_', '__new__') for m in n.body):
                    return None
                members = repo.enum_members(rel, n.name)
    if members is None:
        return None
    var = g.target.id
    txt = ast.unparse(v.elt)
    forms = {var + '.name.lower()': lambda nm, val: nm.lower(), var + '.name': lambda nm, val: nm, var + '.value': lambda nm, val: val,
             var + '.name.upper()': lambda nm, val: nm.upper()}
    if txt not in forms:
        return None
    return [forms[txt](nm, val) for nm, val in members]


def argparse_table(funcnode, repo=None):
    """All parser.add_argument(...) calls in a function (ast-level; constant arguments only)."""
    out = []
    for n in ast.walk(funcnode):
        if isinstance(n, ast.Call) and isinstance(n.func, ast.Attribute) and n.func.attr == 'add_argument':
            flags = [a.value for a in n.args if isinstance(a, ast.Constant) and isinstance(a.value, str)]
            kw = {}
            for k in n.keywords:
                v = k.value
                if isinstance(v, ast.Constant):
                    kw[k.arg] = v.value
                elif isinstance(v, ast.Name):
                    kw[k.arg] = v.id            # type=int -> 'int'
                elif isinstance(v, ast.List) and all(isinstance(e, ast.Constant) for e in v.elts):
                    kw[k.arg] = [e.value for e in v.elts]
                elif enum_listing(v, repo) is not None:
                    kw[k.arg] = enum_listing(v, repo)
                else:
                    kw[k.arg] = ('expr', ast.unparse(v))
            out.append(ArgSpec(flags, kw, n.lineno))
    return out


def argparse_alias(t):
    """ArgumentParser(...) -> PARSER ; PARSER.parse_args(..) -> args  (readable access paths)."""
    if t[0] == 'call' and show(t[1]).endswith('ArgumentParser'):
        return S('PARSER')
    if t[0] == 'call' and t[1] == A(S('PARSER'), 'parse_args'):
        return S('args')
    return None


class ParserFacts:
    """Effect tree of Options_parser.parse(arguments) with `args` symbolic."""
    def __init__(self, repo):
        self.repo = repo
        f = repo.method('Options_parser', 'parse')
        self.parse = f
        it = Interp(repo)
        it.aliases.append(argparse_alias)
        try:
            self.effs, _ = it.run(f, {})
        except Unknown as u:
            raise AnalysisError('Options_parser.parse outside the interpreted fragment: %s' % u)
        self.it = it
        self.args = argparse_table(repo.method('Options_parser', '_create_arg_parser').node, repo)
        self.by_dest = {a.dest: a for a in self.args}
        self.errors = []       # (effect, ctx) for parser.error(...) calls
        for e, ctx in iter_effects(self.effs):
            if e.kind == 'expr' and e.term[0] == 'call' and e.term[1][0] == 'attr' and e.term[1][2] == 'error':
                self.errors.append((e, ctx))

    def guards_of(self, ctx):
        return [(c.cond if br else NOT(c.cond)) for c, br in ctx if c.kind == 'if']


def parser_facts(repo):
    if repo.root not in _cache:
        _cache[repo.root] = ParserFacts(repo)
    return _cache[repo.root]
