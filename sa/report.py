"""Report / evidence / known-findings plumbing and exit-code discipline.

exit 0  every obligation discharged (known findings printed as KNOWN-FINDING lines)
exit 1  an obligation refuted inside the recognised fragment: VIOLATION property=<id> replay=<path>
exit 2  ANALYSIS-ERROR / ANALYSIS-INCONCLUSIVE (anchor vanished, construct left the fragment)
"""
import json, os, re, sys, time

VERIF = os.path.dirname(os.path.dirname(os.path.abspath(__file__)))


def evidence_dir():
    return os.environ.get('SA_EVIDENCE_DIR', os.path.join(VERIF, 'evidence'))


def norm_construct(s):
    """Normalise a construct description so keys survive reformatting (whitespace, quotes)."""
    s = re.sub(r'\s+', ' ', str(s)).strip()
    return s.replace('"', "'")


class Obligation:
    __slots__ = ('rule', 'where', 'desc', 'status', 'got', 'want', 'construct', 'loc')

    def __init__(self, rule, where, desc, status, got=None, want=None, construct=None, loc=None):
        self.rule, self.where, self.desc, self.status = rule, where, desc, status
        self.got, self.want, self.construct, self.loc = got, want, construct, loc

    def as_dict(self):
        d = {'rule': self.rule, 'where': self.where, 'obligation': self.desc, 'verdict': self.status}
        if self.loc:
            d['loc'] = self.loc
        if self.got is not None:
            d['extracted'] = self.got if isinstance(self.got, (str, int, float, bool, list, dict)) else str(self.got)
        if self.want is not None:
            d['required'] = self.want if isinstance(self.want, (str, int, float, bool, list, dict)) else str(self.want)
        if self.construct is not None:
            d['construct'] = self.construct
        return d


class Report:
    def __init__(self, pid, tier, repo):
        self.pid, self.tier, self.repo = pid, tier, repo
        self.t0 = time.time()
        self.obs = []
        self.rules = {}          # rule id -> description
        self.counts = {}         # free-form measured counters
        self.assumptions = []
        self.explanation = ''
        self.extra = {}
        self.selftest = None
        self.known = load_known()

    # ---- recording ---------------------------------------------------------------
    def rule(self, rid, text):
        self.rules[rid] = text

    def count(self, key, n=1):
        self.counts[key] = self.counts.get(key, 0) + n

    def ok(self, rule, where, desc, got=None, want=None, loc=None):
        self.obs.append(Obligation(rule, where, desc, 'discharged', got, want, None, loc))
        return True

    def fail(self, rule, where, desc, got=None, want=None, construct=None, loc=None):
        """A refuted obligation.  construct = normalised text identifying the offending construct
        (rule + where + construct is the known-findings key)."""
        c = norm_construct(construct if construct is not None else (got if got is not None else desc))
        st = 'refuted'
        for k in self.known:
            if (k.get('status') == 'known' and k.get('property') == self.pid and k.get('rule') == rule
                    and k.get('where') == where and norm_construct(k.get('construct', '')) == c):
                st = 'known'
        self.obs.append(Obligation(rule, where, desc, st, got, want, c, loc))
        return False

    def check(self, cond, rule, where, desc, got=None, want=None, construct=None, loc=None):
        if cond:
            return self.ok(rule, where, desc, got, want, loc)
        return self.fail(rule, where, desc, got, want, construct, loc)

    def inconclusive(self, rule, where, desc, got=None, loc=None):
        self.obs.append(Obligation(rule, where, desc, 'inconclusive', got, None, None, loc))
        return False

    # ---- finishing ---------------------------------------------------------------
    def finish(self):
        refuted = [o for o in self.obs if o.status == 'refuted']
        known = [o for o in self.obs if o.status == 'known']
        inconc = [o for o in self.obs if o.status == 'inconclusive']
        disch = [o for o in self.obs if o.status == 'discharged']
        edir = evidence_dir()
        os.makedirs(edir, exist_ok=True)
        replays = []
        if refuted:
            rdir = os.path.join(edir, 'replay')
            os.makedirs(rdir, exist_ok=True)
            for i, o in enumerate(refuted, 1):
                p = os.path.join(rdir, '%s-%d.json' % (self.pid, i))
                with open(p, 'w') as f:
                    json.dump({'property': self.pid, 'repo': self.repo.root, **o.as_dict(),
                               'rule_text': self.rules.get(o.rule, '')}, f, indent=1)
                replays.append(p)
        for o in known:
            print('KNOWN-FINDING: property=%s rule=%s %s %s' % (self.pid, o.rule, o.where, o.construct))
        # samples: a spread of actual obligations (all refuted/inconclusive, and up to 12 discharged from distinct rules)
        samples = [o.as_dict() for o in refuted + inconc + known]
        seen = {}
        for o in disch:
            if seen.get(o.rule, 0) < 2 and len(samples) < 40:
                seen[o.rule] = seen.get(o.rule, 0) + 1
                samples.append(o.as_dict())
        distinct = len({(o.rule, o.where, o.desc, str(o.got)) for o in self.obs if o.where})
        per_rule = {}
        for o in self.obs:
            d = per_rule.setdefault(o.rule, {'obligations': 0, 'discharged': 0})
            d['obligations'] += 1
            d['discharged'] += o.status == 'discharged'
        cov = {
            'explanation': self.explanation or 'static rules: ' + '; '.join('%s: %s' % kv for kv in sorted(self.rules.items())),
            'rules': self.rules,
            'per_rule': per_rule,
            'obligations': len(self.obs),
            'discharged': len(disch),
            'refuted': len(refuted),
            'inconclusive': len(inconc),
            'known_findings': len(known),
            'evaluations': max(1, len(self.obs)),
            'distinct_nontrivial': distinct,
            'rule': 'one evaluation = one rule instance bound to a repository construct (file::function, construct); '
                    'distinct_nontrivial counts distinct (rule, site, obligation, extracted form) tuples that bound at least one construct',
            'samples': samples or [{'note': 'no obligations'}],
            'modules_parsed': len(self.repo.trees),
            'source_digest': self.repo.digest(),
            'measured': self.counts,
            'checker_cmd': '/venv/bin/python -m sa.check %s --tier %s' % (self.pid, self.tier),
            'trusted_base': ['CPython ast parser', 'axioms A1-A6 of DESIGN.md section 4', 'oracle tables in sa/spec.py'],
            'exhaustive': not inconc,
        }
        cov.update(self.extra)
        if self.selftest is not None:
            cov['selftest'] = self.selftest
        ev = {
            'property_id': self.pid,
            'tier': self.tier,
            'seed': int(os.environ.get('VERIF_SEED', '0') or 0),
            'level': 'other',
            'coverage': cov,
            'assumptions': self.assumptions,
            'wall_s': round(time.time() - self.t0, 3),
            'violations': len(refuted),
        }
        with open(os.path.join(edir, '%s.json' % self.pid), 'w') as f:
            json.dump(ev, f, indent=1, default=str)
        code = 1 if refuted else (2 if inconc else 0)
        try:
            return self._print_summary(per_rule, disch, refuted, inconc, known, replays)
        except BrokenPipeError:
            # the reader of our output went away (e.g. `| head`): the verdict is the exit status
            try:
                sys.stdout = open(os.devnull, 'w')
            except OSError:
                pass
            return code

    def _print_summary(self, per_rule, disch, refuted, inconc, known, replays):
        print('%s %s: %d obligations, %d discharged, %d refuted, %d inconclusive, %d known (%.2fs)' % (
            self.pid, self.tier, len(self.obs), len(disch), len(refuted), len(inconc), len(known), time.time() - self.t0))
        for r, d in sorted(per_rule.items()):
            print('  %-10s %3d/%-3d %s' % (r, d['discharged'], d['obligations'], self.rules.get(r, '')[:100]))
        if refuted:
            for o, p in zip(refuted, replays):
                print('  REFUTED %s at %s (%s): %s | extracted: %s | required: %s' % (
                    o.rule, o.where, o.loc or '-', o.desc, _short(o.got), _short(o.want)))
                print('VIOLATION property=%s replay=%s' % (self.pid, p))
            return 1
        if inconc:
            for o in inconc:
                print('ANALYSIS-INCONCLUSIVE property=%s rule=%s at %s (%s): %s | %s' % (
                    self.pid, o.rule, o.where, o.loc or '-', o.desc, _short(o.got)))
            return 2
        return 0


def _short(x, n=300):
    s = str(x)
    return s if len(s) <= n else s[:n] + '...'


def load_known():
    p = os.path.join(VERIF, 'known_findings.json')
    if not os.path.exists(p):
        return []
    with open(p) as f:
        data = json.load(f)
    return data.get('findings', []) if isinstance(data, dict) else data
