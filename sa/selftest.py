"""Self-validation of the checkers on scratch copies (thorough tier; DESIGN.md section 7).

Variants live in /verif/seeded/<name>/patch.diff (+ meta.json naming the property).  Each is applied to a scratch copy of
$SA_REPO/matchingproblems under mktemp (outside /repo and /verif), the property's check is run on it in a subprocess
with evidence redirected to the scratch directory, and the scratch copy is removed at once.
Expected: kind 'break' -> exit 1; kind 'twin' (behaviour-preserving) -> exit 0.
The result is recorded in evidence; it never changes the verdict on the real tree."""
import json, os, shutil, subprocess, sys, tempfile
from concurrent.futures import ThreadPoolExecutor

from .report import VERIF
from .loader import repo_root

SEEDED = os.path.join(VERIF, 'seeded')


def variants(pid=None, base=SEEDED):
    out = []
    if not os.path.isdir(base):
        return out
    for name in sorted(os.listdir(base)):
        d = os.path.join(base, name)
        mp = os.path.join(d, 'meta.json')
        pp = os.path.join(d, 'patch.diff')
        if not (os.path.isfile(mp) and os.path.isfile(pp)):
            continue
        try:
            meta = json.load(open(mp))
        except Exception:
            continue
        props = meta.get('detected_by') or [meta.get('property')]
        if pid is None or pid in props:
            out.append((name, d, meta))
    return out


def run_variant(pid, patch, kind='break', timeout=300):
    tmp = tempfile.mkdtemp(prefix='sa-selftest-')
    try:
        shutil.copytree(os.path.join(repo_root(), 'matchingproblems'), os.path.join(tmp, 'matchingproblems'))
        p = subprocess.run(['git', 'apply', '--unsafe-paths', '--directory=' + tmp, patch], cwd=tmp, capture_output=True, text=True)
        if p.returncode != 0:
            p = subprocess.run(['patch', '-p1', '-s', '-d', tmp, '-i', patch], capture_output=True, text=True)
            if p.returncode != 0:
                return {'status': 'skipped', 'reason': 'patch does not apply: ' + (p.stderr or p.stdout)[:200]}
        env = dict(os.environ, SA_REPO=tmp, SA_EVIDENCE_DIR=os.path.join(tmp, 'ev'), SA_NO_SELFTEST='1')
        q = subprocess.run([sys.executable, '-m', 'sa.check', pid, '--tier', 'quick'], cwd=VERIF, env=env, capture_output=True, text=True, timeout=timeout)
        lines = [l for l in q.stdout.splitlines() if l.startswith(('VIOLATION', '  REFUTED', 'ANALYSIS-'))]
        return {'status': 'ran', 'exit': q.returncode, 'lines': lines[:6]}
    finally:
        shutil.rmtree(tmp, ignore_errors=True)


def run_for(pid, jobs=16):
    vs = variants(pid)
    res = {'variants': len(vs), 'killed': 0, 'missed': [], 'twins_silent': 0, 'twins_alarmed': [], 'twins_inconclusive': [], 'skipped': [], 'inconclusive': []}
    def one(v):
        name, d, meta = v
        return name, meta, run_variant(pid, os.path.join(d, 'patch.diff'), meta.get('kind', 'break'))
    with ThreadPoolExecutor(max_workers=jobs) as ex:
        for name, meta, r in ex.map(one, vs):
            kind = meta.get('kind', 'break')
            if r['status'] != 'ran':
                res['skipped'].append(name)
            elif kind == 'break':
                if r['exit'] == 1:
                    res['killed'] += 1
                elif r['exit'] == 2:
                    res['inconclusive'].append(name)
                else:
                    res['missed'].append(name)
            else:
                if r['exit'] == 0:
                    res['twins_silent'] += 1
                elif r['exit'] == 2:
                    res.setdefault('twins_inconclusive', []).append(name)      # outside the fragment: no VIOLATION line
                else:
                    res['twins_alarmed'].append(name)
    return res


if __name__ == '__main__':
    # usage: python -m sa.selftest [PID ...] [--dir DIR]   -- prints a table
    args = sys.argv[1:]
    base = SEEDED
    if '--dir' in args:
        i = args.index('--dir')
        base = args[i + 1]
        del args[i:i + 2]
    pids = args or None
    rows = []
    todo = []
    for name, d, meta in variants(None, base):
        for pid in (meta.get('detected_by') or [meta.get('property')]):
            if pids is None or pid in pids:
                todo.append((name, d, meta, pid))
    def one(t):
        name, d, meta, pid = t
        return name, pid, meta.get('kind', 'break'), run_variant(pid, os.path.join(d, 'patch.diff'))
    with ThreadPoolExecutor(max_workers=16) as ex:
        for name, pid, kind, r in ex.map(one, todo):
            print('%-28s %-4s %-6s %s %s' % (name, pid, kind, r.get('exit', r.get('reason')), ' | '.join(r.get('lines', []))[:260]))


def matrix(pids, kinds=('twin',), base=SEEDED, jobs=16):
    """Run every listed check against every variant of the given kinds (cross-detection / false-alarm matrix)."""
    vs = [v for v in variants(None, base) if v[2].get('kind', 'break') in kinds]
    todo = [(name, d, meta, pid) for name, d, meta in vs for pid in pids]
    out = {}
    def one(t):
        name, d, meta, pid = t
        return name, pid, run_variant(pid, os.path.join(d, 'patch.diff'))
    with ThreadPoolExecutor(max_workers=jobs) as ex:
        for name, pid, r in ex.map(one, todo):
            out[(name, pid)] = r
    return out
