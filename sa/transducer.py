"""Tie writer / tie reader as finite transducers (C13, C10.R1).

Both loop bodies are abstracted by the finite evaluator to transition tables; the product automaton is explored
completely, which proves agreement for EVERY list length and EVERY tie-decision vector."""
import ast

from .terms import Unknown
from .finite import FiniteEval, NOATOM, Stop, Raises
from .loader import AnalysisError

OPEN, CLOSE, PLAIN = 'OPEN', 'CLOSE', 'PLAIN'


def fuse_two_pass(fn):
    """A producer loop that appends exactly one value per iteration to a local list, followed by a consumer loop over that
    list, is one loop: the consumer's body runs right after the append with its variable bound to the appended value
    (the consumer's constant initialisers move in front).  Returns a copy of the function with the loops fused, or fn."""
    import copy
    loops = [s for s in fn.body if isinstance(s, ast.For)]
    if len(loops) != 2:
        return fn
    L1, L2 = loops
    i1, i2 = fn.body.index(L1), fn.body.index(L2)
    if not (isinstance(L2.iter, ast.Name) and isinstance(L2.target, ast.Name) and not L2.orelse and not L1.orelse):
        return fn
    lst = L2.iter.id
    # the list: initialised [] before L1, appended once at the top level of L1's body, not read in L1
    init_ok = any(isinstance(s, ast.Assign) and len(s.targets) == 1 and isinstance(s.targets[0], ast.Name) and s.targets[0].id == lst
                  and isinstance(s.value, ast.List) and not s.value.elts for s in fn.body[:i1])
    apps = [(k, s) for k, s in enumerate(L1.body) if isinstance(s, ast.Expr) and isinstance(s.value, ast.Call) and isinstance(s.value.func, ast.Attribute)
            and s.value.func.attr == 'append' and isinstance(s.value.func.value, ast.Name) and s.value.func.value.id == lst and len(s.value.args) == 1]
    uses = sum(1 for st in L1.body for x in ast.walk(st) if isinstance(x, ast.Name) and x.id == lst)
    if not init_ok or len(apps) != 1 or uses != 1:
        return fn
    between = fn.body[i1 + 1:i2]
    if not all(isinstance(s, ast.Assign) and isinstance(s.value, (ast.Constant, ast.List)) and not getattr(s.value, 'elts', []) for s in between):
        return fn
    # the consumer must not touch the producer's variables
    w1 = {x.id for st in L1.body for x in ast.walk(st) if isinstance(x, ast.Name) and isinstance(x.ctx, ast.Store)} | {x.id for x in ast.walk(L1.target) if isinstance(x, ast.Name)}
    w2 = {x.id for st in L2.body for x in ast.walk(st) if isinstance(x, ast.Name) and isinstance(x.ctx, ast.Store)}
    if L2.target.id in w2:
        return fn
    r2 = {x.id for st in L2.body for x in ast.walk(st) if isinstance(x, ast.Name)}
    r1 = {x.id for st in L1.body for x in ast.walk(st) if isinstance(x, ast.Name)}
    if (w1 & (r2 - {L2.target.id})) or (w2 & r1):
        return fn
    k, app = apps[0]
    bind = ast.Assign(targets=[ast.Name(id=L2.target.id, ctx=ast.Store())], value=app.value.args[0])
    new_body = L1.body[:k] + [bind] + copy.deepcopy(L2.body) + L1.body[k + 1:]
    fused = ast.For(target=L1.target, iter=L1.iter, body=new_body, orelse=[])
    fn2 = copy.copy(fn)
    fn2.body = fn.body[:i1] + between + [fused] + fn.body[i2 + 1:]
    for n in ast.walk(fused):
        if not hasattr(n, 'lineno'):
            n.lineno, n.col_offset, n.end_lineno, n.end_col_offset = L1.lineno, 0, L1.lineno, 0
    return fn2


def find_loop(fn):
    loops = [s for s in fn.body if isinstance(s, ast.For)]
    if len(loops) != 1:
        raise Unknown('expected exactly one top-level for-loop in %s, found %d' % (fn.name, len(loops)))
    return loops[0]


def inits_before(fn, loop):
    out = {}
    for s in fn.body:
        if s is loop:
            break
        if isinstance(s, ast.Assign) and len(s.targets) == 1 and isinstance(s.targets[0], ast.Name):
            out[s.targets[0].id] = s.value
    return out


def loop_shape(loop, params, inits=None):
    """-> (seq param name, index var or None, element var or None)"""
    it = loop.iter
    if isinstance(it, ast.Call) and isinstance(it.func, ast.Name) and it.func.id == 'range' and len(it.args) == 1:
        a = it.args[0]
        if isinstance(a, ast.Name) and inits and a.id in inits:
            a = inits[a.id]          # n = len(seq) hoisted before the loop
        if isinstance(a, ast.Call) and isinstance(a.func, ast.Name) and a.func.id == 'len' and isinstance(a.args[0], ast.Name) and isinstance(loop.target, ast.Name):
            return a.args[0].id, loop.target.id, None
    if isinstance(it, ast.Call) and isinstance(it.func, ast.Name) and it.func.id == 'enumerate' and isinstance(it.args[0], ast.Name) \
            and isinstance(loop.target, ast.Tuple) and len(loop.target.elts) == 2 and all(isinstance(e, ast.Name) for e in loop.target.elts):
        return it.args[0].id, loop.target.elts[0].id, loop.target.elts[1].id
    if isinstance(it, ast.Name) and isinstance(loop.target, ast.Name):
        return it.id, None, loop.target.id
    raise Unknown('loop header ' + ast.unparse(loop.iter))


def lin_in(n, ivar, seq, env_consts):
    """Linear form alpha*i + beta*len(seq) + gamma of an integer expression, or None."""
    if isinstance(n, ast.Constant) and isinstance(n.value, int) and not isinstance(n.value, bool):
        return (0, 0, n.value)
    if isinstance(n, ast.Name):
        if n.id == ivar:
            return (1, 0, 0)
        if n.id in env_consts:
            return env_consts[n.id]
        return None
    if isinstance(n, ast.Call) and isinstance(n.func, ast.Name) and n.func.id == 'len' and len(n.args) == 1 and isinstance(n.args[0], ast.Name):
        if n.args[0].id == seq:
            return (0, 1, 0)
        return None
    if isinstance(n, ast.BinOp) and isinstance(n.op, (ast.Add, ast.Sub)):
        a, b = lin_in(n.left, ivar, seq, env_consts), lin_in(n.right, ivar, seq, env_consts)
        if a is None or b is None:
            return None
        s = 1 if isinstance(n.op, ast.Add) else -1
        return (a[0] + s * b[0], a[1] + s * b[1], a[2] + s * b[2])
    return None


def last_test(n, ivar, seq, env_consts, last):
    """Truth of a comparison between the loop index and len(seq) given last-ness; NOATOM if not such a comparison;
    raises Unknown if its truth depends on more than last-ness."""
    if not (isinstance(n, ast.Compare) and len(n.ops) == 1):
        return NOATOM
    a, b = lin_in(n.left, ivar, seq, env_consts), lin_in(n.comparators[0], ivar, seq, env_consts)
    if a is None or b is None:
        return NOATOM
    al, be, ga = a[0] - b[0], a[1] - b[1], a[2] - b[2]
    if al == 0 and be == 0:
        return NOATOM
    if al + be != 0:
        raise Unknown('comparison %s is not a function of (index - (len - 1))' % ast.unparse(n))
    # diff = al*d + (ga - al)... with i = d + L - 1:  al*(d + L - 1) + be*L + ga = al*d + (ga - al)
    def val(d):
        x = al * d + (ga - al)
        return {ast.Lt: x < 0, ast.LtE: x <= 0, ast.Gt: x > 0, ast.GtE: x >= 0, ast.Eq: x == 0, ast.NotEq: x != 0}[type(n.ops[0])]
    if last:
        return val(0)
    vs = {val(d) for d in (-1, -2, -3, -50)}
    if len(vs) != 1:
        raise Unknown('comparison %s distinguishes positions other than the last one' % ast.unparse(n))
    return vs.pop()


def hoisted_consts(fn, loop, ivar, seq):
    """Locals assigned before the loop to linear forms in len(seq) (e.g. last = len(pref_list) - 1)."""
    out = {}
    for name, v in inits_before(fn, loop).items():
        l = lin_in(v, ivar, seq, out)
        if l is not None and l[0] == 0 and (l[1] != 0):
            out[name] = l
    return out


# ---- the run-scanner idiom --------------------------------------------------------------------------------------------
#   out = [str(x) for x in L];  S = 0
#   while S < n (or n - 1):
#       E = S
#       while E < n - 1 and T[E]:  E += 1          # the longest stretch in which every element is tied with its successor
#       if E > S:  out[S] = PRE + out[S];  out[E] += SUF      (or: bounds.append((S, E)), decorated by the caller's loop)
#       S = E + 1
# Every index belongs to exactly one run [S, E]; E is the first index >= S that is the last one or not tied with its
# successor.  Hence, reading left to right with in_tie = "inside a run that started earlier": an element that is not the
# last and is tied with its successor opens a run (when outside) or continues it; any other element closes the run it is in
# or stands alone.  That is the table below, with the two decorations taken from the code.
def _lin(e, env, n_names):
    """linear form over {n, var}: e -> (coefficient of n, constant, variable name or None) or None"""
    if isinstance(e, ast.Constant) and isinstance(e.value, int) and not isinstance(e.value, bool):
        return (0, e.value, None)
    if isinstance(e, ast.Name):
        if e.id in env:
            return _lin(env[e.id], {k: v for k, v in env.items() if k != e.id}, n_names)
        return (0, 0, e.id)
    if isinstance(e, ast.Call) and isinstance(e.func, ast.Name) and e.func.id == 'len' and len(e.args) == 1 and isinstance(e.args[0], ast.Name) and e.args[0].id in n_names:
        return (1, 0, None)
    if isinstance(e, ast.BinOp) and isinstance(e.op, (ast.Add, ast.Sub)):
        a, b = _lin(e.left, env, n_names), _lin(e.right, env, n_names)
        if a is None or b is None or (a[2] and b[2]):
            return None
        sg = 1 if isinstance(e.op, ast.Add) else -1
        if sg == -1 and b[2]:
            return None
        return (a[0] + sg * b[0], a[1] + sg * b[1], a[2] or b[2])
    return None


def _upper_bound(test, var, env, n_names):
    """test is `var (+ c) < X` / `var (+ c) <= X` (either orientation) -> the exclusive bound on var as (coef of n, constant)"""
    if not (isinstance(test, ast.Compare) and len(test.ops) == 1):
        return None
    l, r, op = _lin(test.left, env, n_names), _lin(test.comparators[0], env, n_names), test.ops[0]
    if l is None or r is None:
        return None
    if r[2] == var and l[2] is None:
        l, r = r, l
        op = {ast.Gt: ast.Lt, ast.GtE: ast.LtE}.get(type(op), type(None))()
    if l[2] != var or r[2] is not None or l[0] != 0 or not isinstance(op, (ast.Lt, ast.LtE)):
        return None
    c = r[1] - l[1] + (1 if isinstance(op, ast.LtE) else 0)
    return (r[0], c)            # var < r0 * n + c


def run_scanner(fn, listp, tiep, resolver):
    """-> (prefix, suffix) when fn is the run-scanner idiom over (listp, tiep), else None"""
    body = [s for s in fn.body if not (isinstance(s, ast.Expr) and isinstance(s.value, ast.Constant))]
    env, out = {}, None
    k = 0
    while k < len(body) and isinstance(body[k], ast.Assign) and len(body[k].targets) == 1 and isinstance(body[k].targets[0], ast.Name):
        t, v = body[k].targets[0].id, body[k].value
        if isinstance(v, ast.ListComp) and len(v.generators) == 1 and isinstance(v.generators[0].iter, ast.Name) and v.generators[0].iter.id == listp and not v.generators[0].ifs \
                and isinstance(v.elt, ast.Call) and isinstance(v.elt.func, ast.Name) and v.elt.func.id == 'str' and len(v.elt.args) == 1 \
                and isinstance(v.elt.args[0], ast.Name) and isinstance(v.generators[0].target, ast.Name) and v.elt.args[0].id == v.generators[0].target.id:
            out = t
        else:
            env[t] = v
        k += 1
    if out is None or k >= len(body):
        return None
    n_names = {listp, out}
    rest = body[k:]
    if not (isinstance(rest[-1], ast.Return) and isinstance(rest[-1].value, ast.Name) and rest[-1].value.id == out):
        return None
    rest = rest[:-1]

    def scan(loop, env, n_names, tie_name):
        """the outer while of the idiom -> (S, E, action statements) or None"""
        if not (isinstance(loop, ast.While) and not loop.orelse and len(loop.body) >= 4):
            return None
        b = loop.body
        if not (isinstance(b[0], ast.Assign) and len(b[0].targets) == 1 and isinstance(b[0].targets[0], ast.Name) and isinstance(b[0].value, ast.Name)):
            return None
        E, S = b[0].targets[0].id, b[0].value.id
        s_init = env.get(S)
        env = {k_: v_ for k_, v_ in env.items() if k_ not in (S, E)}          # the two positions are variables, not their initial values
        ob = None
        for tst in ([loop.test] if not isinstance(loop.test, ast.BoolOp) else []):
            ob = _upper_bound(tst, S, env, n_names)
        if ob not in ((1, 0), (1, -1)) or s_init is None or _lin(s_init, {}, n_names) != (0, 0, None):
            return None                                   # S runs from 0 while S < n (or n - 1)
        inner = b[1]
        if not (isinstance(inner, ast.While) and not inner.orelse and isinstance(inner.test, ast.BoolOp) and isinstance(inner.test.op, ast.And) and len(inner.test.values) == 2):
            return None
        bound, tied = inner.test.values
        if _upper_bound(bound, E, env, n_names) != (1, -1):
            return None                                   # the bound comes first (short-circuit protects T[E]) and is E < n - 1
        if not (isinstance(tied, ast.Subscript) and isinstance(tied.value, ast.Name) and tied.value.id == tie_name and isinstance(tied.slice, ast.Name) and tied.slice.id == E):
            return None
        if not (len(inner.body) == 1 and isinstance(inner.body[0], ast.AugAssign) and isinstance(inner.body[0].op, ast.Add) and isinstance(inner.body[0].target, ast.Name)
                and inner.body[0].target.id == E and isinstance(inner.body[0].value, ast.Constant) and inner.body[0].value.value == 1):
            return None
        guard, step = b[2], b[-1]
        if len(b) != 4 or not (isinstance(guard, ast.If) and not guard.orelse):
            return None
        g = guard.test
        ok_g = isinstance(g, ast.Compare) and len(g.ops) == 1 and isinstance(g.left, ast.Name) and isinstance(g.comparators[0], ast.Name) and (
            (isinstance(g.ops[0], ast.Gt) and (g.left.id, g.comparators[0].id) == (E, S)) or (isinstance(g.ops[0], ast.Lt) and (g.left.id, g.comparators[0].id) == (S, E))
            or (isinstance(g.ops[0], ast.NotEq) and {g.left.id, g.comparators[0].id} == {S, E}))
        if not ok_g:
            return None
        if not (isinstance(step, ast.Assign) and len(step.targets) == 1 and isinstance(step.targets[0], ast.Name) and step.targets[0].id == S
                and _lin(step.value, {}, n_names) == (0, 1, E)):
            return None
        return S, E, guard.body

    def decorations(stmts, first, last, outname):
        """out[first] = PRE + out[first]; out[last] += SUF (any order, either assignment form) -> (PRE, SUF)"""
        pre = suf = None
        if len(stmts) != 2:
            return None
        for s in stmts:
            tgt = s.target if isinstance(s, ast.AugAssign) else (s.targets[0] if isinstance(s, ast.Assign) and len(s.targets) == 1 else None)
            if not (isinstance(tgt, ast.Subscript) and isinstance(tgt.value, ast.Name) and tgt.value.id == outname and isinstance(tgt.slice, ast.Name)):
                return None
            pos = tgt.slice.id
            same = lambda e: isinstance(e, ast.Subscript) and isinstance(e.value, ast.Name) and e.value.id == outname and isinstance(e.slice, ast.Name) and e.slice.id == pos
            lit = lambda e: e.value if isinstance(e, ast.Constant) and isinstance(e.value, str) else None
            if isinstance(s, ast.AugAssign) and isinstance(s.op, ast.Add) and lit(s.value) is not None:
                p_, s_ = None, lit(s.value)
            elif isinstance(s, ast.Assign) and isinstance(s.value, ast.BinOp) and isinstance(s.value.op, ast.Add) and same(s.value.right) and lit(s.value.left) is not None:
                p_, s_ = lit(s.value.left), None
            elif isinstance(s, ast.Assign) and isinstance(s.value, ast.BinOp) and isinstance(s.value.op, ast.Add) and same(s.value.left) and lit(s.value.right) is not None:
                p_, s_ = None, lit(s.value.right)
            else:
                return None
            if pos == first and p_ is not None and pre is None:
                pre = p_
            elif pos == last and s_ is not None and suf is None:
                suf = s_
            else:
                return None
        return (pre, suf) if pre is not None and suf is not None else None

    # shape A: the scan in the writer itself
    if len(rest) == 1 and isinstance(rest[0], ast.While):
        r = scan(rest[0], env, n_names, tiep)
        if r is None:
            return None
        S, E, act = r
        return decorations(act, S, E, out)
    # shape B: for F, Lx in helper(T, len(out)): decorate   with the scan in the helper, which appends (S, E)
    if len(rest) == 1 and isinstance(rest[0], ast.For) and isinstance(rest[0].target, ast.Tuple) and len(rest[0].target.elts) == 2 and all(isinstance(x, ast.Name) for x in rest[0].target.elts) \
            and isinstance(rest[0].iter, ast.Call) and isinstance(rest[0].iter.func, ast.Name) and resolver is not None:
        h = resolver(rest[0].iter.func.id)
        if h is None:
            return None
        hp = [a.arg for a in h.args.args]
        args = rest[0].iter.args
        if len(args) != len(hp) or len(hp) != 2:
            return None
        henv, h_n, h_tie = {}, set(), None
        for p_, a_ in zip(hp, args):
            if isinstance(a_, ast.Name) and a_.id == tiep:
                h_tie = p_
            elif _lin(a_, env, n_names) == (1, 0, None):
                henv[p_] = ast.Call(func=ast.Name(id='len', ctx=ast.Load()), args=[ast.Name(id='__n__', ctx=ast.Load())], keywords=[])
                h_n.add('__n__')
            else:
                return None
        if h_tie is None or not h_n:
            return None
        hb = [s for s in h.body if not (isinstance(s, ast.Expr) and isinstance(s.value, ast.Constant))]
        acc = None
        j = 0
        while j < len(hb) and isinstance(hb[j], ast.Assign) and len(hb[j].targets) == 1 and isinstance(hb[j].targets[0], ast.Name):
            if isinstance(hb[j].value, ast.List) and not hb[j].value.elts:
                acc = hb[j].targets[0].id
            else:
                henv[hb[j].targets[0].id] = hb[j].value
            j += 1
        if acc is None or len(hb) != j + 2 or not (isinstance(hb[-1], ast.Return) and isinstance(hb[-1].value, ast.Name) and hb[-1].value.id == acc):
            return None
        r = scan(hb[j], henv, h_n, h_tie)
        if r is None:
            return None
        S, E, act = r
        ok_act = len(act) == 1 and isinstance(act[0], ast.Expr) and isinstance(act[0].value, ast.Call) and isinstance(act[0].value.func, ast.Attribute) and act[0].value.func.attr == 'append' \
            and isinstance(act[0].value.func.value, ast.Name) and act[0].value.func.value.id == acc and len(act[0].value.args) == 1 and isinstance(act[0].value.args[0], ast.Tuple) \
            and [getattr(x, 'id', None) for x in act[0].value.args[0].elts] == [S, E]
        if not ok_act:
            return None
        F, Lx = (x.id for x in rest[0].target.elts)
        return decorations(rest[0].body, F, Lx, out)
    return None


class WriterTable:
    """(in_tie, t, last) -> (token class, (prefix, suffix), in_tie')"""
    def __init__(self, func, resolver=None, ties_are_arrays=False):
        self.func = func
        self.ties_are_arrays = ties_are_arrays      # the callers pass numpy arrays: `[c] + ties` adds c to every element
        fn = func.node
        params = [a.arg for a in fn.args.args]
        if len(params) < 2:
            raise Unknown('tie writer takes (list, tie indicators)')
        self.listp, self.tiep = params[0], params[1]
        rs = run_scanner(fn, self.listp, self.tiep, resolver)
        if rs is not None:
            pre, suf = rs
            self.loop, self.states, self.outs, self.init = None, [], [], False
            self.table = {(False, 0, False): ('PLAIN', ('', ''), False), (False, 0, True): ('PLAIN', ('', ''), False),
                          (False, 1, False): ('OPEN', (pre, ''), True), (False, 1, True): ('PLAIN', ('', ''), False),
                          (True, 0, False): ('CLOSE', ('', suf), False), (True, 0, True): ('CLOSE', ('', suf), False),
                          (True, 1, False): ('PLAIN', ('', ''), True), (True, 1, True): ('CLOSE', ('', suf), True)}
            self.mode = 'run scanner'
            return
        loop = find_loop(fn)
        seq, ivar, evar = loop_shape(loop, params, inits_before(fn, loop))
        self.loop = loop
        if seq != self.listp:
            raise Unknown('tie writer iterates over %s, not over its list parameter %s' % (seq, self.listp))
        if ivar is None:
            raise Unknown('tie writer has no position index')
        inits = inits_before(fn, loop)
        self.states = [k for k, v in inits.items() if isinstance(v, ast.Constant) and isinstance(v.value, bool)]
        self.outs = [k for k, v in inits.items() if isinstance(v, ast.List) and not v.elts]
        if len(self.states) == 0 and len(self.outs) == 1:
            return self.stateless(fn, loop, ivar, evar, seq, inits, resolver)
        if len(self.states) != 1 or len(self.outs) != 1:
            raise Unknown('tie writer state/output not recognised (states=%s outputs=%s)' % (self.states, self.outs))
        self.init = inits[self.states[0]].value
        rets = [s for s in fn.body if isinstance(s, ast.Return)]
        if not (rets and isinstance(rets[-1].value, ast.Name) and rets[-1].value.id == self.outs[0]):
            raise Unknown('tie writer does not return its token list')
        consts = hoisted_consts(fn, loop, ivar, seq)
        if self.is_lazy(fn, loop, ivar):
            return self.lazy(fn, loop, ivar, evar, seq, inits, consts, resolver)
        foreign = [k for k, v in inits.items() if k not in consts and any(isinstance(x, ast.Call) and isinstance(x.func, ast.Name) and x.func.id == 'len' for x in ast.walk(v))]
        self.table = {}
        st = self.states[0]
        for s in (False, True):
            for t in (0, 1):
                for last in (False, True):
                    def atom(n, env, t=t, last=last):
                        if isinstance(n, ast.Subscript) and isinstance(n.value, ast.Name) and isinstance(n.slice, ast.Name) and n.slice.id == ivar:
                            if n.value.id == self.tiep:
                                return t
                            if n.value.id == self.listp:
                                return ('num',)
                        if isinstance(n, ast.Compare):
                            for x in ast.walk(n):
                                if isinstance(x, ast.Name) and x.id in foreign:
                                    raise Unknown('last element decided from %s, which is not derived from len(%s)' % (x.id, seq))
                            return last_test(n, ivar, seq, consts, last)
                        return NOATOM
                    fe = FiniteEval(atom, lists=self.outs)
                    fe.resolver = resolver
                    env = {st: s}
                    if evar:
                        env[evar] = ('num',)
                    try:
                        fe.run(loop.body, env)
                    except Stop as e:
                        if e.kind != 'continue':
                            raise Unknown('tie writer leaves its loop (%s)' % e.kind)
                    apps = [a for a in fe.actions if a[0] == 'append']
                    if len(apps) != 1:
                        self.table[(s, t, last)] = ('BAD', 'emits %d tokens for one entry' % len(apps), env[st])
                        continue
                    v = apps[0][2]
                    if isinstance(v, str) or not (isinstance(v, tuple) and v[0] == 'tok'):
                        raise Unknown('tie writer emits %r' % (v,))
                    pre, suf = v[1], v[2]
                    self.table[(s, t, last)] = (self.cls(pre, suf), (pre, suf), env[st])

    def is_lazy(self, fn, loop, ivar):
        """does the writer decorate the token emitted before (out[-1] += ')') or read the previous tie bit?"""
        for n in ast.walk(fn):
            if isinstance(n, ast.Subscript) and isinstance(n.value, ast.Name):
                if n.value.id in self.outs and isinstance(n.slice, ast.UnaryOp):
                    return True
                if n.value.id == self.tiep and isinstance(n.slice, ast.BinOp) and isinstance(n.slice.op, ast.Sub) and isinstance(n.slice.left, ast.Name) and n.slice.left.id == ivar:
                    return True
        return False

    def lazy(self, fn, loop, ivar, evar, seq, inits, consts, resolver):
        """A writer that closes a run late: step i may add a suffix to the token of step i - 1 (and the code after the loop to
        the last token).  The table is rebuilt in the eager form: the decoration of token i is its own prefix/suffix plus what
        the NEXT step (or the code after the loop) adds to it, which must not depend on the next entry's tie bit.  Writer
        state = (state variable, previous tie bit); it counts as 'inside a tie' when the run is still open after that."""
        st = self.states[0]
        post = []
        seen_loop = False
        for s_ in fn.body:
            if s_ is loop:
                seen_loop = True
            elif seen_loop and not isinstance(s_, ast.Return):
                post.append(s_)

        def step(s, prev, t, last):
            def atom(n, env):
                if isinstance(n, ast.Subscript) and isinstance(n.value, ast.Name):
                    if n.value.id == self.tiep and isinstance(n.slice, ast.Name) and n.slice.id == ivar:
                        return t
                    if n.value.id == self.tiep and isinstance(n.slice, ast.BinOp) and isinstance(n.slice.op, ast.Sub) and isinstance(n.slice.left, ast.Name) \
                            and n.slice.left.id == ivar and isinstance(n.slice.right, ast.Constant) and n.slice.right.value == 1:
                        if prev is None:
                            raise Raises('the tie bit before the first entry is read (index -1 wraps around to the last entry)')
                        return prev
                    if n.value.id == self.listp and isinstance(n.slice, ast.Name) and n.slice.id == ivar:
                        return ('num',)
                if isinstance(n, ast.Compare) and len(n.ops) == 1 and isinstance(n.left, ast.Name) and n.left.id == ivar and isinstance(n.comparators[0], ast.Constant) \
                        and n.comparators[0].value == 0:
                    first = prev is None
                    tb = {ast.Gt: not first, ast.NotEq: not first, ast.Eq: first, ast.LtE: first, ast.GtE: True, ast.Lt: False}
                    if type(n.ops[0]) in tb:
                        return tb[type(n.ops[0])]
                if isinstance(n, ast.Compare):
                    return last_test(n, ivar, seq, consts, last)
                return NOATOM
            fe = FiniteEval(atom, lists=self.outs)
            fe.resolver = resolver
            env = {st: s}
            if evar:
                env[evar] = ('num',)
            try:
                fe.run(loop.body, env)
            except Stop as e:
                if e.kind != 'continue':
                    raise Unknown('tie writer leaves its loop (%s)' % e.kind)
            except Raises as r:
                return ('BAD', str(r), None, s)
            apps = [a for a in fe.actions if a[0] == 'append']
            sufs = [a for a in fe.actions if a[0] == 'suffix_last']
            if len(apps) != 1:
                return ('BAD', 'emits %d tokens for one entry' % len(apps), None, env[st])
            own_at = fe.actions.index(apps[0])
            before = ''.join(a[2] for a in fe.actions[:own_at] if a[0] == 'suffix_last')
            after = ''.join(a[2] for a in fe.actions[own_at + 1:] if a[0] == 'suffix_last')
            if before and prev is None:
                return ('BAD', 'decorates the token before the first entry', None, env[st])
            v = apps[0][2]
            if isinstance(v, tuple) and v and v[0] == 'num':
                v = ('tok', '', '')
            if isinstance(v, str) or not (isinstance(v, tuple) and v[0] == 'tok'):
                raise Unknown('tie writer emits %r' % (v,))
            return ('OK', (v[1], v[2] + after), before, env[st])

        def finish(s, dec):
            """the last token (own decoration `dec`) after the code that follows the loop"""
            fe = FiniteEval(lambda n, env: NOATOM, lists=self.outs)
            fe.resolver = resolver
            env = {st: s, '__last__': ('tok', dec[0], dec[1])}
            try:
                fe.run(post, env)
            except Stop:
                pass
            v = env['__last__']
            if not (isinstance(v, tuple) and v and v[0] == 'tok'):
                return ('BAD', 'the code after the loop replaces the last token %r by %r (9 stands for the last digit of the number): the number is lost or truncated'
                        % (dec[0] + '<n>' + dec[1], v))
            return ('OK', (v[1], v[2]))

        raw = {}
        todo = [(self.init, None)]
        while todo:
            key = todo.pop()
            if key in raw:
                continue
            raw[key] = {}
            for t in (0, 1):
                for last in (False, True):
                    r = step(key[0], key[1], t, last)
                    raw[key][(t, last)] = r
                    if r[0] == 'OK' and not last and (r[3], t) not in raw:
                        todo.append((r[3], t))

        def closes(key):
            """suffix the following step adds to the token emitted on reaching `key` (None when it depends on that step)"""
            outs_ = {r[2] for (t2, l2), r in raw[key].items() if r[0] == 'OK'}
            if any(r[0] == 'BAD' for r in raw[key].values()) and not outs_:
                return ''
            return outs_.pop() if len(outs_) == 1 else None

        class WS(tuple):
            def __bool__(self):
                return bool(self[2])

        def ws(key):
            if key[1] is None:
                return WS((key[0], None, bool(key[0])))
            c = closes(key)
            return WS((key[0], key[1], bool(key[0]) and not c))

        self.table = {}
        for key, rows in raw.items():
            for (t, last), r in rows.items():
                if r[0] == 'BAD':
                    self.table[(ws(key), t, last)] = ('BAD', r[1], ws(key))
                    continue
                pre, suf = r[1]
                if last:
                    f = finish(r[3], (pre, suf))
                    if f[0] == 'BAD':
                        self.table[(ws(key), t, last)] = ('BAD', f[1], ws(key))
                        continue
                    pre, suf = f[1]
                    extra = ''
                    nxt = ws(key)
                else:
                    extra = closes((r[3], t))
                    if extra is None:
                        raise Unknown('the suffix added to an entry depends on the entry that follows it')
                    nxt = ws((r[3], t))
                dec = (pre, suf + extra)
                self.table[(ws(key), t, last)] = (self.cls(*dec), dec, nxt)
        self.init = ws((self.init, None))

    def stateless(self, fn, loop, ivar, evar, seq, inits, resolver):
        """A writer without a state variable: the decoration of entry i is a formula of the tie bits at i and i - 1 (possibly
        through an auxiliary per-position list built before the loop).  The table's state is then the previous entry's tie
        bit itself; entry i - 1 is never the last one, so 'tied with the next' there is just its bit."""
        self.init = False
        rets = [s_ for s_ in fn.body if isinstance(s_, ast.Return)]
        if not (rets and isinstance(rets[-1].value, ast.Name) and rets[-1].value.id == self.outs[0]):
            raise Unknown('tie writer does not return its token list')
        consts = hoisted_consts(fn, loop, ivar, seq)
        aux = {}
        for k, v in inits.items():
            if isinstance(v, ast.ListComp) and len(v.generators) == 1 and not v.generators[0].ifs and isinstance(v.generators[0].target, ast.Name):
                itx = v.generators[0].iter
                if isinstance(itx, ast.Call) and isinstance(itx.func, ast.Name) and itx.func.id == 'range' and len(itx.args) == 1 \
                        and isinstance(itx.args[0], ast.Call) and isinstance(itx.args[0].func, ast.Name) and itx.args[0].func.id == 'len':
                    aux[k] = (v.generators[0].target.id, v.elt)
            if isinstance(v, ast.BinOp) and isinstance(v.op, ast.Add):
                for lst, other in ((v.left, v.right), (v.right, v.left)):
                    if isinstance(lst, ast.List) and len(lst.elts) == 1 and isinstance(lst.elts[0], ast.Constant) and isinstance(other, ast.Name) and other.id == self.tiep:
                        if not self.ties_are_arrays:
                            raise Unknown('a literal list is concatenated with the tie indicators: the meaning depends on whether the callers pass lists or arrays')
                        # numpy: [c] + array is element-wise (broadcast) addition, NOT a shift by one position
                        elt = ast.BinOp(left=ast.Subscript(value=ast.Name(id=self.tiep, ctx=ast.Load()), slice=ast.Name(id='_j', ctx=ast.Load()), ctx=ast.Load()),
                                        op=ast.Add(), right=lst.elts[0])
                        ast.fix_missing_locations(elt)
                        aux[k] = ('_j', elt)
        self.table = {}

        def is_prev(idx, var):
            return isinstance(idx, ast.BinOp) and isinstance(idx.op, ast.Sub) and isinstance(idx.left, ast.Name) and idx.left.id == var \
                and isinstance(idx.right, ast.Constant) and idx.right.value == 1

        for sprev in (False, True):
            for t in (0, 1):
                for last in (False, True):
                    results = []
                    for first in ((False, True) if not sprev else (False,)):
                        ctxt = {'shift': 0, 'var': ivar}
                        def atom(n, env, t=t, last=last, sprev=sprev, first=first):
                            var = ctxt['var']
                            if isinstance(n, ast.Subscript) and isinstance(n.value, ast.Name):
                                here = isinstance(n.slice, ast.Name) and n.slice.id == var
                                prev = is_prev(n.slice, var)
                                if n.value.id == self.tiep and (here or prev):
                                    if here and ctxt['shift'] == 0:
                                        return t
                                    if (prev and ctxt['shift'] == 0) or (here and ctxt['shift'] == -1):
                                        if first:
                                            raise Raises('IndexError / wrap-around: tie bit of the entry before the first one is read')
                                        return 1 if sprev else 0
                                    raise Unknown('tie bit two positions back')
                                if n.value.id == self.listp and here and ctxt['shift'] == 0:
                                    return ('num',)
                                if n.value.id in aux and (here or prev) and ctxt['shift'] == 0:
                                    cv, elt = aux[n.value.id]
                                    saved = dict(ctxt)
                                    ctxt['shift'], ctxt['var'] = (0 if here else -1), cv
                                    try:
                                        if ctxt['shift'] == -1 and first:
                                            raise Raises('the auxiliary list is read before the first entry')
                                        return fe.ev(elt, env)
                                    finally:
                                        ctxt.update(saved)
                            if isinstance(n, ast.Compare) and len(n.ops) == 1:
                                names = {x.id for x in ast.walk(n) if isinstance(x, ast.Name)}
                                if var in names:
                                    # position tests: against 0 (first?) or against the length (last?)
                                    other = n.comparators[0] if (isinstance(n.left, ast.Name) and n.left.id == var) else n.left
                                    if isinstance(other, ast.Constant) and other.value in (0, 1) and isinstance(n.left, ast.Name) and n.left.id == var:
                                        pos_is_zero = first if ctxt['shift'] == 0 else False
                                        if other.value == 0:
                                            table = {ast.Gt: not pos_is_zero, ast.NotEq: not pos_is_zero, ast.Eq: pos_is_zero, ast.LtE: pos_is_zero, ast.GtE: True, ast.Lt: False}
                                        else:
                                            table = {ast.GtE: not pos_is_zero, ast.Lt: pos_is_zero}
                                        if type(n.ops[0]) in table:
                                            return table[type(n.ops[0])]
                                    n2 = n
                                    if var != ivar:
                                        import copy
                                        n2 = copy.deepcopy(n)
                                        for x in ast.walk(n2):
                                            if isinstance(x, ast.Name) and x.id == var:
                                                x.id = ivar
                                    return last_test(n2, ivar, seq, consts, last if ctxt['shift'] == 0 else False)
                            return NOATOM
                        fe = FiniteEval(atom, lists=self.outs)
                        fe.resolver = resolver
                        env = {}
                        if evar:
                            env[evar] = ('num',)
                        try:
                            fe.run(loop.body, env)
                        except Stop as e:
                            if e.kind != 'continue':
                                raise Unknown('tie writer leaves its loop (%s)' % e.kind)
                        except Raises as r:
                            results.append(('BAD', str(r)))
                            continue
                        apps = [a for a in fe.actions if a[0] == 'append']
                        if len(apps) != 1:
                            results.append(('BAD', 'emits %d tokens for one entry' % len(apps)))
                            continue
                        v = apps[0][2]
                        if isinstance(v, tuple) and v and v[0] == 'num':
                            v = ('tok', '', '')
                        if isinstance(v, str) or not (isinstance(v, tuple) and v[0] == 'tok'):
                            raise Unknown('tie writer emits %r' % (v,))
                        results.append((self.cls(v[1], v[2]), (v[1], v[2])))
                    if len(set(results)) != 1:
                        self.table[(sprev, t, last)] = ('BAD', 'the first entry is decorated differently from a later entry with the same tie bits', bool(t))
                    elif results[0][0] == 'BAD':
                        self.table[(sprev, t, last)] = ('BAD', results[0][1], bool(t))
                    else:
                        self.table[(sprev, t, last)] = (results[0][0], results[0][1], bool(t) and not last)

    @staticmethod
    def cls(pre, suf):
        if pre == '(' and suf == '':
            return OPEN
        if pre == '' and suf == ')':
            return CLOSE
        if pre == '' and suf == '':
            return PLAIN
        return 'OTHER<%s|%s>' % (pre, suf)


def yields_as_lists(fn):
    """a generator that yields (element, rank) pairs, read as the function that appends to two lists and returns them"""
    import copy
    ys = [n for n in ast.walk(fn) if isinstance(n, ast.Yield)]
    if not ys or any(not (isinstance(y.value, ast.Tuple) and len(y.value.elts) == 2) for y in ys):
        return fn
    if any(isinstance(n, ast.Return) and n.value is not None for n in ast.walk(fn)) or any(isinstance(n, ast.YieldFrom) for n in ast.walk(fn)):
        return fn
    fn = copy.deepcopy(fn)
    class T(ast.NodeTransformer):
        def visit_Expr(self, node):
            if isinstance(node.value, ast.Yield):
                a, b = node.value.value.elts
                mk = lambda name, v: ast.Expr(value=ast.Call(func=ast.Attribute(value=ast.Name(id=name, ctx=ast.Load()), attr='append', ctx=ast.Load()), args=[v], keywords=[]))
                return [ast.copy_location(mk('__elems__', a), node), ast.copy_location(mk('__ranks__', b), node)]
            return self.generic_visit(node)
    fn = T().visit(fn)
    doc = [fn.body[0]] if (fn.body and isinstance(fn.body[0], ast.Expr) and isinstance(fn.body[0].value, ast.Constant)) else []
    rest = fn.body[len(doc):]
    init = [ast.Assign(targets=[ast.Name(id=n_, ctx=ast.Store())], value=ast.List(elts=[], ctx=ast.Load())) for n_ in ('__elems__', '__ranks__')]
    ret = ast.Return(value=ast.Tuple(elts=[ast.Name(id='__elems__', ctx=ast.Load()), ast.Name(id='__ranks__', ctx=ast.Load())], ctx=ast.Load()))
    fn.body = doc + init + rest + [ret]
    ast.fix_missing_locations(fn)
    return fn


class ReaderTable:
    """(in_tie, token decoration) -> (k_before_emit, total_inc, in_tie', problems)"""
    def __init__(self, func, decorations, resolver=None):
        self.func = func
        fn = fuse_two_pass(yields_as_lists(func.node))
        params = [a.arg for a in fn.args.args]
        self.tokp = params[0]
        loop = find_loop(fn)
        seq, ivar, evar = loop_shape(loop, params, inits_before(fn, loop))
        if seq != self.tokp:
            raise Unknown('tie reader iterates over %s, not over its token parameter' % seq)
        for n_ in ast.walk(fn):
            if isinstance(n_, (ast.Assign, ast.AugAssign, ast.AnnAssign)):
                for t_ in (n_.targets if isinstance(n_, ast.Assign) else [n_.target]):
                    if isinstance(t_, ast.Name) and t_.id == self.tokp:
                        raise Unknown('the token list %s is re-bound (%s) before it is read: what the loop sees is no longer what the caller passed' % (self.tokp, ast.unparse(n_)[:60]))
        inits = inits_before(fn, loop)
        self.states = [k for k, v in inits.items() if isinstance(v, ast.Constant) and isinstance(v.value, bool)]
        self.counters = [k for k, v in inits.items() if isinstance(v, ast.Constant) and isinstance(v.value, int) and not isinstance(v.value, bool)]
        self.lists = [k for k, v in inits.items() if isinstance(v, ast.List) and not v.elts]
        used_lists = {x.id for st in loop.body for x in ast.walk(st) if isinstance(x, ast.Name)}
        self.lists = [k for k in self.lists if k in used_lists]          # lists the loop does not touch are not its output
        used_states = [s for s in self.states if any(isinstance(x, ast.Name) and x.id == s for st in loop.body for x in ast.walk(st))]
        self.states = used_states
        # the element list may be produced separately, one entry per token: [f(tok) for tok in tokens]
        self.outer_elems = []
        for k_, v_ in inits.items():
            if isinstance(v_, ast.ListComp) and len(v_.generators) == 1 and not v_.generators[0].ifs and isinstance(v_.generators[0].iter, ast.Name) \
                    and v_.generators[0].iter.id == self.tokp:
                self.outer_elems.append(k_)
        if len(self.states) > 1 or len(self.counters) != 1 or len(self.lists) + len(self.outer_elems) != 2 or not self.lists:
            raise Unknown('tie reader state not recognised (states=%s counters=%s lists=%s)' % (self.states, self.counters, self.lists))
        self.rank = self.counters[0]
        self.rank_init = inits[self.rank].value
        self.state_init = inits[self.states[0]].value if self.states else False
        rets = [s for s in fn.body if isinstance(s, ast.Return)]
        if not rets or not isinstance(rets[-1].value, ast.Tuple) or sorted(getattr(e, 'id', '') for e in rets[-1].value.elts) != sorted(self.lists + self.outer_elems):
            raise Unknown('tie reader does not return its two lists')
        self.ret_order = [e.id for e in rets[-1].value.elts]
        self.table = {}
        self.rank_list = None
        st = self.states[0] if self.states else None
        for s in ((False, True) if st else (False,)):
            for dec in decorations:
                def atom(n, env, dec=dec):
                    if isinstance(n, ast.Subscript) and isinstance(n.value, ast.Name) and n.value.id == self.tokp and isinstance(n.slice, ast.Name) and n.slice.id == ivar:
                        return ('tok', dec[0], dec[1])
                    return NOATOM
                fe = FiniteEval(atom, counters=[self.rank], lists=self.lists)
                fe.resolver = resolver
                env = {self.rank: ('cnt', self.rank, 0)}
                if evar:
                    env[evar] = ('tok', dec[0], dec[1])      # the loop variable may be reassigned (e.g. stripped) in the body
                if st:
                    env[st] = s
                problems = []
                try:
                    fe.run(loop.body, env)
                except Stop as e:
                    if e.kind == 'counter-assigned':
                        problems.append('rank is assigned from %s instead of being advanced by one' % e.value[1])
                    elif e.kind != 'continue':
                        raise Unknown('tie reader leaves its loop (%s)' % e.kind)
                except Raises as r:
                    problems.append(str(r))
                emits, elems, k, total = [], [], 0, 0
                for a in fe.actions:
                    if a[0] == 'inc':
                        total += a[2]
                    elif a[0] == 'append':
                        v = a[2]
                        if isinstance(v, tuple) and v and v[0] == 'cnt':
                            emits.append(v[2])
                            self.rank_list = a[1]
                        elif isinstance(v, tuple) and v and v[0] == 'num':
                            elems.append(a[1])
                        else:
                            problems.append('appends %r' % (v,))
                if not problems:
                    if len(emits) != 1:
                        problems.append('records %d ranks for one entry' % len(emits))
                    if len(elems) + len(self.outer_elems) != 1:
                        problems.append('records %d elements for one entry' % len(elems))
                self.table[(s, dec)] = (emits[0] if emits else 0, total, env.get(st, False) if st else False, problems)


def reference_writer():
    """Ideal token language (OPEN PLAIN* CLOSE | PLAIN)* as a table in WriterTable format."""
    t = {}
    for last in (False, True):
        t[(False, 0, last)] = (PLAIN, ('', ''), False)
        t[(False, 1, last)] = ((OPEN, ('(', ''), True) if not last else (PLAIN, ('', ''), False))
        t[(True, 1, last)] = ((PLAIN, ('', ''), True) if not last else (CLOSE, ('', ')'), False))
        t[(True, 0, last)] = (CLOSE, ('', ')'), False)
    return t


def explore(wtable, winit, reader, check_writer=True):
    """Product exploration.  Returns (violations, stats).  Violation = (kind, message, trace)."""
    viol = []
    seen = set()
    start = (winit, reader.state_init, 0, True)     # writer state, reader state, incs pending since last emit, first?
    todo = [(start, ())]
    trans = 0
    if not isinstance(reader.rank_init, int):
        viol.append(('reader', 'ranks start at %r, not at an integer' % (reader.rank_init,), ()))
    while todo:
        state, trace = todo.pop()
        if state in seen:
            continue
        seen.add(state)
        w, r, pending, first = state
        wstate, w = w, bool(w)
        for t in (0, 1):
            for last in (False, True):
                trans += 1
                cls, dec, w2 = wtable[(wstate, t, last)]
                step = trace + ((wstate, t, last, cls),)
                if cls == 'BAD':
                    viol.append(('writer', dec, step))
                    continue
                if check_writer:
                    if cls not in (OPEN, CLOSE, PLAIN):
                        viol.append(('writer', 'emits an unknown decoration %s' % cls, step))
                        continue
                    if w and cls == OPEN:
                        viol.append(('writer', 'opens a parenthesis inside a tie (nested)', step))
                    if not w and cls == CLOSE:
                        viol.append(('writer', 'closes a parenthesis that was never opened', step))
                    if not last:
                        if bool(w2) != bool(t):
                            viol.append(('writer', 'entry tied with the next one (t=%d) but the writer is %s a tie afterwards' % (t, 'inside' if w2 else 'outside'), step))
                        if (cls == OPEN) != (not w and bool(t)):
                            viol.append(('writer', 'parenthesis opened iff a run of tied entries starts here is violated', step))
                        if (cls == CLOSE) != (w and not t):
                            viol.append(('writer', 'parenthesis closed iff the run of tied entries ends here is violated', step))
                    else:
                        want = CLOSE if w else PLAIN
                        if cls != want:
                            viol.append(('writer', 'last entry must be %s (decision on the last entry has no effect; open run is closed)' % want, step))
                        if w2 and False:
                            pass
                key = (r, dec)
                if key not in reader.table:
                    viol.append(('reader', 'no transition for decoration %r' % (dec,), step))
                    continue
                kbefore, total, r2, problems = reader.table[key]
                for p in problems:
                    viol.append(('reader', p, step))
                if problems:
                    continue
                got = pending + kbefore
                if first:
                    if reader.rank_init + got != 1:
                        viol.append(('agree', 'first entry gets rank %d, not 1' % (reader.rank_init + got), step))
                else:
                    want = 0 if w else 1      # same group as the previous entry iff the writer was inside a tie
                    if got != want:
                        viol.append(('agree', 'entry %s the previous one: rank advanced by %d, expected %d' % ('is tied with' if w else 'follows', got, want), step))
                if not last:
                    nxt = (w2, r2, min(total - kbefore, 3), False)
                    if nxt not in seen:
                        todo.append((nxt, step if len(step) < 6 else step[-6:]))
    return viol, {'product_states': len(seen), 'transitions': trans}
