"""Generator-side idiom recognisers shared by C08 / C09 / C12."""
from .terms import *


def int_wrapped(t):
    return t[0] == 'call' and t[1] == S('int') and len(t[2]) == 1


def strip_int(t):
    while int_wrapped(t):
        t = t[2][0]
    return t


def quotient_of(t, total, n):
    """t is floor(total / n): int(total / n) | int(total // n) | total // n | divmod(total, n)[0] | int(divmod(..)[0]).
    Returns 'int' when the value is coerced to int, 'raw' when it is integral only if total is, None when it is not the quotient."""
    coerced = int_wrapped(t)
    u = strip_int(t)
    if u == BIN('Div', total, n):
        return 'int' if coerced else None        # a true division without int() is a float
    if u == BIN('FloorDiv', total, n):
        return 'int' if coerced else 'raw'
    if u == I(CALL(S('divmod'), [total, n]), C(0)):
        return 'int' if coerced else 'raw'
    return None


def remainder_of(t, total, n):
    coerced = int_wrapped(t)
    u = strip_int(t)
    if u == BIN('Mod', total, n) or u == I(CALL(S('divmod'), [total, n]), C(1)):
        return 'int' if coerced else 'raw'
    # total - n * quotient
    return None


def even_spread(t, total, n):
    """t = [q + (1 if i < r else 0) for i in range(n)] with q = total // n, r = total % n, in loop or comprehension form.
    -> dict(ok=bool, why=str, coerced=bool)"""
    def elem_from_accum(t):
        if t[0] != 'accum' or t[1] != ('list', ()):
            return None
        base = incs = None
        rng = None
        out_incs = []
        for op, idx, val, ch in t[2]:
            if len(ch) != 1:
                return None
            b, g = ch[0]
            dom = b[3]
            if not (dom[0] == 'call' and dom[1] == S('range') and len(dom[2]) == 1):
                return None
            if rng is None:
                rng = (b, dom[2][0])
            elif dom[2][0] != rng[1]:
                return None
            if op == 'append' and g == TRUE and base is None:
                base = (val, b)
            elif op == 'addidx' and idx == b:
                out_incs.append((g, val, b))
            else:
                return None
        if base is None:
            return None
        return base, out_incs, rng

    def norm_guard(g, b):
        """guard on the position -> ('lt', bound term) meaning i < bound"""
        if g[0] == 'cmp':
            if g[1] == 'Lt' and g[2] == b: return g[3]
            if g[1] == 'Gt' and g[3] == b: return g[2]
            if g[1] == 'LtE' and g[2] == b and g[3][0] == 'bin' and g[3][1] == 'Sub' and g[3][3] == C(1): return g[3][2]
            if g[1] == 'GtE' and g[3] == b and g[2][0] == 'bin' and g[2][1] == 'Sub' and g[2][3] == C(1): return g[2][2]
        if g[0] == 'not' and g[1][0] == 'cmp' and g[1][1] == 'GtE' and g[1][2] == b:
            return g[1][3]
        return None

    q = r = None
    cnt = None
    e = elem_from_accum(t)
    if e is not None:
        (bval, bb), incs, (rb, cnt) = e
        q = bval
        if len(incs) != 1 or incs[0][1] != C(1):
            return dict(ok=False, why='expected exactly one "+1 for the first r entries" update, found %d' % len(incs))
        r = norm_guard(incs[0][0], incs[0][2])
        if r is None:
            return dict(ok=False, why='the +1 is not applied to positions i < remainder: guard %s' % show(incs[0][0]))
    else:
        c = t
        if c[0] == 'cat':
            parts = [p for p in c[1] if p != ('list', ())]
            c = parts[0] if len(parts) == 1 else c
        if c[0] == 'comp' and len(c[1]) == 1 and c[1][0][1] == TRUE:
            b = c[1][0][0]
            dom = b[3]
            if dom[0] == 'call' and dom[1] == S('range') and len(dom[2]) == 1:
                cnt = dom[2][0]
                v = c[2]
                # ite(i < r, q + 1, q)  |  q + ite(i < r, 1, 0)  | q + (i < r)
                if v[0] == 'ite':
                    r = norm_guard(v[1], b)
                    hi, lo = v[2], v[3]
                    if r is None and v[1][0] == 'not':
                        r = norm_guard(v[1][1], b)
                        hi, lo = lo, hi
                    if hi in (BIN('Add', lo, C(1)), BIN('Add', C(1), lo)):
                        q = lo
                elif v[0] == 'bin' and v[1] == 'Add':
                    for base_, inc in ((v[2], v[3]), (v[3], v[2])):
                        if inc[0] == 'ite' and inc[2] == C(1) and inc[3] == C(0):
                            r = norm_guard(inc[1], b)
                            q = base_
                        elif inc[0] == 'cmp':
                            r = norm_guard(inc, b)
                            q = base_
                        elif inc[0] == 'call' and inc[1] == S('int') and inc[2][0][0] == 'cmp':
                            r = norm_guard(inc[2][0], b)
                            q = base_
        if q is None or r is None:
            return dict(ok=False, why='not an even-spread idiom: ' + show(t)[:120], unknown=True)
    if cnt != n:
        return dict(ok=False, why='produces %s entries, expected %s' % (show(cnt), show(n)))
    kq, kr = quotient_of(q, total, n), remainder_of(r, total, n)
    if kq is None:
        return dict(ok=False, why='base share %s is not floor(%s / %s)' % (show(q), show(total), show(n)))
    if kr is None:
        return dict(ok=False, why='the number of larger shares %s is not %s %% %s' % (show(r), show(total), show(n)))
    return dict(ok=True, why='', coerced=(kq == 'int'), q=q, r=r)
