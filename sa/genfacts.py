"""Generator-side idiom recognisers shared by C08 / C09 / C12."""
from .terms import *


def int_wrapped(t):
    return t[0] == 'call' and t[1] == S('int') and len(t[2]) == 1


def strip_int(t):
    while int_wrapped(t):
        t = t[2][0]
    return t


def quotient_of(t, total, n):
    """t is floor(total / n): int(total / n) | int(total // n) | total // n | divmod(total, n)[0] | int(divmod(..)[0]).
    Returns 'int' when the value is coerced to int, 'raw' when it is integral only if total is, None when it is not the quotient."""
    coerced = int_wrapped(t)
    u = strip_int(t)
    if u[0] == 'bin' and u[1] in ('FloorDiv', 'Mod') and int_wrapped(u[2]) and strip_int(u[2]) == total and strip_int(u[3]) == n:
        # int(total) // int(n): an integer whatever the type of the total handed in
        u, coerced = ('bin', u[1], total, n), True
    if u == BIN('Div', total, n):
        return 'int' if coerced else None        # a true division without int() is a float
    if u == BIN('FloorDiv', total, n):
        return 'int' if coerced else 'raw'
    if u == I(CALL(S('divmod'), [total, n]), C(0)):
        return 'int' if coerced else 'raw'
    return None


def remainder_of(t, total, n):
    coerced = int_wrapped(t)
    u = strip_int(t)
    if u[0] == 'bin' and u[1] == 'Mod' and int_wrapped(u[2]) and strip_int(u[2]) == total and strip_int(u[3]) == n:
        u, coerced = ('bin', 'Mod', total, n), True
    if u == BIN('Mod', total, n) or u == I(CALL(S('divmod'), [total, n]), C(1)):
        return 'int' if coerced else 'raw'
    # total - n * quotient
    return None


def even_spread(t, total, n):
    """t = [q + (1 if i < r else 0) for i in range(n)] with q = total // n, r = total % n, in loop or comprehension form.
    -> dict(ok=bool, why=str, coerced=bool)"""
    def elem_from_accum(t):
        if t[0] != 'accum':
            return None
        base = incs = None
        rng = None
        pre = t[1]
        if pre[0] == 'bin' and pre[1] == 'Mult':
            # [q] * n filled first, the +1 updates afterwards
            for lst, cnt_ in ((pre[2], pre[3]), (pre[3], pre[2])):
                if lst[0] == 'list' and len(lst[1]) == 1:
                    base = (lst[1][0], None)
                    rng = (None, cnt_)
            if base is None:
                return None
        elif pre != ('list', ()):
            return None
        out_incs = []
        for op, idx, val, ch in t[2]:
            if len(ch) != 1:
                return None
            b, g = ch[0]
            dom = b[3]
            if not (dom[0] == 'call' and dom[1] == S('range') and len(dom[2]) == 1):
                return None
            if rng is None:
                rng = (b, dom[2][0])
            elif dom[2][0] != rng[1]:
                return None
            if op == 'append' and g == TRUE and base is None:
                base = (val, b)
            elif op == 'addidx' and idx == b:
                out_incs.append((g, val, b))
            else:
                return None
        if base is None:
            return None
        return base, out_incs, rng

    def norm_guard(g, b):
        """guard on the position -> ('lt', bound term) meaning i < bound"""
        if g[0] == 'cmp':
            if g[1] == 'Lt' and g[2] == b: return g[3]
            if g[1] == 'Gt' and g[3] == b: return g[2]
            if g[1] == 'LtE' and g[2] == b and g[3][0] == 'bin' and g[3][1] == 'Sub' and g[3][3] == C(1): return g[3][2]
            if g[1] == 'GtE' and g[3] == b and g[2][0] == 'bin' and g[2][1] == 'Sub' and g[2][3] == C(1): return g[2][2]
        if g[0] == 'not' and g[1][0] == 'cmp' and g[1][1] == 'GtE' and g[1][2] == b:
            return g[1][3]
        return None

    q = r = None
    cnt = None
    e = elem_from_accum(t)
    if e is not None:
        (bval, bb), incs, (rb, cnt) = e
        q = bval
        if len(incs) != 1 or incs[0][1] != C(1):
            return dict(ok=False, why='expected exactly one "+1 for the first r entries" update, found %d' % len(incs))
        r = norm_guard(incs[0][0], incs[0][2])
        if r is None:
            return dict(ok=False, why='the +1 is not applied to positions i < remainder: guard %s' % show(incs[0][0]))
    else:
        c = t
        if c[0] == 'cat':
            parts = [p for p in c[1] if p != ('list', ())]
            c = parts[0] if len(parts) == 1 else c
        if c[0] == 'comp' and len(c[1]) == 1 and c[1][0][1] == TRUE:
            b = c[1][0][0]
            dom = b[3]
            if dom[0] == 'call' and dom[1] == S('range') and len(dom[2]) == 1:
                cnt = dom[2][0]
                v = c[2]
                # ite(i < r, q + 1, q)  |  q + ite(i < r, 1, 0)  | q + (i < r)
                if v[0] == 'ite':
                    r = norm_guard(v[1], b)
                    hi, lo = v[2], v[3]
                    if r is None and v[1][0] == 'not':
                        r = norm_guard(v[1][1], b)
                        hi, lo = lo, hi
                    if hi in (BIN('Add', lo, C(1)), BIN('Add', C(1), lo)):
                        q = lo
                elif v[0] == 'bin' and v[1] == 'Add':
                    for base_, inc in ((v[2], v[3]), (v[3], v[2])):
                        if inc[0] == 'ite' and inc[2] == C(1) and inc[3] == C(0):
                            r = norm_guard(inc[1], b)
                            q = base_
                        elif inc[0] == 'cmp':
                            r = norm_guard(inc, b)
                            q = base_
                        elif inc[0] == 'call' and inc[1] == S('int') and inc[2][0][0] == 'cmp':
                            r = norm_guard(inc[2][0], b)
                            q = base_
        if q is None or r is None:
            # [q + 1] * r + [q] * (n - r)
            cc = t
            parts = None
            if cc[0] == 'bin' and cc[1] == 'Add':
                parts = [cc[2], cc[3]]
            elif cc[0] == 'cat' and len(cc[1]) == 2:
                parts = list(cc[1])
            if parts and all(p[0] == 'bin' and p[1] == 'Mult' for p in parts):
                def rep_(p):
                    for lst, cnt_ in ((p[2], p[3]), (p[3], p[2])):
                        if lst[0] == 'list' and len(lst[1]) == 1:
                            return lst[1][0], cnt_
                    return None
                a, b_ = rep_(parts[0]), rep_(parts[1])
                if a and b_ and a[0] in (BIN('Add', b_[0], C(1)), BIN('Add', C(1), b_[0])) and b_[1] in (BIN('Sub', n, a[1]),):
                    kq, kr = quotient_of(b_[0], total, n), remainder_of(a[1], total, n)
                    if kq is not None and kr is not None:
                        return dict(ok=True, why='', coerced=(kq == 'int'), q=b_[0], r=a[1])
                    return dict(ok=False, why='shares %s / %s are not floor(total/n) and total %% n' % (show(b_[0])[:40], show(a[1])[:40]))
            return dict(ok=False, why='not an even-spread idiom: ' + show(t)[:120], unknown=True)
    if cnt != n:
        return dict(ok=False, why='produces %s entries, expected %s' % (show(cnt), show(n)))
    kq, kr = quotient_of(q, total, n), remainder_of(r, total, n)
    if kq is None:
        return dict(ok=False, why='base share %s is not floor(%s / %s)' % (show(q), show(total), show(n)))
    if kr is None:
        return dict(ok=False, why='the number of larger shares %s is not %s %% %s' % (show(r), show(total), show(n)))
    return dict(ok=True, why='', coerced=(kq == 'int'), q=q, r=r)


# ---- consecutive blocks: which lecturer offers which project ---------------------------------------------------------
def blocks_grid(t, total, n, limit=12):
    """A closed-form table (a term over total, n and its own binders only) that is not one of the recognised constructions
    is *evaluated* on the finite grid 1 <= n <= total <= limit and compared with the reference blocks.  A difference is a
    refutation with the concrete (total, n); agreement on the grid decides nothing (-> None)."""
    from .termeval import PyEval, NOATOM, Raises
    def free_atoms(x, bound=()):
        out = set()
        def go(y):
            if y == total or y == n:
                return
            if y[0] in ('sym', 'attr', 'top', 'carried', 'prefix', 'stale'):
                out.add(y)
                return
            if y[0] == 'bvar':
                go(y[3])
                return
            for z in y[1:]:
                if isinstance(z, tuple):
                    if z and isinstance(z[0], str):
                        go(z)
                    else:
                        for w_ in z:
                            if isinstance(w_, tuple) and w_ and isinstance(w_[0], str):
                                go(w_)
                            elif isinstance(w_, tuple):
                                for v_ in w_:
                                    if isinstance(v_, tuple) and v_ and isinstance(v_[0], str):
                                        go(v_)
        go(x)
        return {a for a in out if not (a[0] == 'sym' and a[1] in ('range', 'len', 'int', 'list', 'min', 'max', 'sum', 'divmod', 'sorted', 'enumerate', 'zip'))}
    if free_atoms(t):
        return None
    for tot in range(1, limit + 1):
        for k in range(1, tot + 1):
            def atom(x, tot=tot, k=k):
                if x == total:
                    return tot
                if x == n:
                    return k
                return NOATOM
            try:
                got = PyEval(atom).ev(t)
            except (Unknown, Raises, Exception):
                return None
            if not isinstance(got, (list, tuple)):
                return None
            q, r = divmod(tot, k)
            want = [a + 1 for a in range(k) for _ in range(q + (1 if a < r else 0))]
            if list(got) != want:
                return dict(ok=False, why='for %d projects and %d lecturers the table is %s, expected %s (larger shares first, consecutive blocks)' % (tot, k, list(got), want))
    return None


def blocks_of(t, total, n):
    r = _blocks_of(t, total, n)
    if r.get('unknown'):
        g = blocks_grid(t, total, n)
        if g is not None:
            return g
    return r


def _blocks_of(t, total, n):
    """t = list of length `total` in which agent k (0-based, ascending) owns a consecutive block of share(k) = floor(total/n)
    + (1 if k < total % n) entries holding k + 1.  Recognised constructions:
       [k+1 for k in range(n) for _ in range(share[k])]            (shares an even-spread list; loops or comprehension)
       extend([k+1] * share(k)) for k in range(n)                   (share(k) closed form or from an even-spread list)
       out[j] = k+1 for k in range(n) for j in range(F[k], F[k+1])  with F[0] = 0 and F[k+1] - F[k] = share(k)  (prefix offsets)
    -> dict(ok=bool, why=str, unknown=bool)"""
    from .poly import pconst, patom, padd, psub, pmul, pshow
    c = t
    if c[0] == 'cat':
        parts = [x for x in c[1] if x != ('list', ())]
        c = parts[0] if len(parts) == 1 else c
    UNK = dict(ok=False, unknown=True, why='not a recognised block assignment: ' + show(t)[:140])

    def share_closed(sh, k):
        """sh is share(k) in closed form: q + (1 if k < r else 0) | ite(k < r, q+1, q) -> True/False/None"""
        q = r = None
        def lt_bound(g):
            if g[0] == 'cmp' and g[1] == 'Lt' and g[2] == k: return g[3]
            if g[0] == 'cmp' and g[1] == 'Gt' and g[3] == k: return g[2]
            if g[0] == 'cmp' and g[1] == 'LtE' and g[2] == k and g[3][0] == 'bin' and g[3][1] == 'Sub' and g[3][3] == C(1): return g[3][2]
            return None
        if sh[0] == 'ite':
            r = lt_bound(sh[1])
            hi, lo = sh[2], sh[3]
            if r is not None and hi in (BIN('Add', lo, C(1)), BIN('Add', C(1), lo)):
                q = lo
        elif sh[0] == 'bin' and sh[1] == 'Add':
            for base_, inc in ((sh[2], sh[3]), (sh[3], sh[2])):
                if inc[0] == 'ite' and inc[2] == C(1) and inc[3] == C(0):
                    r, q = lt_bound(inc[1]), base_
                elif inc[0] == 'cmp':
                    r, q = lt_bound(inc), base_
                elif inc[0] == 'call' and inc[1] == S('int') and len(inc[2]) == 1 and inc[2][0][0] == 'cmp':
                    r, q = lt_bound(inc[2][0]), base_
        if q is None or r is None:
            return None
        return quotient_of(q, total, n) is not None and remainder_of(r, total, n) is not None

    def share_term(cnt, k):
        """cnt = number of entries of agent k -> True / False / None(unknown)"""
        if cnt[0] == 'idx' and cnt[2] == k:
            r = even_spread(cnt[1], total, n)
            if r.get('unknown'):
                return None
            return r['ok']
        return share_closed(cnt, k)

    def agent_binder(b):
        """-> the 0-based agent index term for this binder, or None"""
        d = b[3]
        if d[0] == 'call' and d[1] == S('range') and len(d[2]) == 1 and d[2][0] == n:
            return b, 0
        if d[0] == 'call' and d[1] == S('range') and len(d[2]) == 2 and d[2][0] == C(1) and d[2][1] in (BIN('Add', n, C(1)), BIN('Add', C(1), n)):
            return b, 1                                   # for k in range(1, n + 1): 1-based id
        return None

    # -- comprehension / nested append
    if c[0] == 'comp' and len(c[1]) == 2 and c[1][0][1] == TRUE and c[1][1][1] == TRUE:
        kb, jb = c[1][0][0], c[1][1][0]
        if jb[3][0] == 'call' and jb[3][1] == S('range') and len(jb[3][2]) == 1:
            cnt = jb[3][2][0]
            ab = agent_binder(kb)
            if ab is not None:
                k, base = ab
                want_val = [k] if base == 1 else [BIN('Add', k, C(1)), BIN('Add', C(1), k)]
                if c[2] in want_val:
                    kk = k if base == 0 else BIN('Sub', k, C(1))
                    cnt0 = cnt if base == 0 else cnt
                    ok = share_term(cnt, k) if base == 0 else share_closed_shift(cnt, k, total, n)
                    if ok is None:
                        return UNK
                    return dict(ok=ok, why='' if ok else 'agent k gets %s entries, not floor(total/n) + (1 if k < total %% n)' % show(cnt)[:80])
            if cnt == kb and c[2] in (BIN('Add', ('indexof', kb), C(1)), BIN('Add', C(1), ('indexof', kb))):
                r = even_spread(kb[3], total, n)            # for k, share in enumerate(shares): for _ in range(share)
                if r.get('unknown'):
                    return UNK
                return dict(ok=r['ok'], why=r['why'])
    # -- constant block size:  [j // B + 1 for j in range(total)]
    if c[0] == 'comp' and len(c[1]) == 1 and c[1][0][1] == TRUE:
        jb = c[1][0][0]
        if jb[3] == CALL(S('range'), [total]):
            v = c[2]
            if v[0] == 'bin' and v[1] == 'Add' and C(1) in (v[2], v[3]):
                v = v[2] if v[3] == C(1) else v[3]
                if v[0] == 'bin' and v[1] == 'FloorDiv' and v[2] == jb and not contains(v[3], lambda x: x == jb):
                    return dict(ok=False, why='every agent gets a block of the same size %s (the last ones what is left): for total %% n != 0 the shares are not floor/ceil balanced, '
                                               'e.g. 7 over 3 gives 3,3,1 and 11 over 5 leaves an agent without any' % show(v[3])[:60])
    # -- extend([v] * count) per agent
    if c[0] == 'accum' and c[1] == ('list', ()) and len(c[2]) == 1 and c[2][0][0] == 'extend' and len(c[2][0][3]) == 1 and c[2][0][3][0][1] == TRUE:
        op, _, val, ch = c[2][0]
        kb = ch[0][0]
        if val[0] == 'bin' and val[1] == 'Mult':
            for lst, cnt in ((val[2], val[3]), (val[3], val[2])):
                if lst[0] == 'list' and len(lst[1]) == 1:
                    ab = agent_binder(kb)
                    if ab is not None:
                        k, base = ab
                        if lst[1][0] in ([k] if base == 1 else [BIN('Add', k, C(1)), BIN('Add', C(1), k)]):
                            ok = share_term(cnt, k) if base == 0 else share_closed_shift(cnt, k, total, n)
                            if ok is None:
                                return UNK
                            return dict(ok=ok, why='' if ok else 'agent k gets %s entries' % show(cnt)[:80])
                    if kb[3][0] != 'call' and cnt == kb and lst[1][0] in (BIN('Add', ('indexof', kb), C(1)), BIN('Add', C(1), ('indexof', kb))):
                        r = even_spread(kb[3], total, n)
                        if r.get('unknown'):
                            return UNK
                        return dict(ok=r['ok'], why=r['why'])
    # -- scatter of consecutive blocks given by prefix offsets
    if c[0] == 'accum' and len(c[2]) == 1 and c[2][0][0] == 'setidx' and len(c[2][0][3]) == 2:
        op, idx, val, ch = c[2][0]
        (kb, g0), (jb, g1) = ch
        ab = agent_binder(kb)
        pre_len = None
        if c[1][0] == 'bin' and c[1][1] == 'Mult':
            for lst, ln in ((c[1][2], c[1][3]), (c[1][3], c[1][2])):
                if lst[0] == 'list' and len(lst[1]) == 1:
                    pre_len = ln
        if ab is not None and ab[1] == 0 and g0 == TRUE and g1 == TRUE and idx == jb and val in (BIN('Add', kb, C(1)), BIN('Add', C(1), kb)) and pre_len == total \
                and jb[3][0] == 'call' and jb[3][1] == S('range') and len(jb[3][2]) == 2:
            lo, hi = jb[3][2]
            F = None
            if lo[0] == 'idx' and hi[0] == 'idx' and lo[1] == hi[1] and lo[2] == kb and hi[2] in (BIN('Add', kb, C(1)), BIN('Add', C(1), kb)):
                F = lo[1]
            if F is not None and F[0] == 'comp' and len(F[1]) == 1 and F[1][0][1] == TRUE:
                fb = F[1][0][0]
                f = F[2]
                res = prefix_offsets_ok(f, fb, total, n)
                if res is None:
                    return UNK
                return dict(ok=res, why='' if res else 'block starts %s are not the prefix sums of the even shares' % show(f)[:80])
    return UNK


def share_closed_shift(cnt, k, total, n):
    """share for a 1-based agent id k: q + (1 if k <= r else 0)"""
    if cnt[0] == 'ite' and cnt[1][0] == 'cmp' and cnt[1][1] == 'LtE' and cnt[1][2] == k:
        r, hi, lo = cnt[1][3], cnt[2], cnt[3]
        if hi in (BIN('Add', lo, C(1)), BIN('Add', C(1), lo)):
            return quotient_of(lo, total, n) is not None and remainder_of(r, total, n) is not None
    if cnt[0] == 'bin' and cnt[1] == 'Add':
        for base_, inc in ((cnt[2], cnt[3]), (cnt[3], cnt[2])):
            g = inc[1] if (inc[0] == 'ite' and inc[2] == C(1) and inc[3] == C(0)) else (inc if inc[0] == 'cmp' else None)
            if g is not None and g[0] == 'cmp' and g[1] == 'LtE' and g[2] == k:
                return quotient_of(base_, total, n) is not None and remainder_of(g[3], total, n) is not None
    return None


def prefix_offsets_ok(f, b, total, n):
    """f(b) (b the comprehension variable) gives the first entry of agent b's block.  Decide f(0) == 0 and
    f(k+1) - f(k) == q + [k < r]  by case analysis k < r / k >= r, resolving min(), max() and conditionals on k vs r under
    the case.  -> True / False / None (outside the fragment)"""
    from .poly import pconst, patom, padd, psub, pmul, pkey

    class Out(Exception):
        pass

    def kind(t):
        if quotient_of(t, total, n) is not None:
            return 'q'
        if remainder_of(t, total, n) is not None:
            return 'r'
        return None

    def ev(t, kval, case):
        """polynomial over atoms k, q, r of term t with the variable b := kval (a polynomial), under case 'lt' (k < r) or 'ge'"""
        if t == b:
            return kval
        kd = kind(t)
        if kd:
            return patom(kd)
        if t[0] == 'const' and isinstance(t[1], int) and not isinstance(t[1], bool):
            return pconst(t[1])
        if t[0] == 'bin' and t[1] in ('Add', 'Sub', 'Mult'):
            x, y = ev(t[2], kval, case), ev(t[3], kval, case)
            return {'Add': padd, 'Sub': psub, 'Mult': pmul}[t[1]](x, y)
        if t[0] == 'call' and t[1] in (S('min'), S('max')) and len(t[2]) == 2:
            x, y = ev(t[2][0], kval, case), ev(t[2][1], kval, case)
            s = sign(psub(x, y), case)
            if s is None:
                raise Out()
            if t[1] == S('min'):
                return x if s <= 0 else y
            return x if s >= 0 else y
        if t[0] == 'ite' and t[1][0] == 'cmp':
            x, y = ev(t[1][2], kval, case), ev(t[1][3], kval, case)
            s = sign(psub(x, y), case)
            if s is None:
                raise Out()
            op = t[1][1]
            # weak signs (+-1) decide only the non-strict / complementary questions
            table = {'Lt': {-2: True, 0: False, 1: False, 2: False}, 'LtE': {-2: True, -1: True, 0: True, 2: False},
                     'Gt': {2: True, 0: False, -1: False, -2: False}, 'GtE': {2: True, 1: True, 0: True, -2: False},
                     'Eq': {0: True, 2: False, -2: False}, 'NotEq': {0: False, 2: True, -2: True}}
            truth = table.get(op, {}).get(s)
            if truth is None:
                raise Out()
            return ev(t[2] if truth else t[3], kval, case)
        raise Out()

    INF = float('inf')

    def bounds(d, case):
        """(lo, hi) of the integer polynomial d = a*(k - r) + b*r + c over all k, r >= 0 in the case
        ('lt': k - r <= -1 ; 'ge': k - r >= 0), or None when d has other monomials"""
        d = dict(d)
        if any(m not in ((), ('k',), ('r',)) for m in d):
            return None
        a = d.get(('k',), 0)
        b_ = d.get(('r',), 0) + a
        c = d.get((), 0)
        lo = hi = c
        if a > 0:
            if case == 'lt':
                lo, hi = -INF, hi - a
            else:
                hi = INF
        elif a < 0:
            if case == 'lt':
                lo, hi = lo - a, INF
            else:
                lo = -INF
        if b_ > 0:
            hi = INF
        elif b_ < 0:
            lo = -INF
        return lo, hi

    def sign(d, case):
        bd = bounds(d, case)
        if bd is None:
            return None
        lo, hi = bd
        if lo == hi == 0:
            return 0
        if hi < 0:
            return -2          # strictly negative
        if hi <= 0:
            return -1          # <= 0
        if lo > 0:
            return 2
        if lo >= 0:
            return 1
        return None

    try:
        zero = ev(f, pconst(0), 'lt')          # f(0): with r >= 1 ...
        zero2 = ev(f, pconst(0), 'ge')         # ... and with r == 0
        if zero or zero2:
            return False
        for case, inc in (('lt', 1), ('ge', 0)):
            k = patom('k')
            nxt_case = case
            a = ev(f, padd(k, pconst(1)), case_next(case))
            bb = ev(f, k, case)
            d = psub(a, bb)
            want = padd(patom('q'), pconst(inc))
            if pkey(d) != pkey(want):
                return False
        return True
    except Out:
        return None


def case_next(case):
    """evaluating at k + 1 under the case on k: k < r  =>  k + 1 <= r, handled inside sign() through the polynomial itself"""
    return case


# ---- library call signatures (A4): positional and keyword arguments bound to parameter names ---------------------------
API_SIGS = {
    'np.random.randint': ('low', 'high', 'size', 'dtype'),
    'numpy.random.randint': ('low', 'high', 'size', 'dtype'),
    'np.random.random_integers': ('low', 'high', 'size'),
    'random.randint': ('a', 'b'),
    'np.random.choice': ('a', 'size', 'replace', 'p'),
    'numpy.random.choice': ('a', 'size', 'replace', 'p'),
    'random.choice': ('seq',),
}


def bind_api(t):
    """call term of a known library function -> {parameter name: argument term} (keyword or positional), else None"""
    if t[0] != 'call':
        return None
    sig = API_SIGS.get(show(t[1]))
    if sig is None:
        return None
    out = {}
    for name, a in zip(sig, t[2]):
        out[name] = a
    for k, v in t[3]:
        out[k] = v
    return out
