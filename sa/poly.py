"""Integer polynomials over named atoms: {monomial (sorted tuple of atom strings): coefficient}."""
from fractions import Fraction


def pconst(c):
    return {(): c} if c != 0 else {}


def patom(a):
    return {(a,): 1}


def padd(a, b):
    r = dict(a)
    for m, c in b.items():
        v = r.get(m, 0) + c
        if v == 0:
            r.pop(m, None)
        else:
            r[m] = v
    return r


def pneg(a):
    return {m: -c for m, c in a.items()}


def psub(a, b):
    return padd(a, pneg(b))


def pmul(a, b):
    r = {}
    for m1, c1 in a.items():
        for m2, c2 in b.items():
            m = tuple(sorted(m1 + m2))
            v = r.get(m, 0) + c1 * c2
            if v == 0:
                r.pop(m, None)
            else:
                r[m] = v
    return r


def ppow(a, k):
    r = pconst(1)
    for _ in range(k):
        r = pmul(r, a)
    return r


def is_pconst(p):
    return all(m == () for m in p)


def pconstval(p):
    return p.get((), 0)


def patoms(p):
    return {a for m in p for a in m}


def psubst(p, f):
    """Substitute atoms: f(atom) -> polynomial or None."""
    r = {}
    for m, c in p.items():
        t = pconst(c)
        for a in m:
            s = f(a)
            t = pmul(t, patom(a) if s is None else s)
        r = padd(r, t)
    return r


def _num(c):
    if isinstance(c, Fraction) and c.denominator == 1:
        c = int(c)
    if isinstance(c, float) and c == int(c):
        c = int(c)
    return c


def pshow(p):
    if not p:
        return '0'
    out = []
    for m, c in sorted(p.items(), key=lambda kv: (len(kv[0]), kv[0])):
        c = _num(c)
        mono = '*'.join(m)
        if not m:
            s = str(abs(c))
        elif abs(c) == 1:
            s = mono
        else:
            s = '%s*%s' % (abs(c), mono)
        out.append(('-' if c < 0 else '+', s))
    first = out[0]
    txt = ('-' if first[0] == '-' else '') + first[1]
    for sg, s in out[1:]:
        txt += ' %s %s' % (sg, s)
    return txt


def pkey(p):
    return tuple(sorted((m, _num(c)) for m, c in p.items()))
