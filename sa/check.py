"""CLI:  /venv/bin/python -m sa.check <Cxx> [--tier quick|thorough] [--explain <replay.json>]

Decides one property of /repo (or $SA_REPO) by static analysis of the current source."""
import argparse, importlib, json, os, sys, traceback

from .loader import Repo, AnalysisError
from .report import Report

PROPS = ['C%02d' % i for i in range(1, 19)]


def main(argv=None):
    ap = argparse.ArgumentParser()
    ap.add_argument('pid')
    ap.add_argument('--tier', default=os.environ.get('VERIF_TIER') or 'quick', choices=['quick', 'thorough'])
    ap.add_argument('--explain')
    ap.add_argument('--no-selftest', action='store_true')
    a = ap.parse_args(argv)
    if a.explain:
        with open(a.explain) as f:
            print(json.dumps(json.load(f), indent=1))
        return 0
    if a.pid not in PROPS:
        print('ANALYSIS-ERROR unknown property %s' % a.pid)
        return 2
    try:
        mod = importlib.import_module('sa.props.' + a.pid.lower())
    except ImportError as e:
        print('ANALYSIS-ERROR property=%s no checker module: %s' % (a.pid, e))
        return 2
    try:
        repo = Repo()
        rep = Report(a.pid, a.tier, repo)
        mod.run(rep, repo, a.tier)
        if a.tier == 'thorough' and not a.no_selftest and not os.environ.get('SA_NO_SELFTEST'):
            from . import selftest
            rep.selftest = selftest.run_for(a.pid)
        return rep.finish()
    except AnalysisError as e:
        print('ANALYSIS-ERROR property=%s %s' % (a.pid, e))
        return 2
    except Exception as e:  # never let a traceback look like a violation
        traceback.print_exc()
        print('ANALYSIS-ERROR property=%s internal error: %r' % (a.pid, e))
        return 2


if __name__ == '__main__':
    sys.exit(main())
