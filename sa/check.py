"""CLI:  /venv/bin/python -m sa.check <Cxx> [--tier quick|thorough] [--explain <replay.json>]

Decides one property of /repo (or $SA_REPO) by static analysis of the current source."""
import argparse, importlib, json, os, sys, traceback

from .loader import Repo, AnalysisError
from .report import Report

PROPS = ['C%02d' % i for i in range(1, 19)]


def main(argv=None):
    ap = argparse.ArgumentParser()
    ap.add_argument('pid')
    ap.add_argument('--tier', default=os.environ.get('VERIF_TIER') or 'quick', choices=['quick', 'thorough'])
    ap.add_argument('--explain')
    ap.add_argument('--no-selftest', action='store_true')
    a = ap.parse_args(argv)
    if a.explain:
        with open(a.explain) as f:
            print(json.dumps(json.load(f), indent=1))
        return 0
    if a.pid not in PROPS:
        print('ANALYSIS-ERROR unknown property %s' % a.pid)
        return 2
    try:
        mod = importlib.import_module('sa.props.' + a.pid.lower())
    except ImportError as e:
        print('ANALYSIS-ERROR property=%s no checker module: %s' % (a.pid, e))
        return 2
    # resource guards: source that leaves the fragment in an unforeseen way may make the interpretation blow up; that is an
    # analysis failure (exit 2), never a kill signal that looks like a verdict
    class _Timeout(Exception):
        pass
    try:
        import resource, signal
        mb = int(os.environ.get('SA_MEM_LIMIT_MB', '8192'))
        resource.setrlimit(resource.RLIMIT_AS, (mb * 1024 * 1024, mb * 1024 * 1024))
        def _alarm(sig, frm):
            raise _Timeout()
        signal.signal(signal.SIGALRM, _alarm)
        signal.alarm(int(os.environ.get('SA_TIME_LIMIT_S', '900' if a.tier == 'quick' else '3600')))
    except (ImportError, ValueError, OSError):
        pass
    try:
        repo = Repo()
        rep = Report(a.pid, a.tier, repo)
        if getattr(repo, 'renamed_attributes', None):
            rep.assumptions.append('attribute names bound to the vocabulary of the rules (order of first assignment, spec.ATTR_ORDER): ' +
                                   ', '.join('%s is %s' % (n_, o_) for n_, o_ in sorted(repo.renamed_attributes.items())))
        mod.run(rep, repo, a.tier)
        try:
            signal.alarm(0)
        except Exception:
            pass
        if a.tier == 'thorough' and not a.no_selftest and not os.environ.get('SA_NO_SELFTEST'):
            from . import selftest
            rep.selftest = selftest.run_for(a.pid)
        return rep.finish()
    except AnalysisError as e:
        print('ANALYSIS-ERROR property=%s %s' % (a.pid, e))
        return 2
    except _Timeout:
        print('ANALYSIS-ERROR property=%s the analysis did not finish within its time limit (SA_TIME_LIMIT_S): the source left the fragment the interpreter handles in bounded time' % a.pid)
        return 2
    except MemoryError:
        print('ANALYSIS-ERROR property=%s the analysis exceeded its memory limit (SA_MEM_LIMIT_MB)' % a.pid)
        return 2
    except Exception as e:  # never let a traceback look like a violation
        traceback.print_exc()
        print('ANALYSIS-ERROR property=%s internal error: %r' % (a.pid, e))
        return 2


if __name__ == '__main__':
    sys.exit(main())
