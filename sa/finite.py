"""E5: finite evaluator.  Evaluates a loop body / function body (ast) under ONE valuation of its abstract inputs,
over a tiny value domain: bool, small int, str, None, and
   ('tok', prefix, suffix)   a decorated number token: prefix + digits + suffix
   ('num',)                  an integer obtained from a token / list element (opaque)
   ('cnt', name, k)          counter `name` = value-at-step-start + k
Atoms (inputs, last-ness tests, ...) are supplied by the rule through `atom(node, env)`; it returns NOATOM to decline.
Produces the ordered list of actions the body performs.  No repository code is executed: this interprets the
syntax tree of a handful of statement kinds and gives up (Unknown) on anything else."""
import ast

from .terms import Unknown

NOATOM = object()


class Stop(Exception):
    def __init__(self, kind, value=None):
        self.kind, self.value = kind, value


class Raises(Exception):
    """The evaluated code would raise (e.g. int('(5'))."""


class FiniteEval:
    def __init__(self, atom=None, counters=(), lists=()):
        self.atom = atom or (lambda n, env: NOATOM)
        self.cmp_hook = None
        self.resolver = None
        self.depth = 0
        self.counters = set(counters)
        self.lists = set(lists)
        self.actions = []

    # ---- expressions ------------------------------------------------------------------------
    def ev(self, n, env):
        a = self.atom(n, env)
        if a is not NOATOM:
            return a
        if isinstance(n, ast.Constant):
            return n.value
        if isinstance(n, ast.Name):
            if n.id in env:
                return env[n.id]
            raise Unknown('name %s has no abstract value' % n.id)
        if isinstance(n, ast.UnaryOp):
            v = self.ev(n.operand, env)
            if isinstance(n.op, ast.Not):
                return not self.truth(v)
            if isinstance(n.op, ast.USub) and isinstance(v, int):
                return -v
            raise Unknown('unary ' + ast.dump(n.op))
        if isinstance(n, ast.BoolOp):
            if isinstance(n.op, ast.And):
                v = True
                for x in n.values:
                    v = self.ev(x, env)
                    if not self.truth(v):
                        return v
                return v
            v = False
            for x in n.values:
                v = self.ev(x, env)
                if self.truth(v):
                    return v
            return v
        if isinstance(n, ast.IfExp):
            return self.ev(n.body, env) if self.truth(self.ev(n.test, env)) else self.ev(n.orelse, env)
        if isinstance(n, ast.Compare):
            left = self.ev(n.left, env)
            for op, c in zip(n.ops, n.comparators):
                right = self.ev(c, env)
                if not self.compare(op, left, right):
                    return False
                left = right
            return True
        if isinstance(n, ast.BinOp):
            a, b = self.ev(n.left, env), self.ev(n.right, env)
            return self.binop(n.op, a, b)
        if isinstance(n, ast.JoinedStr):
            v = ''
            for part in n.values:
                if isinstance(part, ast.Constant):
                    v = self.binop(ast.Add(), v, part.value)
                else:
                    x = self.ev(part.value, env)
                    v = self.binop(ast.Add(), v, self.tostr(x))
            return v
        if isinstance(n, ast.Call):
            return self.call(n, env)
        if isinstance(n, ast.Subscript):
            if isinstance(n.value, ast.Name) and n.value.id in self.lists and '__last__' in env and ast.unparse(n.slice) == '-1':
                return env['__last__']            # the token emitted last, read back (code after the loop)
            base = self.ev(n.value, env)
            if isinstance(base, tuple) and base and base[0] == 'tok' and isinstance(n.slice, ast.UnaryOp) and ast.unparse(n.slice) == '-1':
                s = base[1] + '9' + base[2]
                return s[-1]
            if isinstance(base, tuple) and base and base[0] == 'tok' and isinstance(n.slice, ast.Constant) and n.slice.value in (0, -1):
                s = base[1] + '9' + base[2]
                return s[n.slice.value]
            if isinstance(base, tuple) and base and base[0] == 'tok' and isinstance(n.slice, ast.Slice) and n.slice.step is None:
                lo = self.ev(n.slice.lower, env) if n.slice.lower is not None else None
                hi = self.ev(n.slice.upper, env) if n.slice.upper is not None else None
                if (lo is None or (isinstance(lo, int) and not isinstance(lo, bool) and lo >= 0)) \
                        and (hi is None or (isinstance(hi, int) and not isinstance(hi, bool) and hi < 0)):
                    p, sfx = base[1], base[2]
                    if (lo or 0) > len(p) or -(hi or 0) > len(sfx):
                        return '9'                # cuts into the digits: no longer the whole number
                    return ('tok', p[(lo or 0):], sfx[:len(sfx) + (hi or 0)])
                raise Unknown('slice of a token ' + ast.unparse(n))
            if isinstance(base, tuple) and base and base[0] == 'array':
                ix = self.ev(n.slice, env)
                return ('elem', base[1], base[2], ix)
            raise Unknown('subscript ' + ast.unparse(n))
        if isinstance(n, ast.Attribute):
            base = self.ev(n.value, env)
            if base is None:
                raise Raises("AttributeError: 'NoneType' object has no attribute %r" % n.attr)
            if isinstance(base, tuple) and base and base[0] == 'obj':
                return ('attrof', base[1], n.attr)
            raise Unknown('attribute ' + ast.unparse(n))
        if isinstance(n, ast.Tuple):
            return tuple(self.ev(e, env) for e in n.elts)
        raise Unknown('expression ' + ast.unparse(n)[:60])

    def truth(self, v):
        if isinstance(v, tuple):
            if v and v[0] == 'obj':
                return True
            if v and v[0] in ('tok', 'num', 'cnt'):
                if v[0] == 'tok':
                    return True
                raise Unknown('truth value of an opaque number')
            return bool(v)
        return bool(v)

    def tostr(self, x):
        if isinstance(x, tuple) and x and x[0] == 'num':
            return ('tok', '', '')
        if isinstance(x, tuple) and x and x[0] == 'tok':
            return x
        if isinstance(x, (str, int)) and not isinstance(x, bool):
            return str(x)
        raise Unknown('str() of %r' % (x,))

    def binop(self, op, a, b):
        if isinstance(op, ast.Add):
            if isinstance(a, str) and isinstance(b, str):
                return a + b
            if isinstance(a, str) and isinstance(b, tuple) and b[0] == 'tok':
                return ('tok', a + b[1], b[2])
            if isinstance(b, str) and isinstance(a, tuple) and a[0] == 'tok':
                return ('tok', a[1], a[2] + b)
            if isinstance(a, int) and isinstance(b, int):
                return a + b
            if isinstance(a, tuple) and a[0] == 'cnt' and isinstance(b, int):
                return ('cnt', a[1], a[2] + b)
            if isinstance(b, tuple) and b[0] == 'cnt' and isinstance(a, int):
                return ('cnt', b[1], b[2] + a)
        if isinstance(op, ast.Sub):
            if isinstance(a, int) and isinstance(b, int):
                return a - b
            if isinstance(a, tuple) and a[0] == 'cnt' and isinstance(b, int):
                return ('cnt', a[1], a[2] - b)
        raise Unknown('binary operation on %r, %r' % (a, b))

    def compare(self, op, a, b):
        if self.cmp_hook is not None:
            r = self.cmp_hook(op, a, b)
            if r is not NOATOM:
                return r
        if isinstance(op, (ast.In, ast.NotIn)):
            if isinstance(a, str) and isinstance(b, tuple) and b and b[0] == 'tok':
                r = (a in b[1] + b[2]) if not a.isdigit() else None
                if r is None:
                    raise Unknown('digit membership test on a token')
                return r if isinstance(op, ast.In) else not r
            if isinstance(a, str) and isinstance(b, str):
                r = a in b
                return r if isinstance(op, ast.In) else not r
            raise Unknown('membership test on %r, %r' % (a, b))
        if isinstance(op, (ast.Eq, ast.NotEq, ast.Is, ast.IsNot)):
            if (a is None and isinstance(b, tuple) and b and b[0] == 'obj') or (b is None and isinstance(a, tuple) and a and a[0] == 'obj'):
                return isinstance(op, (ast.NotEq, ast.IsNot))
            if isinstance(a, tuple) or isinstance(b, tuple):
                if a == b and isinstance(a, tuple) and a and a[0] == 'cnt':
                    r = True
                else:
                    raise Unknown('equality on opaque values %r, %r' % (a, b))
            else:
                r = (a == b)
            return r if isinstance(op, (ast.Eq, ast.Is)) else not r
        if isinstance(a, (int, float)) and isinstance(b, (int, float)) and not isinstance(a, bool) and not isinstance(b, bool):
            return {ast.Lt: a < b, ast.LtE: a <= b, ast.Gt: a > b, ast.GtE: a >= b}[type(op)]
        if a is None or b is None:
            raise Raises('TypeError: ordering comparison with None')
        raise Unknown('ordering on %r, %r' % (a, b))

    def call_function(self, fnode, args, kwargs=None, selfval=None):
        """Evaluate a (pure, loop-free) repository helper on abstract arguments."""
        if self.depth > 6:
            raise Unknown('helper nesting too deep')
        params = [a.arg for a in fnode.args.args]
        env2 = {}
        if params and params[0] == 'self':
            env2['self'] = selfval if selfval is not None else ('obj', 'self')
            params = params[1:]
        for p, a in zip(params, args):
            env2[p] = a
        for k, v in (kwargs or {}).items():
            env2[k] = v
        defaults = fnode.args.defaults
        for p, d in zip(reversed(fnode.args.args), reversed(defaults)):
            if p.arg not in env2:
                env2[p.arg] = self.ev(d, {})
        self.depth += 1
        try:
            try:
                self.run(fnode.body, env2)
            except Stop as st:
                if st.kind == 'return':
                    return st.value
                raise Unknown('helper %s leaves with %s' % (fnode.name, st.kind))
        finally:
            self.depth -= 1
        return None

    def call(self, n, env):
        f = n.func
        if self.resolver is not None:
            nm = f.id if isinstance(f, ast.Name) else (f.attr if isinstance(f, ast.Attribute) and isinstance(f.value, ast.Name) and f.value.id == 'self' else None)
            fnode = self.resolver(nm) if nm else None
            if fnode is not None and not (isinstance(f, ast.Name) and nm in env):
                try:
                    args = [self.ev(a, env) for a in n.args]
                    kwargs = {k.arg: self.ev(k.value, env) for k in n.keywords}
                except Unknown:
                    # an argument without an abstract value of its own (the whole list, the position): a helper that is one
                    # `return <expression>` is evaluated by name, i.e. with the argument expressions substituted for its parameters
                    body = [st for st in fnode.body if not (isinstance(st, ast.Expr) and isinstance(st.value, ast.Constant))]
                    params = [a.arg for a in fnode.args.args if a.arg != 'self']
                    if len(body) == 1 and isinstance(body[0], ast.Return) and body[0].value is not None and len(params) == len(n.args) and not n.keywords \
                            and all(isinstance(a, (ast.Name, ast.Constant, ast.BinOp, ast.Call, ast.Subscript, ast.Attribute)) for a in n.args):
                        import copy
                        mapping = dict(zip(params, n.args))
                        class Sub(ast.NodeTransformer):
                            def visit_Name(self, node):
                                if node.id in mapping and isinstance(node.ctx, ast.Load):
                                    return copy.deepcopy(mapping[node.id])
                                return node
                        expr = Sub().visit(copy.deepcopy(body[0].value))
                        ast.fix_missing_locations(expr)
                        return self.ev(expr, env)
                    raise
                return self.call_function(fnode, args, kwargs, env.get('self'))
        if isinstance(f, ast.Name):
            args = [self.ev(a, env) for a in n.args]
            if f.id == 'str' and len(args) == 1:
                return self.tostr(args[0])
            if f.id == 'int' and len(args) == 1:
                x = args[0]
                if isinstance(x, tuple) and x[0] == 'tok':
                    if x[1] or x[2]:
                        raise Raises("ValueError: int() of a token that still carries %r" % (x[1] + x[2]))
                    return ('num',)
                if isinstance(x, tuple) and x[0] == 'num':
                    return x
                if isinstance(x, str):
                    raise Raises('ValueError: int(%r)' % x)
                raise Unknown('int() of %r' % (x,))
            if f.id == 'bool' and len(args) == 1:
                return self.truth(args[0])
            raise Unknown('call ' + f.id)
        if isinstance(f, ast.Attribute):
            if isinstance(f.value, ast.Name) and f.value.id in self.lists and f.attr in ('append',):
                v = self.ev(n.args[0], env)
                self.actions.append(('append', f.value.id, v))
                return None
            base = self.ev(f.value, env)
            args = [self.ev(a, env) for a in n.args]
            if isinstance(base, str) and f.attr == 'format' and not n.keywords:
                parts = base.split('{}')
                if len(parts) == len(args) + 1 and '{' not in ''.join(parts) and '}' not in ''.join(parts):
                    v = parts[0]
                    for a, rest in zip(args, parts[1:]):
                        v = self.binop(ast.Add(), v, self.tostr(a))
                        v = self.binop(ast.Add(), v, rest)
                    return v
                raise Unknown('format string ' + base)
            if isinstance(base, tuple) and base and base[0] == 'tok':
                p, s = base[1], base[2]
                if f.attr == 'replace' and len(args) == 2 and all(isinstance(a, str) for a in args):
                    if args[0].isdigit() or any(ch.isdigit() for ch in args[1]):
                        raise Unknown('replace touching digits')
                    return ('tok', p.replace(args[0], args[1]), s.replace(args[0], args[1]))
                if f.attr in ('strip', 'lstrip', 'rstrip') and len(args) <= 1:
                    chars = args[0] if args else ' \t\n'
                    if any(ch.isdigit() for ch in chars):
                        raise Unknown('strip touching digits')
                    if f.attr in ('strip', 'lstrip'):
                        p = p.lstrip(chars)
                    if f.attr in ('strip', 'rstrip'):
                        s = s.rstrip(chars)
                    return ('tok', p, s)
                if f.attr == 'startswith' and len(args) == 1 and isinstance(args[0], str) and not args[0][:1].isdigit():
                    return (p + '9').startswith(args[0]) if p else False
                if f.attr == 'endswith' and len(args) == 1 and isinstance(args[0], str) and not args[0][-1:].isdigit():
                    return ('9' + s).endswith(args[0]) if s else False
            raise Unknown('method call ' + ast.unparse(n)[:60])
        raise Unknown('call ' + ast.unparse(n)[:60])

    # ---- statements ---------------------------------------------------------------------------
    def run(self, stmts, env):
        """Execute statements; returns env.  Raises Stop for continue/break/return."""
        for s in stmts:
            self.stmt(s, env)
        return env

    def stmt(self, s, env):
        if isinstance(s, ast.If):
            if self.truth(self.ev(s.test, env)):
                self.run(s.body, env)
            else:
                self.run(s.orelse, env)
            return
        if isinstance(s, ast.Assign) and len(s.targets) == 1 and isinstance(s.targets[0], (ast.Tuple, ast.List)) and isinstance(s.value, (ast.Tuple, ast.List)) \
                and len(s.targets[0].elts) == len(s.value.elts) and all(isinstance(e, ast.Name) for e in s.targets[0].elts):
            # a, b = x, y : all right-hand sides are evaluated first
            vals = [self.ev(e, env) for e in s.value.elts]
            for tgt, val, src in zip(s.targets[0].elts, vals, s.value.elts):
                one = ast.Assign(targets=[ast.Name(id=tgt.id, ctx=ast.Store())], value=src)
                ast.copy_location(one, s)
                if tgt.id in self.counters:
                    self.stmt(one, env)
                else:
                    env[tgt.id] = val
            return
        if isinstance(s, ast.Assign) and len(s.targets) == 1 and isinstance(s.targets[0], (ast.Tuple, ast.List)) and all(isinstance(e, ast.Name) for e in s.targets[0].elts) \
                and not any(e.id in self.counters for e in s.targets[0].elts):
            # a, b = helper(x): the helper's tuple is taken apart
            v = self.ev(s.value, env)
            if isinstance(v, tuple) and not (v and isinstance(v[0], str) and v[0] in ('tok', 'num', 'cnt', 'obj', 'array', 'elem', 'attrof')) and len(v) == len(s.targets[0].elts):
                for tgt, val in zip(s.targets[0].elts, v):
                    env[tgt.id] = val
                return
            raise Unknown('unpacking of %r' % (v,))
        if isinstance(s, ast.For) and not s.orelse and isinstance(s.target, ast.Name) and isinstance(s.iter, (ast.Constant, ast.Tuple, ast.List)):
            # for marker in '()': a loop over a literal, unrolled
            seq = s.iter.value if isinstance(s.iter, ast.Constant) else [self.ev(e, env) for e in s.iter.elts]
            if isinstance(seq, (str, list)) and len(seq) <= 8:
                for el in seq:
                    env[s.target.id] = el
                    try:
                        self.run(s.body, env)
                    except Stop as st_:
                        if st_.kind == 'continue':
                            continue
                        if st_.kind == 'break':
                            break
                        raise
                return
        if isinstance(s, ast.Assign) and len(s.targets) == 1 and isinstance(s.targets[0], ast.Name):
            name = s.targets[0].id
            try:
                v = self.ev(s.value, env)
            except Unknown:
                if name in self.counters:
                    self.actions.append(('counter-assigned', name, ast.unparse(s.value)))
                    raise Stop('counter-assigned', (name, ast.unparse(s.value)))
                raise
            if name in self.counters and not (isinstance(v, tuple) and v and v[0] == 'cnt' and v[1] == name):
                self.actions.append(('counter-assigned', name, ast.unparse(s.value)))
                raise Stop('counter-assigned', (name, ast.unparse(s.value)))
            if name in self.counters:
                self.actions.append(('inc', name, v[2] - env[name][2]))
            env[name] = v
            return
        def last_of_list(t):
            return isinstance(t, ast.Subscript) and isinstance(t.value, ast.Name) and t.value.id in self.lists and isinstance(t.slice, ast.UnaryOp) \
                and isinstance(t.slice.op, ast.USub) and isinstance(t.slice.operand, ast.Constant) and t.slice.operand.value == 1
        if isinstance(s, ast.AugAssign) and isinstance(s.op, ast.Add) and last_of_list(s.target):
            # out[-1] += ')' : a decoration added to the token emitted last
            v = self.ev(s.value, env)
            if not isinstance(v, str):
                raise Unknown('last token extended by %r' % (v,))
            self.actions.append(('suffix_last', s.target.value.id, v))
            if '__last__' in env:
                env['__last__'] = self.binop(ast.Add(), env['__last__'], v)
            return
        if isinstance(s, ast.Assign) and len(s.targets) == 1 and last_of_list(s.targets[0]) and isinstance(s.value, ast.BinOp) and isinstance(s.value.op, ast.Add) \
                and last_of_list(s.value.left) and s.value.left.value.id == s.targets[0].value.id:
            v = self.ev(s.value.right, env)
            if not isinstance(v, str):
                raise Unknown('last token extended by %r' % (v,))
            self.actions.append(('suffix_last', s.targets[0].value.id, v))
            if '__last__' in env:
                env['__last__'] = self.binop(ast.Add(), env['__last__'], v)
            return
        if isinstance(s, ast.Assign) and len(s.targets) == 1 and last_of_list(s.targets[0]) and '__last__' in env:
            # out[-1] = f(out[-1]) after the loop: the last token is rewritten
            v = self.ev(s.value, env)
            self.actions.append(('replace_last', s.targets[0].value.id, v))
            env['__last__'] = v
            return
        if isinstance(s, ast.AugAssign) and isinstance(s.target, ast.Name):
            name = s.target.id
            cur = env.get(name)
            v = self.ev(s.value, env)
            new = self.binop(s.op, cur, v)
            if name in self.counters:
                self.actions.append(('inc', name, new[2] - cur[2]))
            env[name] = new
            return
        if isinstance(s, ast.Expr):
            if isinstance(s.value, ast.Constant):
                return
            self.ev(s.value, env)
            return
        if isinstance(s, ast.Try):
            from .absint import handlers_only_reraise
            if handlers_only_reraise(s) and not s.finalbody:
                self.run(s.body, env)          # handlers only re-raise with an explanation: the non-raising paths are the body's
                self.run(s.orelse, env)
                return
        if isinstance(s, ast.Pass):
            return
        if isinstance(s, ast.Continue):
            raise Stop('continue')
        if isinstance(s, ast.Break):
            raise Stop('break')
        if isinstance(s, ast.Return):
            raise Stop('return', self.ev(s.value, env) if s.value is not None else None)
        raise Unknown('statement ' + type(s).__name__ + ': ' + ast.unparse(s)[:60])
