"""E2: syntax-directed abstract interpretation of the repository's Python subset into an *effect tree*
over symbolic terms.  Loops over program data are summarised (never unrolled); loops over a literal
configuration list (the criterion list of a specialisation) are partially evaluated.  No repository
code is executed; no path is enumerated; no solver is called."""
import ast, itertools

from .terms import *
from .loader import AnalysisError, src

MAX_INLINE = 8
MUTATING_METHODS = {'append', 'extend', 'insert', 'pop', 'remove', 'clear', 'sort', 'reverse', 'update', 'add', 'discard', 'setdefault', 'popitem'}


class Eff:
    """Node of the effect tree."""
    def __init__(self, kind, func=None, node=None, **kw):
        self.kind = kind
        self.func = func
        self.line = getattr(node, 'lineno', 0) if node is not None else 0
        self.__dict__.update(kw)

    @property
    def loc(self):
        return '%s:%d' % (self.func.relpath if self.func else '?', self.line)

    @property
    def where(self):
        return self.func.where if self.func else '?'

    def __repr__(self):
        d = {k: v for k, v in self.__dict__.items() if k not in ('kind', 'func', 'line', 'body', 'then', 'orelse')}
        return '%s(%s)' % (self.kind, ', '.join('%s=%s' % (k, show(v) if isinstance(v, tuple) else v) for k, v in d.items()))


def dump(effs, ind=0, out=None):
    out = [] if out is None else out
    p = '  ' * ind
    for e in effs:
        if e.kind == 'if':
            out.append(p + 'IF ' + show(e.cond)); dump(e.then, ind + 1, out)
            if e.orelse:
                out.append(p + 'ELSE'); dump(e.orelse, ind + 1, out)
        elif e.kind in ('for', 'while'):
            out.append(p + e.kind.upper() + ' ' + (show(e.binder) + ' in ' + show(e.binder[3]) if e.kind == 'for' else show(e.cond)))
            dump(e.body, ind + 1, out)
        elif e.kind == 'call':
            out.append(p + 'CALL ' + e.target.where); dump(e.body, ind + 1, out)
        elif e.kind == 'iter':
            out.append(p + 'ITER ' + show(e.value)); dump(e.body, ind + 1, out)
        else:
            out.append(p + repr(e))
    return out


def leaves_by_raise_only(effs):
    """the effect list ends in a raise and contains no return / break / continue (every way out of it is an exception)"""
    if not effs or effs[-1].kind != 'raise':
        return False
    for e, _ in iter_effects(effs):
        if e.kind in ('return', 'break', 'continue'):
            return False
    return True


def handlers_only_reraise(s):
    """every except-handler of the try statement ends by raising and has no other way out"""
    if not s.handlers:
        return not any(isinstance(x, (ast.Return, ast.Break, ast.Continue)) for b in s.finalbody for x in ast.walk(b))
    for h in s.handlers:
        if not h.body or not isinstance(h.body[-1], ast.Raise):
            return False
        if any(isinstance(x, (ast.Return, ast.Break, ast.Continue, ast.Yield)) for b in h.body for x in ast.walk(b)):
            return False
    return not any(isinstance(x, (ast.Return, ast.Break, ast.Continue)) for b in s.finalbody for x in ast.walk(b))


def iter_effects(effs, ctx=()):
    """Yield (effect, context) for every effect; context = tuple of enclosing for/if/while/call/iter effects
    (for an 'if' the entry is (eff, True|False) for then/else)."""
    for e in effs:
        yield e, ctx
        if e.kind == 'if':
            yield from iter_effects(e.then, ctx + ((e, True),))
            yield from iter_effects(e.orelse, ctx + ((e, False),))
        elif e.kind in ('for', 'while', 'call', 'iter'):
            yield from iter_effects(e.body, ctx + ((e, None),))


CMP_FLIP = {'Lt': 'Gt', 'Gt': 'Lt', 'LtE': 'GtE', 'GtE': 'LtE', 'Eq': 'Eq', 'NotEq': 'NotEq'}


def is_term(v):
    return isinstance(v, tuple) and bool(v) and isinstance(v[0], str)


def map_effects(effs, f):
    """copy of an effect tree with the bottom-up term rewrite f applied to every term it carries"""
    def mt(v):
        if is_term(v):
            return subst(v, f)
        if isinstance(v, tuple):
            return tuple(mt(x) for x in v)
        if isinstance(v, list) and v and all(isinstance(x, Eff) for x in v):
            return map_effects(v, f)
        if isinstance(v, list):
            return [mt(x) for x in v]
        if isinstance(v, dict):
            return {k: mt(x) for k, x in v.items()}
        return v
    out = []
    for e in effs:
        n = Eff.__new__(Eff)
        for k, v in e.__dict__.items():
            n.__dict__[k] = v if (k in ('func', 'node', 'returns', 'ctrl') or (k == 'target' and not is_term(v))) else mt(v)
        out.append(n)
    return out


def leave_of(effs):
    """(condition under which executing effs leaves the current block by continue / break / return, kinds seen)"""
    cond, kinds = FALSE, set()
    for e in effs:
        if e.kind in ('continue', 'break', 'return'):
            kinds.add(e.kind)
            return TRUE, kinds
        if e.kind == 'if':
            l1, k1 = leave_of(e.then)
            l2, k2 = leave_of(e.orelse)
            kinds |= k1 | k2
            l = simp(OR(AND(e.cond, l1), AND(NOT(e.cond), l2)))
            if l == TRUE:
                return TRUE, kinds
            cond = simp(OR(cond, l))
    return cond, kinds


def literals_of(g):
    """conjuncts known true when g holds, as a dict condition -> truth"""
    out = {}
    def add(x, val):
        if x[0] == 'not':
            add(x[1], not val)
        elif x[0] == 'bool' and ((x[1] == 'and' and val) or (x[1] == 'or' and not val)):
            for y in x[2]:
                add(y, val)
        else:
            out[x] = val
    add(boolify(g), True)
    return out


def refine_env(env, g):
    """path-sensitive reads: under branch condition g, a value  c ? a : b  whose condition g decides is a (or b)"""
    lits = None
    out = {}
    for k, v in env.items():
        if v[0] != 'ite':
            continue
        if lits is None:
            lits = literals_of(g)
            try:
                for k_, v_ in facts_of(g, True).items():        # (c ? None : d) is None  decides c, too
                    lits.setdefault(k_, v_)
            except Exception:
                pass
        w = v
        while w[0] == 'ite' and w[1] in lits:
            w = w[2] if lits[w[1]] else w[3]
        if w is not v:
            out[k] = w
    return out


class Frame:
    def __init__(self, func, env):
        self.func = func
        self.cls = func.cls
        self.env = env
        self.defdepth = {k: 0 for k in env}
        self.loopdepth = 0
        self.returns = []     # (guard term, value term, in_loop)
        self.ctrl = None      # 'break' | 'continue' | 'return' when reached unconditionally
        self.guards = []      # enclosing symbolic if-conditions (for return guards)
        self.loops = []       # stack of loop ids


RECV_HINT = {'model': 'Model', 'pair': 'Pair', 'lec_pair': 'Pair', 'st_pr_pair': 'Pair'}


class Interp:
    def __init__(self, repo, config=None):
        self.repo = repo
        self.ids = itertools.count(1)
        self.heap = {}
        self.written_attrs = set()     # attribute locations incremented (x.a += ...) during this run
        self.lp_problems = set()
        self.depth = 0
        self.stack = []
        self.whiles = {}
        self.loopinfo = {}
        self.sink = None
        self.unknown = []       # constructs outside the fragment (reported as inconclusive by rules that need them)
        self.config = config or {}
        self.aliases = []
        self.lambdas = {}
        self.closures = {}
        self.opaque = None     # predicate(Func) -> keep the call opaque instead of inlining
        self.modconst = {}
        self.frames = {}
        self.lpstore = {}      # id -> current value of a mutable LpAffineExpression object (PuLP's += is in place)
        ENUM_CLASSES.update(c for c in repo.classes if self._is_enum(c))

    def enum_members_of(self, dom):
        """iterating an Enum class of the package yields its members in definition order"""
        if dom[0] == 'sym' and dom[1] in ENUM_CLASSES and dom[1] in self.repo.class_module:
            try:
                ms = self.repo.enum_members(self.repo.class_module[dom[1]], dom[1])
            except Exception:
                return dom
            for n in self.repo.trees[self.repo.class_module[dom[1]]].body:
                if isinstance(n, ast.ClassDef) and n.name == dom[1] and any(isinstance(m, ast.FunctionDef) and m.name in ('__iter__', '__new__', '_missing_') for m in n.body):
                    return dom
            vals = [v for _, v in ms]
            if len(set(map(repr, vals))) != len(vals):
                return dom                         # aliases (equal values) are skipped by Enum iteration: not modelled
            return ('tuple', tuple(A(S(dom[1]), nm) for nm, _ in ms))
        return dom

    def _is_enum(self, cname):
        rel = self.repo.class_module[cname]
        for n in self.repo.trees[rel].body:
            if isinstance(n, ast.ClassDef) and n.name == cname:
                return any(isinstance(b, ast.Name) and b.id == 'Enum' for b in n.bases)
        return False

    # ---- entry ---------------------------------------------------------------------
    def run(self, func, args, selfterm=None, use_defaults=False):
        """Interpret func with parameter terms args (dict name->term).  Returns (effects, return term).  A parameter that is
        not given is symbolic (the function is analysed for every argument) - its default only counts at a call site that
        omits it - unless use_defaults is set."""
        env = {}
        params = func.params
        if func.cls and params and params[0] == 'self':
            env['self'] = selfterm if selfterm is not None else S('self')
            params = params[1:]
        defaults = func.node.args.defaults
        dmap = {}
        for p, d in zip(reversed(func.node.args.args), reversed(defaults)):
            dmap[p.arg] = d
        for p in params:
            if p in args:
                env[p] = args[p]
            elif p in dmap and use_defaults:
                env[p] = self.ex(dmap[p], Frame(func, {}))
            else:
                env[p] = S(p)
        fr = Frame(func, env)
        self.init_generator(func, fr)
        out = []
        old = self.sink
        self.sink = out
        try:
            self.block(func.node.body, fr)
        finally:
            self.sink = old
        return out, self.retval(fr)

    @staticmethod
    def is_generator(func):
        # (a yield belongs to the innermost enclosing def: nested functions are not searched)
        todo = list(ast.iter_child_nodes(func.node))
        while todo:
            n = todo.pop()
            if isinstance(n, (ast.Yield, ast.YieldFrom)):
                return True
            if isinstance(n, (ast.FunctionDef, ast.AsyncFunctionDef, ast.Lambda, ast.ClassDef)):
                continue
            todo.extend(ast.iter_child_nodes(n))
        return False

    def solve_reachers(self):
        """names of package functions / methods that (transitively) call something named solve"""
        if not hasattr(self, '_solve_reachers'):
            calls = {}
            for tree in self.repo.trees.values():
                for fn in [x for x in ast.walk(tree) if isinstance(x, ast.FunctionDef)]:
                    cs = calls.setdefault(fn.name, set())
                    for x in ast.walk(fn):
                        if isinstance(x, ast.Call):
                            nm = x.func.attr if isinstance(x.func, ast.Attribute) else (x.func.id if isinstance(x.func, ast.Name) else None)
                            if nm:
                                cs.add(nm)
            reach = {'solve'}
            changed = True
            while changed:
                changed = False
                for fn, cs in calls.items():
                    if fn not in reach and cs & reach:
                        reach.add(fn)
                        changed = True
            self._solve_reachers = reach
        return self._solve_reachers

    def init_generator(self, func, fr):
        if self.is_generator(func):
            reach = self.solve_reachers()
            for x in ast.walk(func.node):
                if isinstance(x, ast.Call) and ((isinstance(x.func, ast.Attribute) and x.func.attr in reach) or (isinstance(x.func, ast.Name) and x.func.id in reach)):
                    # the body of a generator runs when (and as far as) its consumer asks: the order of its solves relative to the
                    # consumer's tests is not the textual one the effect tree would record
                    raise Unknown('the generator function %s performs solves lazily' % func.qualname)
            fr.env['__yield__'] = ('list', ())
            fr.defdepth['__yield__'] = 0
            fr.is_gen = True

    def retval(self, fr):
        if getattr(fr, 'is_gen', False):
            return fr.env['__yield__']
        if not fr.returns:
            return NONE
        if any(inl for _, _, inl in fr.returns):
            return TOP('return-in-loop')
        val = None
        for g, v, _ in reversed(fr.returns):
            val = v if (val is None and g == TRUE) else ('ite', g, v, val if val is not None else NONE)
        return simp_top(val)

    # ---- helpers -------------------------------------------------------------------
    def emit(self, e):
        self.sink.append(e)
        return e

    def new_binder(self, dom, hint):
        return ('bvar', next(self.ids), hint, dom)

    def is_function_value(self, t):
        if t[0] in ('lambda', 'closure'):
            return True
        if t[0] == 'sym' and t[1] in self.repo.classes:
            return True                # a class of the repository, held in a variable
        if t[0] == 'attr' and t[1][0] == 'obj':
            return t[2] in self.repo.classes.get(t[1][1], {})
        return False

    def lookup(self, name, fr):
        if name in fr.env:
            v = fr.env[name]
            if v[0] == 'ref':
                return self.lookup(v[2], self.frames[v[1]])
            return self.deref(v)
        g = self.module_constant(name, fr)
        if g is not None:
            return g
        if name.startswith('Lp'):
            # PuLP constants (from pulp import *), read from the library's constants.py source (A3)
            try:
                from .pulpfacts import constants
                v = constants()['names'].get(name)
                if v is not None and isinstance(v, (str, int)):
                    return C(v)
            except Exception:
                pass
        return S(name)

    def class_constant(self, base, name, fr):
        """self.NAME / Class.NAME where NAME = <literal> is assigned in the class body (never re-assigned on instances)"""
        cname = None
        if base == fr.env.get('self') and fr.cls:
            cname = fr.cls
        elif base[0] == 'obj':
            cname = base[1]
        elif base[0] == 'sym' and base[1] in self.repo.classes and base[1] not in fr.env:
            cname = base[1]
        if cname is None or self._is_enum(cname):
            return None
        key = ('cc', cname, name)
        if key in self.modconst:
            return self.modconst[key]
        val = None
        for rel, tree in self.repo.trees.items():
            for c in tree.body:
                if isinstance(c, ast.ClassDef) and c.name == cname:
                    found = [s_.value for s_ in c.body if isinstance(s_, ast.Assign) and len(s_.targets) == 1 and isinstance(s_.targets[0], ast.Name) and s_.targets[0].id == name]
                    stored = any(isinstance(x, ast.Attribute) and x.attr == name and isinstance(x.ctx, ast.Store) for m in c.body if isinstance(m, ast.FunctionDef) for x in ast.walk(m))
                    if len(found) == 1 and not stored:
                        try:
                            dummy = type(fr.func)(fr.func.module, cname, ast.parse('def _():\n pass').body[0], rel)
                            # names of the class body visible in the expression: other class-level constants
                            env = {}
                            self.modconst[key] = None
                            for x in ast.walk(found[0]):
                                if isinstance(x, ast.Name) and any(isinstance(s_, ast.Assign) and len(s_.targets) == 1 and isinstance(s_.targets[0], ast.Name) and s_.targets[0].id == x.id for s_ in c.body):
                                    sub = self.class_constant(S(cname), x.id, fr)
                                    if sub is not None:
                                        env[x.id] = sub
                            val = self.ex(found[0], Frame(dummy, env))
                        except Unknown:
                            val = None
        self.modconst[key] = val
        return val

    def namedtuples(self):
        """module-level  Name = namedtuple('Name', ['a', 'b'] | 'a b')  ->  {Name: [fields]}"""
        if getattr(self, '_namedtuples', None) is None:
            out = {}
            for rel, tree in self.repo.trees.items():
                for st in tree.body:
                    if isinstance(st, ast.Assign) and len(st.targets) == 1 and isinstance(st.targets[0], ast.Name) and isinstance(st.value, ast.Call) \
                            and ast.unparse(st.value.func).split('.')[-1] == 'namedtuple' and len(st.value.args) == 2:
                        fl = st.value.args[1]
                        if isinstance(fl, (ast.List, ast.Tuple)) and all(isinstance(x, ast.Constant) and isinstance(x.value, str) for x in fl.elts):
                            out[st.targets[0].id] = [x.value for x in fl.elts]
                        elif isinstance(fl, ast.Constant) and isinstance(fl.value, str):
                            out[st.targets[0].id] = fl.value.replace(',', ' ').split()
            self._namedtuples = out
        return self._namedtuples

    def module_state_names(self):
        """module-level names that some function rebinds (`global x; x = ...`) or changes in place (x[k] = v, x.append(v), ...)"""
        if getattr(self, '_module_state', None) is None:
            out = set()
            for rel, tree in self.repo.trees.items():
                top = {t.id for st in tree.body if isinstance(st, (ast.Assign, ast.AnnAssign)) for t in (st.targets if isinstance(st, ast.Assign) else [st.target]) if isinstance(t, ast.Name)}
                for fn in [n for n in ast.walk(tree) if isinstance(n, (ast.FunctionDef, ast.AsyncFunctionDef))]:
                    local = {a.arg for a in fn.args.posonlyargs + fn.args.args + fn.args.kwonlyargs}
                    glob = set()
                    for n in ast.walk(fn):
                        if isinstance(n, ast.Global):
                            glob |= set(n.names)
                        elif isinstance(n, ast.Name) and isinstance(n.ctx, ast.Store):
                            local.add(n.id)
                    local -= glob
                    out |= glob & top
                    for n in ast.walk(fn):
                        base = None
                        if isinstance(n, (ast.Assign, ast.AugAssign)):
                            for t in (n.targets if isinstance(n, ast.Assign) else [n.target]):
                                if isinstance(t, ast.Subscript):
                                    v = t.value
                                    while isinstance(v, ast.Subscript):
                                        v = v.value
                                    if isinstance(v, ast.Name):
                                        base = v.id
                        elif isinstance(n, ast.Call) and isinstance(n.func, ast.Attribute) and isinstance(n.func.value, ast.Name) and n.func.attr in (
                                'append', 'extend', 'update', 'insert', 'pop', 'remove', 'sort', 'setdefault', 'add', 'clear', 'discard', 'popitem', 'reverse'):
                            base = n.func.value.id
                        if base is not None and base in top and base not in local:
                            out.add(base)
            self._module_state = out
        return self._module_state

    def module_constant(self, name, fr):
        """Top-level `NAME = <literal built from constants / enum members>` of a repository module (own module first)."""
        if name in self.modconst:
            return self.modconst[name]
        if name in self.module_state_names():
            self.modconst[name] = None         # rebound under `global` or filled in place by some function: state, not a constant
            return None
        found = []
        order = sorted(self.repo.trees, key=lambda r: (r != getattr(fr.func, 'relpath', None), r))
        for rel in order:
            for n in self.repo.trees[rel].body:
                if isinstance(n, ast.Assign) and len(n.targets) == 1 and isinstance(n.targets[0], ast.Name) and n.targets[0].id == name:
                    found.append(n.value)
            if found:
                break
        val = None
        lit_call = (len(found) == 1 and isinstance(found[0], ast.Call) and isinstance(found[0].func, ast.Name) and found[0].func.id in ('frozenset', 'set', 'tuple', 'list')
                    and len(found[0].args) == 1 and isinstance(found[0].args[0], (ast.Tuple, ast.List, ast.Set)))
        if len(found) == 1 and isinstance(found[0], ast.Subscript) and isinstance(found[0].value, ast.Name) and found[0].value.id == 'LpStatus' \
                and isinstance(found[0].slice, (ast.Name, ast.Attribute)):
            # NAME = LpStatus[LpStatusOptimal]: PuLP's own status string (pulp/constants.py, A3)
            try:
                from .pulpfacts import constants
                key_ = found[0].slice.id if isinstance(found[0].slice, ast.Name) else found[0].slice.attr
                sv = constants()['LpStatus'].get(key_)
                if isinstance(sv, str):
                    self.modconst[name] = C(sv)
                    return C(sv)
            except Exception:
                pass
        is_partial = len(found) == 1 and isinstance(found[0], ast.Call) and ast.unparse(found[0].func) in ('partial', 'functools.partial')
        is_getter = len(found) == 1 and isinstance(found[0], ast.Call) and ast.unparse(found[0].func) in ('attrgetter', 'operator.attrgetter', 'itemgetter', 'operator.itemgetter') \
            and found[0].args and not found[0].keywords and all(isinstance(x, ast.Constant) for x in found[0].args)
        if len(found) == 1 and (lit_call or is_partial or is_getter or isinstance(found[0], (ast.Tuple, ast.List, ast.Dict, ast.Constant, ast.Attribute, ast.Set))):
            try:
                self.modconst[name] = None
                val = self.ex(found[0], Frame(fr.func, {}))
                if isinstance(found[0], ast.Set):
                    val = None
            except Unknown:
                val = None
        self.modconst[name] = val
        return val

    def callee_mutates(self, target, param):
        for n in ast.walk(target.node):
            if isinstance(n, ast.Call) and isinstance(n.func, ast.Attribute) and n.func.attr in ('append', 'extend', 'update', 'insert', 'pop', 'remove', 'sort'):
                v = n.func.value
                while isinstance(v, ast.Subscript):
                    v = v.value
                if isinstance(v, ast.Name) and v.id == param:
                    return True
            if isinstance(n, (ast.Assign, ast.AugAssign)):
                for t in (n.targets if isinstance(n, ast.Assign) else [n.target]):
                    if isinstance(t, ast.Subscript) and isinstance(t.value, ast.Name) and t.value.id == param:
                        return True
            if isinstance(n, ast.Call):
                for a in n.args:
                    if isinstance(a, ast.Name) and a.id == param:
                        fname = n.func.attr if isinstance(n.func, ast.Attribute) else (n.func.id if isinstance(n.func, ast.Name) else None)
                        cands = list(self.repo.funcs_by_name.get(fname, [])) + [c[fname] for c in self.repo.classes.values() if fname in c]
                        if cands and target not in cands:
                            return True      # conservatively: passed on to another repository function
        return False

    def really_mutates(self, target, param, seen=None):
        """the callee (or a repository function it hands the parameter to) mutates the parameter in place"""
        seen = seen or set()
        if (target, param) in seen:
            return False
        seen.add((target, param))
        for n in ast.walk(target.node):
            if isinstance(n, ast.Call) and isinstance(n.func, ast.Attribute) and n.func.attr in ('append', 'extend', 'update', 'insert', 'pop', 'remove', 'sort', 'clear', 'reverse'):
                v = n.func.value
                while isinstance(v, ast.Subscript):
                    v = v.value
                if isinstance(v, ast.Name) and v.id == param:
                    return True
            if isinstance(n, (ast.Assign, ast.AugAssign)):
                for t in (n.targets if isinstance(n, ast.Assign) else [n.target]):
                    if isinstance(t, ast.Subscript) and isinstance(t.value, ast.Name) and t.value.id == param:
                        return True
            if isinstance(n, ast.Call):
                for k, a in enumerate(n.args):
                    if isinstance(a, ast.Name) and a.id == param:
                        fname = n.func.attr if isinstance(n.func, ast.Attribute) else (n.func.id if isinstance(n.func, ast.Name) else None)
                        cands = list(self.repo.funcs_by_name.get(fname, [])) + [c[fname] for c in self.repo.classes.values() if fname in c]
                        for c in cands:
                            ps = c.params[1:] if (c.cls and not c.is_static) else c.params
                            if k < len(ps) and self.really_mutates(c, ps[k], seen):
                                return True
        return False

    def deref(self, v):
        if v[0] == 'lpref':
            return self.lpstore[v[1]]
        return v

    @staticmethod
    def is_lp_object(t):
        return t[0] == 'call' and t[1] in (S('lpSum'), S('LpAffineExpression'))

    def load(self, t):
        return self.heap.get(t, t)

    def attr_mutated_in_place(self, name):
        """is an attribute of this name changed in place anywhere in the package (x.name.append(..), x.name[i] = .., x.name += ..)?"""
        if not hasattr(self, '_mutated_attrs'):
            out = set()
            for tree in self.repo.trees.values():
                for n in ast.walk(tree):
                    if isinstance(n, ast.Call) and isinstance(n.func, ast.Attribute) and n.func.attr in MUTATING_METHODS and isinstance(n.func.value, ast.Attribute):
                        out.add(n.func.value.attr)
                    elif isinstance(n, ast.Subscript) and isinstance(n.ctx, (ast.Store, ast.Del)) and isinstance(n.value, ast.Attribute):
                        out.add(n.value.attr)
                    elif isinstance(n, ast.AugAssign) and isinstance(n.target, ast.Attribute):
                        out.add(n.target.attr)
                    elif isinstance(n, ast.AugAssign) and isinstance(n.target, ast.Subscript) and isinstance(n.target.value, ast.Attribute):
                        out.add(n.target.value.attr)
                # ... or through a local alias:  lst = model.attr; lst.append(x)  (also when handed to a callee: any name bound to the
                # attribute's value that is later mutated, passed as an argument or returned counts)
                for fn in [x for x in ast.walk(tree) if isinstance(x, ast.FunctionDef)]:
                    alias = {}
                    for n in ast.walk(fn):
                        if isinstance(n, ast.Assign) and isinstance(n.value, ast.Attribute):
                            for t in n.targets:
                                if isinstance(t, ast.Name):
                                    alias.setdefault(t.id, set()).add(n.value.attr)
                    if not alias:
                        continue
                    for n in ast.walk(fn):
                        if isinstance(n, ast.Call) and isinstance(n.func, ast.Attribute) and n.func.attr in MUTATING_METHODS and isinstance(n.func.value, ast.Name) and n.func.value.id in alias:
                            out |= alias[n.func.value.id]
                        elif isinstance(n, ast.Subscript) and isinstance(n.ctx, (ast.Store, ast.Del)) and isinstance(n.value, ast.Name) and n.value.id in alias:
                            out |= alias[n.value.id]
                        elif isinstance(n, ast.AugAssign) and isinstance(n.target, ast.Name) and n.target.id in alias:
                            out |= alias[n.target.id]
                        elif isinstance(n, ast.Call):
                            for a in list(n.args) + [k.value for k in n.keywords]:
                                if isinstance(a, ast.Name) and a.id in alias:
                                    out |= alias[a.id]              # handed on: the callee may fill it
            self._mutated_attrs = out
        return name in self._mutated_attrs

    def is_frozen_value(self, x):
        if x[0] == 'const' or is_enum_member(x) or x[0] == 'sym':
            return True
        if x[0] == 'tuple':
            return all(self.is_frozen_value(y) or (y[0] == 'list' and all(self.is_frozen_value(z) for z in y[1])) for y in x[1])
        return False

    def counter_attrs(self):
        """names of attributes that are incremented / decremented somewhere in the package (x.a += 1)"""
        if not hasattr(self, '_counter_attrs'):
            self._counter_attrs = {n.target.attr for tree in self.repo.trees.values() for n in ast.walk(tree)
                                   if isinstance(n, ast.AugAssign) and isinstance(n.target, ast.Attribute) and isinstance(n.op, (ast.Add, ast.Sub))
                                   and isinstance(n.value, ast.Constant) and isinstance(n.value.value, int)}
        return self._counter_attrs

    # ---- expressions ---------------------------------------------------------------
    def ex(self, n, fr):
        t = self._ex(n, fr)
        return simp_top(t)

    def _ex(self, n, fr):
        if isinstance(n, ast.SetComp):
            # {f(x) for x in xs}: the SET of the values (duplicates collapse) - not the list comprehension
            lc = ast.copy_location(ast.ListComp(elt=n.elt, generators=n.generators), n)
            return CALL(S('set'), [self._ex(lc, fr)])
        if isinstance(n, ast.Constant):
            return C(n.value)
        if isinstance(n, ast.Name):
            return self.lookup(n.id, fr)
        if isinstance(n, ast.Attribute):
            if n.attr in getattr(self.repo, 'unsupported_properties', ()):
                raise Unknown('read of the property %s, whose getter is outside the fragment (not a single pure return)' % n.attr)
            base = self.ex(n.value, fr)
            if n.attr in MUTATING_METHODS and isinstance(n.value, ast.Name) and n.value.id in fr.env and base[0] in ('list', 'dict', 'comp', 'cat', 'accum', 'upd'):
                # `push = out.append` kept as a value: later calls of it change `out` behind the analysis' back
                raise Unknown('bound method %s.%s of a local container taken as a value' % (n.value.id, n.attr))
            if base[0] == 'tuple' and base in getattr(self, 'ntuple_fields', {}) and n.attr in self.ntuple_fields[base]:
                return base[1][self.ntuple_fields[base].index(n.attr)]          # field of a namedtuple record
            if n.attr == '__members__' and base[0] == 'sym' and base[1] in ENUM_CLASSES:
                ms = self.enum_members_of(base)
                if is_literal_seq(ms):
                    return ('dict', tuple((C(m_[2]), m_) for m_ in ms[1]))          # name -> member
            t = self.load(A(base, n.attr))
            if t == A(base, n.attr):
                cc = self.class_constant(base, n.attr, fr)
                if cc is not None:
                    return cc
            return t
        if isinstance(n, ast.Subscript):
            b = self.ex(n.value, fr)
            if isinstance(n.slice, ast.Slice):
                sl = n.slice
                if sl.step is not None:
                    if isinstance(sl.step, ast.UnaryOp) and isinstance(sl.step.op, ast.USub) and isinstance(sl.step.operand, ast.Constant) and sl.step.operand.value == 1 \
                            and sl.lower is None and sl.upper is None:
                        return CALL(S('list'), [CALL(S('reversed'), [b])])          # x[::-1]
                    raise Unknown('slice step')
                return ('slice', b, self.ex(sl.lower, fr) if sl.lower else NONE, self.ex(sl.upper, fr) if sl.upper else NONE)
            return self.load(I(b, self.ex(n.slice, fr)))
        if isinstance(n, ast.BinOp):
            l, r = self.ex(n.left, fr), self.ex(n.right, fr)
            if isinstance(n.op, ast.Mod) and l[0] == 'const' and isinstance(l[1], str):
                # 'name_%d' % k  /  '%s_%s' % (a, b): printf-style formatting with plain %d / %s / %i placeholders
                import re as _re
                parts = _re.split(r'(%[dsi])', l[1])
                holes = [p_ for p_ in parts if p_ in ('%d', '%s', '%i')]
                vals = list(r[1]) if r[0] == 'tuple' else [r]
                if '%' not in ''.join(p_ for p_ in parts if p_ not in ('%d', '%s', '%i')) and len(holes) == len(vals) and holes:
                    tmpl = ''.join('{}' if p_ in ('%d', '%s', '%i') else p_.replace('{', '{{').replace('}', '}}') for p_ in parts)
                    return self.format_template(tmpl, vals)
            if isinstance(n.op, (ast.Div, ast.FloorDiv, ast.Mod)) and self.sink is not None and not is_num(r):
                self.emit(Eff('div', fr.func, n, num=l, den=r, op=type(n.op).__name__))     # evaluation point of a division
            return BIN(type(n.op).__name__, l, r)
        if isinstance(n, ast.UnaryOp):
            if isinstance(n.op, ast.Not):
                return NOT(as_cond(self.ex(n.operand, fr)))
            v = self.ex(n.operand, fr)
            if isinstance(n.op, ast.USub) and is_num(v):
                return C(-v[1])
            return ('un', type(n.op).__name__, v)
        if isinstance(n, ast.BoolOp):
            vs = tuple(self.ex(v, fr) for v in n.values)
            return AND(*vs) if isinstance(n.op, ast.And) else OR(*vs)
        if isinstance(n, ast.Compare):
            left = self.ex(n.left, fr)
            parts = []
            for op, c in zip(n.ops, n.comparators):
                right = self.ex(c, fr)
                opn = type(op).__name__
                if opn in ('Is', 'IsNot', 'Eq', 'NotEq') and NONE in (left, right) and self.is_function_value(right if left == NONE else left):
                    # a function value (lambda, nested def, bound method of a repository class) is an object, never None
                    parts.append(FALSE if opn in ('Is', 'Eq') else TRUE)
                    left = right
                    continue
                if left[0] == 'const' and right[0] != 'const' and opn in CMP_FLIP:
                    parts.append(CMP(CMP_FLIP[opn], right, left))       # canonical orientation: the literal on the right
                else:
                    parts.append(CMP(opn, left, right))
                left = right
            return parts[0] if len(parts) == 1 else AND(*parts)
        if isinstance(n, ast.Tuple):
            return ('tuple', tuple(self.ex(e, fr) for e in n.elts))
        if isinstance(n, ast.List):
            return ('list', tuple(self.ex(e, fr) for e in n.elts))
        if isinstance(n, ast.Dict):
            return ('dict', tuple((self.ex(k, fr), self.ex(v, fr)) for k, v in zip(n.keys, n.values)))
        if isinstance(n, ast.IfExp):
            c = as_cond(self.ex(n.test, fr))
            if c == TRUE:
                return self.ex(n.body, fr)
            if c == FALSE:
                return self.ex(n.orelse, fr)
            return ('ite', c, self.ex(n.body, fr), self.ex(n.orelse, fr))
        if isinstance(n, ast.DictComp) and len(n.generators) == 1 and not n.generators[0].ifs:
            dom0 = self.enum_members_of(self.ex(n.generators[0].iter, fr))
            if is_literal_seq(dom0) and len(dom0[1]) <= 16:
                items = []
                for el in dom0[1]:
                    env2 = dict(fr.env)
                    fr2 = Frame(fr.func, env2)
                    fr2.cls = fr.cls
                    self.bind(n.generators[0].target, el, env2)
                    items.append((self.ex(n.key, fr2), self.ex(n.value, fr2)))
                if all(known_value(k_) is not None for k_, _ in items):
                    # a repeated key keeps its first position and takes the LAST value (Python's dict semantics)
                    merged = {}
                    for k_, v_ in items:
                        kk = known_value(k_)
                        merged[kk] = (merged[kk][0] if kk in merged else k_, v_)
                    return ('dict', tuple(merged.values()))
        if isinstance(n, (ast.ListComp, ast.GeneratorExp, ast.SetComp)) and len(n.generators) == 1:
            dom0 = self.enum_members_of(self.ex(n.generators[0].iter, fr))
            if dom0[0] == 'const' and isinstance(dom0[1], str) and len(dom0[1]) <= 8:
                dom0 = ('tuple', tuple(C(ch) for ch in dom0[1]))        # for ch in 'ab'
            if is_literal_seq(dom0):
                out = []
                ok = True
                for el in dom0[1]:
                    env2 = dict(fr.env)
                    fr2 = Frame(fr.func, env2)
                    fr2.cls = fr.cls
                    self.bind(n.generators[0].target, el, env2)
                    g = TRUE
                    for c in n.generators[0].ifs:
                        g = AND(g, as_cond(self.ex(c, fr2)))
                    if g == FALSE:
                        continue
                    if g != TRUE:
                        ok = False
                        break
                    out.append(self.ex(n.elt, fr2))
                if ok:
                    return ('list', tuple(out))
        if isinstance(n, ast.DictComp):
            env2 = dict(fr.env)
            fr2 = Frame(fr.func, env2)
            fr2.cls = fr.cls
            chain = []
            for g in n.generators:
                dom = self.ex(g.iter, fr2)
                b = self.bind_loop_target(g.target, dom, fr2.env)
                guard = TRUE
                for c in g.ifs:
                    guard = AND(guard, self.ex(c, fr2))
                chain.append((b, guard))
            return ('dictcomp', tuple(chain), self.ex(n.key, fr2), self.ex(n.value, fr2))
        if isinstance(n, (ast.ListComp, ast.GeneratorExp, ast.SetComp)):
            env2 = dict(fr.env)
            fr2 = Frame(fr.func, env2)
            fr2.cls = fr.cls
            chain = []
            for g in n.generators:
                dom = self.ex(g.iter, fr2)
                sp = splice_domain(dom)
                if sp is not None:
                    # generator over a comprehension: splice its binder chain in and bind the target to its element
                    chain.extend(sp[0])
                    self.bind(g.target, sp[1], fr2.env)
                    guard = TRUE
                    for c in g.ifs:
                        guard = AND(guard, as_cond(self.ex(c, fr2)))
                    if guard != TRUE:
                        bb, gg = chain[-1]
                        chain[-1] = (bb, AND(gg, guard))
                    continue
                b = self.bind_loop_target(g.target, dom, fr2.env)
                guard = TRUE
                for c in g.ifs:
                    guard = AND(guard, as_cond(self.ex(c, fr2)))
                chain.append((b, guard))
            # effects of evaluating the element (e.g. LpVariable declarations) happen once per iteration
            old, tmp = self.sink, []
            self.sink = tmp
            try:
                elt = self.ex(n.elt, fr2)
            finally:
                self.sink = old
            if tmp:
                body = tmp
                for b, g in reversed(chain):
                    if g != TRUE:
                        body = [Eff('if', fr.func, n, cond=g, then=body, orelse=[], ctrl=(None, None))]
                    body = [Eff('for', fr.func, n, binder=b, body=body, lid=next(self.ids), pre={})]
                for e in body:
                    self.emit(e)
            return ('comp', tuple(chain), elt)
        if isinstance(n, ast.JoinedStr):
            parts = []
            for v in n.values:
                if isinstance(v, ast.Constant):
                    parts.append(C(v.value))
                elif isinstance(v, ast.FormattedValue):
                    parts.append(self.ex(v.value, fr))
            return ('fstr', tuple(parts))
        if isinstance(n, ast.Call):
            return self.call(n, fr)
        if isinstance(n, ast.Set):
            return ('list', tuple(self.ex(e, fr) for e in n.elts))      # used for membership tests only
        if isinstance(n, ast.Lambda):
            lid = next(self.ids)
            self.lambdas[lid] = (n, dict(fr.env), fr.func, fr.cls)
            return ('lambda', lid)
        raise Unknown('expression ' + type(n).__name__ + ': ' + src(n)[:60])

    def bind_loop_target(self, tgt, dom, env):
        """Bind a for/comprehension target over domain term dom; returns the element binder."""
        hint = tgt.id if isinstance(tgt, ast.Name) else 'it'
        if dom[0] == 'call' and dom[1] == S('enumerate') and isinstance(tgt, ast.Tuple) and len(tgt.elts) == 2:
            inner = dom[2][0]
            start = dom[2][1] if len(dom[2]) > 1 else dict(dom[3]).get('start', C(0))
            if inner[0] == 'call' and inner[1] == S('zip') and isinstance(tgt.elts[1], ast.Tuple):
                b = self.bind_zip(tgt.elts[1], inner, env)
                self.bind(tgt.elts[0], simp_top(BIN('Add', b, start)) if start != C(0) else b, env)
                return b
            if inner[0] == 'call' and inner[1] == S('islice') and len(inner[2]) == 2 and not (len(inner) > 3 and inner[3]):
                # enumerate(islice(X, n), s): positions s .. s + min(n, len(X)) - 1, element X[position - s]
                x, n_ = inner[2]
                stop = simp_top(BIN('Add', CALL(S('min'), [n_, CALL(S('len'), [x])]), start)) if start != C(0) else CALL(S('min'), [n_, CALL(S('len'), [x])])
                b = self.new_binder(CALL(S('range'), [start, stop]), tgt.elts[0].id if isinstance(tgt.elts[0], ast.Name) else 'r')
                self.bind(tgt.elts[0], b, env)
                self.bind(tgt.elts[1], self.load(I(x, self.lin_simplify(BIN('Sub', b, start)))), env)
                return b
            h2 = tgt.elts[1].id if isinstance(tgt.elts[1], ast.Name) else 'it'
            b = self.new_binder(inner, h2)
            self.bind(tgt.elts[0], ('indexof', b) if start == C(0) else simp_top(BIN('Add', ('indexof', b), start)), env)
            self.bind(tgt.elts[1], b, env)
            return b
        if dom[0] == 'call' and dom[1] == S('zip') and isinstance(tgt, (ast.Tuple, ast.List)) and len(tgt.elts) == len(dom[2]):
            return self.bind_zip(tgt, dom, env)
        b = self.new_binder(dom, hint)
        self.bind(tgt, b, env)
        return b

    @staticmethod
    def lin_simplify(t):
        """sums and differences with equal terms cancelled:  (len(X) - 1) - (len(X) - r)  ->  r - 1"""
        from .canon import lin_parts, lin_build
        atoms, c = lin_parts(t)
        left = []
        for s_, x in atoms:
            if (-s_, x) in left:
                left.remove((-s_, x))
            else:
                left.append((s_, x))
        return lin_build(left, c)

    def elem_at(self, seq, pos):
        """element number pos (from 0) of an iterable given as a term"""
        if seq[0] == 'call' and seq[1] == S('reversed') and len(seq[2]) == 1:
            x = seq[2][0]
            return self.load(I(x, self.lin_simplify(BIN('Sub', BIN('Sub', CALL(S('len'), [x]), C(1)), pos))))
        if seq[0] == 'call' and seq[1] == S('islice') and len(seq[2]) == 2:
            return self.load(I(seq[2][0], pos))
        return self.load(I(seq, pos))

    def bind_zip(self, tgt, dom, env):
        """for a, b in zip(X, Y)  ==  for i in range(len(X)): a, b = X[i], Y[i]   (parallel lists of equal length)"""
        first = dom[2][0]
        rng = [s_ for s_ in dom[2] if s_[0] == 'call' and s_[1] == S('range') and len(s_[2]) in (1, 2, 3) and not (len(s_) > 3 and s_[3])]
        if rng and (len(rng[0][2]) < 3 or rng[0][2][2] in (C(1), C(-1))):
            # one of the zipped sequences is a range: loop over THAT range, the others are read at the position it implies
            # (zip stops at the shortest: the range is taken to be it, as it is when it is built from the length of the others)
            r_ = rng[0]
            b = self.new_binder(r_, 'zr')
            start = C(0) if len(r_[2]) == 1 else r_[2][0]
            down = len(r_[2]) == 3 and r_[2][2] == C(-1)
            pos = self.lin_simplify(BIN('Sub', start, b) if down else BIN('Sub', b, start))
            for e, seq in zip(tgt.elts, dom[2]):
                self.bind(e, b if seq is r_ else self.elem_at(seq, pos), env)
            return b
        b = self.new_binder(CALL(S('range'), [CALL(S('len'), [first])]), 'zi')
        for e, seq in zip(tgt.elts, dom[2]):
            self.bind(e, self.elem_at(seq, b), env)
        return b

    def bind(self, tgt, val, env, fr=None):
        if isinstance(tgt, ast.Name):
            env[tgt.id] = val
            if fr is not None:
                fr.defdepth[tgt.id] = fr.loopdepth
        elif isinstance(tgt, (ast.Tuple, ast.List)) and any(isinstance(e, ast.Starred) for e in tgt.elts):
            # a, *rest = val   /  *init, last = val : fixed positions from either end, the starred name gets the slice between
            st = [k for k, e in enumerate(tgt.elts) if isinstance(e, ast.Starred)]
            if len(st) != 1:
                raise Unknown('two starred targets')
            k0, n_after = st[0], len(tgt.elts) - st[0] - 1
            for k, e in enumerate(tgt.elts[:k0]):
                self.bind(e, simp_top(I(val, C(k))), env, fr)
            for k, e in enumerate(tgt.elts[k0 + 1:]):
                self.bind(e, simp_top(I(val, C(k - n_after))), env, fr)
            self.bind(tgt.elts[k0].value, CALL(S('list'), [('slice', val, C(k0) if k0 else NONE, C(-n_after) if n_after else NONE)]), env, fr)
        elif isinstance(tgt, (ast.Tuple, ast.List)):
            for k, e in enumerate(tgt.elts):
                self.bind(e, simp_top(I(val, C(k))), env, fr)
        else:
            raise Unknown('bind target ' + type(tgt).__name__)

    # ---- calls ---------------------------------------------------------------------
    def call(self, n, fr):
        t = self._call(n, fr)
        for f in self.aliases:
            r = f(t)
            if r is not None:
                return r
        return t

    def _call(self, n, fr):
        f = n.func
        args = []
        for a in n.args:
            if isinstance(a, ast.Starred):
                sv = self.ex(a.value, fr)
                if sv[0] in ('tuple', 'list'):
                    args += list(sv[1])
                elif sv[0] == 'ite' and isinstance(a.value, ast.Name) and is_literal_seq(sv[2]) and is_literal_seq(sv[3]) and a.value.id in fr.env:
                    # f(*xs) with xs one of two literal tuples, chosen by a condition: the call is made under that condition
                    name = a.value.id
                    saved = fr.env[name]
                    res = []
                    bodies = []
                    for branch in (sv[2], sv[3]):
                        fr.env[name] = branch
                        box = []
                        bodies.append(self.sub_call(lambda: box.append(self._call(n, fr))))
                        res.append(box[0])
                    fr.env[name] = saved
                    self.emit(Eff('if', fr.func, n, cond=sv[1], then=bodies[0], orelse=bodies[1], ctrl=(None, None)))
                    return simp_top(('ite', sv[1], res[0], res[1]))
                else:
                    # f(*xs) with xs not a literal: only library callables stay representable (opaque call on a starred argument)
                    nm = f.id if isinstance(f, ast.Name) else (f.attr if isinstance(f, ast.Attribute) else None)
                    in_repo = nm is None or nm in self.repo.funcs_by_name or any(nm in c for c in self.repo.classes.values()) or nm in self.repo.classes \
                        or (isinstance(f, ast.Name) and nm in fr.env)
                    if in_repo or len(n.args) != 1 or n.keywords:
                        raise Unknown('starred call with a non-literal sequence')
                    return CALL(S(nm) if isinstance(f, ast.Name) else A(self.ex(f.value, fr), nm), [('starred', sv)])
            else:
                args.append(self.ex(a, fr))
        kw = [(k.arg, self.ex(k.value, fr)) for k in n.keywords]
        # super().method(...): the method of the first package base class that defines it, on the same object
        if isinstance(f, ast.Attribute) and isinstance(f.value, ast.Call) and isinstance(f.value.func, ast.Name) and f.value.func.id == 'super' and not f.value.args \
                and 'self' in fr.env and fr.func.cls:
            own = fr.func.cls
            seen_, todo_ = set(), list(getattr(self.repo, 'class_bases', {}).get(own, []))
            target = None
            while todo_ and target is None:
                b_ = todo_.pop(0)
                if b_ in seen_:
                    continue
                seen_.add(b_)
                for rel_, tree_ in self.repo.trees.items():
                    for c_ in tree_.body:
                        if isinstance(c_, ast.ClassDef) and c_.name == b_:
                            own_methods = {m_.name for m_ in c_.body if isinstance(m_, ast.FunctionDef)}
                            if f.attr in own_methods and f.attr in self.repo.classes.get(b_, {}):
                                target = self.repo.classes[b_][f.attr]
                todo_ += getattr(self.repo, 'class_bases', {}).get(b_, [])
            if target is not None:
                return self.inline(target, fr.env['self'], args, kw, fr, n)
            if f.attr == '__init__':
                return NONE                    # object.__init__ / a library base: nothing the analysis tracks
            raise Unknown('super().%s is not defined by a class of the package' % f.attr)
        # method on an object
        if isinstance(f, ast.Attribute):
            recv = self.ex(f.value, fr)
            meth = f.attr
            # PuLP problem operations
            if recv in self.lp_problems and meth == 'solve':
                self.emit(Eff('solve', fr.func, n, recv=recv, args=tuple(args)))
                return CALL(A(recv, meth), args, kw)
            if meth == 'format' and recv[0] == 'const' and isinstance(recv[1], str):
                return self.format_template(recv[1], args, kw)
            if meth == 'format' and not kw and recv[0] in ('bin', 'fstr', 'ite') and self.is_template(recv):
                return self.format_term(recv, list(args))
            target = self.resolve_method(recv, meth, len(args) + len(kw), fr)
            if target is not None:
                return self.inline(target, recv, args, kw, fr, n)
            return CALL(A(recv, meth), args, kw)
        # functools.partial(callee, *a, **k): a callable value that remembers its first arguments
        if ((isinstance(f, ast.Name) and f.id == 'partial' and 'partial' not in fr.env) or (isinstance(f, ast.Attribute) and f.attr == 'partial' and isinstance(f.value, ast.Name)
                                                                                              and f.value.id == 'functools')) and n.args and not any(isinstance(a, ast.Starred) for a in n.args):
            pid = next(self.ids)
            if not hasattr(self, 'partials'):
                self.partials = {}
            self.partials[pid] = (n.args[0], tuple(args[1:]), tuple(kw), fr)
            return ('partial', pid)
        mod_partial = None
        if isinstance(f, ast.Name) and f.id not in fr.env and f.id not in self.repo.funcs_by_name and f.id not in self.repo.classes:
            mc_ = self.module_constant(f.id, fr)
            if mc_ is not None and mc_[0] == 'partial':
                mod_partial = mc_                   # NAME = partial(...) at module level
        if mod_partial is not None or (isinstance(f, (ast.Name, ast.Subscript, ast.Call)) and not (isinstance(f, ast.Name) and f.id not in fr.env)):
            fv = mod_partial if mod_partial is not None else self.ex(f, fr)
            if fv[0] == 'partial' and fv[1] in getattr(self, 'partials', {}):
                callee_ast, pargs, pkw, pfr = self.partials[fv[1]]
                # call the remembered callee with the remembered arguments first, then these (later keywords win)
                names = {}
                new_args, new_kws = [], []
                for i_, a_ in enumerate(pargs):
                    nm_ = '__partial_%d_a%d' % (fv[1], i_)
                    names[nm_] = a_
                    new_args.append(ast.Name(id=nm_, ctx=ast.Load()))
                given = {k_.arg for k_ in n.keywords}
                for k_, v_ in pkw:
                    if k_ in given:
                        continue
                    nm_ = '__partial_%d_k%s' % (fv[1], k_)
                    names[nm_] = v_
                    new_kws.append(ast.keyword(arg=k_, value=ast.Name(id=nm_, ctx=ast.Load())))
                call2 = ast.Call(func=callee_ast, args=new_args + list(n.args), keywords=new_kws + list(n.keywords))
                ast.copy_location(call2, n)
                ast.fix_missing_locations(call2)
                saved = {k_: fr.env.get(k_) for k_ in names}
                fr.env.update(names)
                try:
                    # (the callee expression is evaluated in the calling frame: partial(LpVariable, ...), partial(self.helper, ...),
                    # partial('template'.format, ...) name things that mean the same there)
                    return self._call(call2, fr)
                finally:
                    for k_, v_ in saved.items():
                        if v_ is None:
                            fr.env.pop(k_, None)
                        else:
                            fr.env[k_] = v_
            if fv[0] == 'closure':
                cf, cfr = self.closures[fv[1]]
#                if self.is_generator(cf):
#                    raise Unknown('a generator function defined inside %s (its yields are not collected by the interpreter)' % fr.func.qualname)
                return self.inline(cf, None, args, kw, fr, n, base_env=cfr.env, cls=cfr.cls)
            if fv[0] == 'lambda':
                node, env0, lfunc, lcls = self.lambdas[fv[1]]
                env2 = dict(env0)
                for p, a in zip([x.arg for x in node.args.args], args):
                    env2[p] = a
                fr2 = Frame(lfunc, env2)
                fr2.cls = lcls
                return self.ex(node.body, fr2)
            if fv[0] == 'attr' and (fv[1] == fr.env.get('self') or fv[1][0] == 'obj'):
                target = self.resolve_method(fv[1], fv[2], len(args) + len(kw), fr)
                if target is not None:
                    return self.inline(target, fv[1], args, kw, fr, n)
            if fv[0] == 'sym' and fv[1] in self.repo.classes and not (isinstance(f, ast.Name) and f.id == fv[1]):
                return self.construct(fv[1], args, kw, fr, n)           # a class held in a variable / looked up in a table
        if isinstance(f, ast.Name) and f.id not in fr.env and f.id in self.namedtuples() and not kw and len(args) == len(self.namedtuples()[f.id]):
            # Name = namedtuple('Name', [fields]) at module level: a record is the tuple of its fields
            rec = ('tuple', tuple(args))
            if not hasattr(self, 'ntuple_fields'):
                self.ntuple_fields = {}
            self.ntuple_fields[rec] = self.namedtuples()[f.id]
            return rec
        if isinstance(f, ast.Name) and f.id == 'compress' and f.id not in fr.env and len(args) == 2 and not kw:
            # itertools.compress(data, selectors) = [data[k] for k in range(len(data)) if selectors[k]]
            data, sel = args
            if data[0] == 'call' and data[1] == S('range') and len(data[2]) in (1, 2) and not (len(data) > 3 and data[3]):
                lo = C(0) if len(data[2]) == 1 else data[2][0]
                b = self.new_binder(data, 'x')
                pos = b if lo == C(0) else simp(BIN('Sub', b, lo))
                return ('comp', ((b, as_cond(I(sel, pos))),), b)
            b = self.new_binder(CALL(S('range'), [CALL(S('len'), [data])]), 'k')
            return ('comp', ((b, as_cond(I(sel, b))),), I(data, b))
        if isinstance(f, ast.Name) and f.id in ('filter', 'takewhile') and f.id not in fr.env and len(args) == 2 and args[0][0] in ('lambda', 'closure') and not kw:
            # filter(f, X) = [x for x in X if f(x)];  takewhile(f, X) = the prefix of X before the first x with not f(x)
            b = self.new_binder(args[1], 'x')
            if args[0][0] == 'lambda':
                node, env0, lfunc, lcls = self.lambdas[args[0][1]]
                env2 = dict(env0)
                env2[node.args.args[0].arg] = b
                fr2 = Frame(lfunc, env2)
                fr2.cls = lcls
                cond = as_cond(self.ex(node.body, fr2))
                if f.id == 'takewhile':
                    cond = CALL(S('__until_break__'), [cond])
                return ('comp', ((b, cond),), b)
        if isinstance(f, ast.Name) and f.id == 'getattr' and f.id not in fr.env and len(args) in (2, 3) and args[1][0] == 'const' and isinstance(args[1][1], str):
            if len(args) == 3 and args[0][0] in ('bvar', 'idx') and A(args[0], args[1][1]) not in self.heap:
                # an element of a collection may lack the attribute: the default is a value of the expression
                return ('ite', CALL(S('hasattr'), [args[0], args[1]]), A(args[0], args[1][1]), args[2])
            return self.load(A(args[0], args[1][1]))
        if isinstance(f, ast.Name):
            name = f.id
            if name not in fr.env:
                if name == 'LpVariable':
                    return self.lpvariable(args, kw, fr, n)
                if name == 'LpProblem':
                    return ('lpproblem', next(self.ids), tuple(args))
                if name in self.repo.classes and not self._is_enum(name):
                    return self.construct(name, args, kw, fr, n)
                cands = self.repo.funcs_by_name.get(name, [])
                if len(cands) == 1:
                    return self.inline(cands[0], None, args, kw, fr, n)
            return CALL(self.lookup(name, fr), args, kw)
        return CALL(self.ex(f, fr), args, kw)

    def is_template(self, t):
        """a string built by concatenation whose literal chunks carry the {} placeholders"""
        if t[0] == 'const':
            return isinstance(t[1], str)
        if t[0] == 'bin' and t[1] == 'Add':
            return self.is_template(t[2]) or self.is_template(t[3])
        if t[0] == 'fstr':
            return True
        if t[0] == 'ite':
            return self.is_template(t[2]) and self.is_template(t[3])
        return False

    def format_term(self, t, args):
        """<template term>.format(*args): placeholders are consumed left to right across the literal chunks"""
        pos = [0]
        def go(x):
            if x[0] == 'const' and isinstance(x[1], str):
                chunks = x[1].split('{}')
                if len(chunks) == 1:
                    if '{' in x[1] or '}' in x[1]:
                        raise Unknown('format spec ' + x[1])
                    return x
                parts = []
                for k, ch in enumerate(chunks):
                    if k > 0:
                        parts.append(args[pos[0]] if pos[0] < len(args) else TOP('format-arg'))
                        pos[0] += 1
                    if ch:
                        if '{' in ch or '}' in ch:
                            raise Unknown('format spec ' + x[1])
                        parts.append(C(ch))
                return ('fstr', tuple(parts))
            if x[0] == 'bin' and x[1] == 'Add':
                l = go(x[2])
                r = go(x[3])
                return BIN('Add', l, r)
            if x[0] == 'fstr':
                return ('fstr', tuple(go(y) if (y[0] == 'const' and isinstance(y[1], str)) else y for y in x[1]))
            if x[0] == 'ite':
                p0 = pos[0]
                a = go(x[2])
                p1 = pos[0]
                pos[0] = p0
                b = go(x[3])
                pos[0] = max(p1, pos[0])
                return ('ite', x[1], a, b)
            return x
        return go(t)

    def format_template(self, s, args, kw=()):
        import re as _re
        if _re.search(r'\{[A-Za-z_0-9]+\}', s):
            # named / numbered fields without format specs: '{kind}_({s},{p})'.format(kind=..., s=..., p=...)
            kwd = dict(kw)
            parts, pos, auto = [], 0, 0
            for m_ in _re.finditer(r'\{([A-Za-z_0-9]*)\}', s):
                if m_.start() > pos:
                    lit = s[pos:m_.start()]
                    if '{' in lit or '}' in lit:
                        raise Unknown('format spec ' + s)
                    parts.append(C(lit))
                key = m_.group(1)
                if key == '':
                    val = args[auto] if auto < len(args) else None
                    auto += 1
                elif key.isdigit():
                    val = args[int(key)] if int(key) < len(args) else None
                else:
                    val = kwd.get(key)
                if val is None:
                    raise Unknown('format field {%s} has no argument' % key)
                parts.append(val)
                pos = m_.end()
            tail = s[pos:]
            if '{' in tail or '}' in tail:
                raise Unknown('format spec ' + s)
            if tail:
                parts.append(C(tail))
            return ('fstr', tuple(parts))
        parts, i = [], 0
        for k, chunk in enumerate(s.split('{}')):
            if k > 0:
                parts.append(args[i] if i < len(args) else TOP('format-arg'))
                i += 1
            if chunk:
                if '{' in chunk or '}' in chunk:
                    raise Unknown('format spec ' + s)
                parts.append(C(chunk))
        return ('fstr', tuple(parts))

    def lpvariable(self, args, kw, fr, n):
        names = ['name', 'lowBound', 'upBound', 'cat', 'e']
        d = {'lowBound': NONE, 'upBound': NONE, 'cat': C('Continuous')}
        for k, v in zip(names, args):
            d[k] = v
        for k, v in kw:
            d[k] = v
        if 'name' not in d:
            raise Unknown('LpVariable without name')
        site = '%s:%d' % (fr.func.relpath, n.lineno)
        t = ('lpvar', d['name'], d['lowBound'], d['upBound'], d['cat'], site)
        self.emit(Eff('declvar', fr.func, n, var=t, name=d['name'], low=d['lowBound'], up=d['upBound'], cat=d['cat']))
        return t

    def resolve_method(self, recv, meth, nargs, fr):
        if recv[0] == 'sym' and recv[1] in self.repo.classes and meth in self.repo.classes[recv[1]] and recv[1] not in fr.env:
            return self.repo.classes[recv[1]][meth]
        if recv == fr.env.get('self') and fr.cls and meth in self.repo.classes.get(fr.cls, {}):
            return self.repo.classes[fr.cls][meth]
        if recv[0] == 'obj' and meth in self.repo.classes.get(recv[1], {}):
            return self.repo.classes[recv[1]][meth]
        cands = [c[meth] for cn, c in self.repo.classes.items() if meth in c]
        if not cands:
            return None
        hint = None
        if recv[0] == 'attr':
            hint = RECV_HINT.get(recv[2])
        elif recv[0] == 'bvar':
            hint = RECV_HINT.get(recv[2])
        elif recv[0] == 'sym':
            hint = RECV_HINT.get(recv[1])
        def np_(c):
            return len(c.params) - (0 if c.is_static else 1)
        ar = [c for c in cands if np_(c) - len(c.node.args.defaults) <= nargs <= np_(c)]
        if hint:
            h = [c for c in ar if c.cls == hint]
            if len(h) == 1:
                return h[0]
        if recv[0] in ('sym', 'attr', 'bvar', 'idx') and len(ar) == 1 and not meth.startswith('__'):
            # unique (name, arity) among the repository's classes; library objects never share these names
            if meth in ('append', 'extend', 'update', 'format', 'join', 'split', 'replace', 'count', 'solve', 'error',
                        'strftime', 'total_seconds', 'write', 'close', 'add_argument', 'parse_args', 'get_default'):
                return None
            return ar[0]
        return None

    def construct(self, cname, args, kw, fr, n):
        obj = ('obj', cname, next(self.ids), tuple(args))
        init = self.repo.classes[cname].get('__init__')
        if init is not None:
            self.inline(init, obj, args, kw, fr, n)
        elif args or kw or self.has_foreign_base(cname):
            # no __init__ of its own but constructed with arguments, or a base class from a library: whatever builds the
            # object (NamedTuple / dataclass machinery, an inherited __init__) is outside the fragment
            raise Unknown('class %s is constructed by an __init__ the package does not define' % cname)
        return obj

    def has_foreign_base(self, cname):
        rel = self.repo.class_module[cname]
        for c in self.repo.trees[rel].body:
            if isinstance(c, ast.ClassDef) and c.name == cname:
                return any(ast.unparse(b).split('.')[-1] not in ('object', 'Enum', 'IntEnum') and ast.unparse(b).split('.')[-1] not in self.repo.classes for b in c.bases)
        return False

    def inline(self, target, recv, args, kw, fr, n, base_env=None, cls=None):
        if base_env is None and self.opaque is not None and self.opaque(target):
            rv = CALL(A(recv if recv is not None else S('<module>'), target.name), args, kw)
            if getattr(self, 'opaque_ret', None) and target.name in self.opaque_ret:
                rv = self.opaque_ret[target.name]          # the analysis supplies what the opaque call hands back
            self.emit(Eff('callo', fr.func, n, target=target, args=tuple(args), ret=rv))
            return rv
        if self.depth >= MAX_INLINE or target in self.stack:
            self.unknown.append(('inline-bound', target.where, '%s:%d' % (fr.func.relpath, n.lineno)))
            return TOP('inline-bound ' + target.qualname)
        params = target.params
        env = dict(base_env) if base_env is not None else {}
        if target.cls and not target.is_static and params and (params[0] == 'self' or target.is_classmethod):
            env[params[0]] = recv if recv is not None else S('self')
            params = params[1:]
        dmap = {}
        for p, d in zip(reversed(target.node.args.args), reversed(target.node.args.defaults)):
            dmap[p.arg] = d
        for p, a in zip(params, args):
            env[p] = a
        va = target.node.args.vararg
        if va is not None:
            env[va.arg] = ('tuple', tuple(args[len(params):]))       # def f(a, *rest)
        # a caller's local list passed by name is the SAME object in the callee: mutations must reach the caller's variable
        for p, an in zip(params, [x for x in n.args if not isinstance(x, ast.Starred)]):
            if isinstance(an, ast.Name) and an.id in fr.env:
                cv = fr.env[an.id]
                if cv[0] == 'ref':
                    env[p] = cv
                elif cv[0] in ('list', 'comp', 'cat', 'accum', 'upd', 'carried', 'prefix', 'dict', 'dictcomp') and self.callee_mutates(target, p):
                    self.frames[id(fr)] = fr
                    env[p] = ('ref', id(fr), an.id)
            elif isinstance(an, ast.Attribute) and env.get(p, ('x',))[0] in ('list', 'comp', 'cat', 'accum', 'upd') and self.really_mutates(target, p):
                # an attribute-held list handed to a callee that mutates it in place: the callee works on the object itself
                base = self.ex(an.value, fr)
                if base[0] in ('sym', 'attr', 'obj', 'bvar'):
                    env[p] = A(base, an.attr)
        for k, v in kw:
            env[k] = v
        fr2 = Frame(target, env)
        if cls is not None:
            fr2.cls = cls
        for p in params:
            if p not in env or (base_env is not None and p not in [q for q, _ in zip(params, args)] and p not in dict(kw)):
                if p in dmap:
                    env[p] = self.ex(dmap[p], Frame(target, {}))
                else:
                    env[p] = TOP('missing-arg ' + p)
        fr2.defdepth = {k: 0 for k in env}
        self.init_generator(target, fr2)
        body = []
        old = self.sink
        self.sink = body
        self.depth += 1
        self.stack.append(target)
        try:
            self.block(target.node.body, fr2)
        finally:
            self.stack.pop()
            self.depth -= 1
            self.sink = old
        rv = self.retval(fr2)
        if rv == TOP('return-in-loop'):
            # a search / comparison loop with early returns: keep the call opaque (callee identity and arguments stay visible)
            rv = CALL(A(recv if recv is not None else S('<module>'), target.name), args, kw)
        self.emit(Eff('call', fr.func, n, target=target, body=body, args=tuple(args), kw=tuple(kw), ret=rv, returns=fr2.returns))
        return rv

    # ---- statements ----------------------------------------------------------------
    def block(self, stmts, fr):
        for i, s in enumerate(stmts):
            if fr.ctrl:
                break
            self.stmt(s, fr)
            # `if c: ...; continue` (or break/return in one branch): the rest of the block runs only on the other branch
            if isinstance(s, ast.If) and self.sink and self.sink[-1].kind == 'if' and self.sink[-1].line == s.lineno:
                e = self.sink[-1]
                c1, c2 = e.ctrl
                rest = stmts[i + 1:]
                nested = None
                if rest and not c1 and not c2:
                    # a branch nested deeper leaves (if a: ... elif b: ... else: continue): the rest runs on the other paths
                    L, kinds = leave_of([e])
                    if L not in (FALSE, TRUE) and kinds:
                        nested = (simp(NOT(L)), 'break' if 'break' in kinds else sorted(kinds)[0])
                if rest and ((c1 and not c2) or (c2 and not c1) or nested):
                    g = nested[0] if nested else (NOT(e.cond) if c1 else e.cond)
                    if ((c1 or c2) if not nested else nested[1]) == 'break':
                        # the rest runs only while the loop has not been left: a PREFIX of the iteration domain, not a filter
                        g = CALL(S('__until_break__'), [g])
                    left = getattr(self, '_left', None)
                    self._left = None
                    fr.guards.append(g)
                    if not nested and ((c1 == 'return' and not c2 and leaves_by_raise_only(e.then)) or (c2 == 'return' and not c1 and leaves_by_raise_only(e.orelse))):
                        # `if bad: raise ...`: where g fails the function does not return at all - g is an ASSUMPTION of whatever is
                        # returned further down, not a case distinction of the returned value
                        fr.assumed = getattr(fr, 'assumed', set()) | {g}
                    rr = refine_env(fr.env, g) if g[0] != 'call' else {}
                    keep = {k: fr.env[k] for k in rr}
                    fr.env.update(rr)
                    body = self.sub(rest, fr)
                    for k in rr:
                        if fr.env.get(k) == rr[k]:
                            fr.env[k] = keep[k]
                    fr.guards.pop()
                    if left is not None and not fr.ctrl:
                        # the rest ran only under g; where the other branch left by continue / break its state survives
                        lenv, lheap = left
                        for k in list(fr.env):
                            a, b = fr.env.get(k), lenv.get(k)
                            if b is not None and a != b:
                                fr.env[k] = simp_top(('ite', g, a, b))
                        for k in set(self.heap) | set(lheap):
                            a, b = self.heap.get(k, k), lheap.get(k, k)
                            if a != b:
                                self.heap[k] = simp_top(('ite', g, a, b))
                    self.emit(Eff('if', fr.func, s, cond=g, then=body, orelse=[], ctrl=(fr.ctrl, None), synthetic=True, assumed=(g in getattr(fr, 'assumed', ()))))
                    fr.ctrl = None
                    break

    def sub(self, stmts, fr):
        """Translate stmts into a fresh effect list."""
        out = []
        old = self.sink
        self.sink = out
        try:
            self.block(stmts, fr)
        finally:
            self.sink = old
        return out

    def is_outer(self, name, fr):
        return name in fr.env and fr.defdepth.get(name, 0) < fr.loopdepth

    def stmt(self, s, fr):
        if isinstance(s, ast.FunctionDef):
            # nested helper: a closure over the enclosing frame (read at call time, like Python does)
            from .loader import Func
            cid = next(self.ids)
            self.closures[cid] = (Func(fr.func.module, None, s, fr.func.relpath), fr)
            fr.env[s.name] = ('closure', cid)
            fr.defdepth[s.name] = fr.loopdepth
            return
        if isinstance(s, ast.Expr) and isinstance(s.value, ast.YieldFrom):
            # yield from X   is   for y in X: yield y
            nm = '__yf_%d' % next(self.ids)
            loop = ast.For(target=ast.Name(id=nm, ctx=ast.Store()), iter=s.value.value,
                           body=[ast.Expr(value=ast.Yield(value=ast.Name(id=nm, ctx=ast.Load())))], orelse=[])
            ast.copy_location(loop, s)
            for y in ast.walk(loop):
                if not hasattr(y, 'lineno'):
                    ast.copy_location(y, s)
            ast.fix_missing_locations(loop)
            return self.stmt(loop, fr)
        if isinstance(s, ast.Expr) and isinstance(s.value, ast.Yield):
            if '__yield__' not in fr.env:
                raise Unknown('yield outside a recognised generator')
            self.accumulate('__yield__', 'append', None, self.ex(s.value.value, fr) if s.value.value is not None else NONE, fr, s)
            return
        if isinstance(s, ast.Expr):
            if isinstance(s.value, ast.Constant):
                return
            v = s.value
            if (isinstance(v, ast.Call) and isinstance(v.func, ast.Name) and v.func.id == 'setattr' and 'setattr' not in fr.env and len(v.args) == 3 and not v.keywords):
                name = self.ex(v.args[1], fr)
                if name[0] == 'const' and isinstance(name[1], str):
                    # setattr(obj, 'name', value)  ==  obj.name = value
                    tgt = ast.Attribute(value=v.args[0], attr=name[1], ctx=ast.Store())
                    ast.copy_location(tgt, v)
                    self.assign(tgt, self.ex(v.args[2], fr), fr, s)
                    return
                raise Unknown('setattr with a non-constant attribute name')
            if (isinstance(v, ast.Call) and isinstance(v.func, ast.Attribute) and isinstance(v.func.value, ast.Name)
                    and v.func.attr in ('append', 'extend', 'add', 'update') and v.func.value.id in fr.env and len(v.args) == 1
                    and fr.env[v.func.value.id][0] not in ('sym', 'attr', 'bvar', 'idx') ):
                name = v.func.value.id
                val = self.ex(v.args[0], fr)
                opn = {'add': 'setadd', 'update': 'setupdate'}.get(v.func.attr, v.func.attr)
                self.accumulate(name, opn, None, val, fr, s)
                return
            if (isinstance(v, ast.Call) and isinstance(v.func, ast.Attribute) and isinstance(v.func.value, ast.Name) and v.func.value.id in fr.env
                    and fr.env[v.func.value.id][0] not in ('sym', 'attr', 'bvar', 'idx')):
                name = v.func.value.id
                if v.func.attr == 'setdefault' and len(v.args) == 2 and not v.keywords:
                    # d.setdefault(k, x) as a statement: d[k] = x unless k is there already (first one wins)
                    self.accumulate(name, 'setdefidx', self.ex(v.args[0], fr), self.ex(v.args[1], fr), fr, s)
                    return
                if v.func.attr == 'sort' and not v.args and name not in self.outer_names(fr) and fr.env[name][0] in ('list', 'comp', 'cat', 'accum', 'upd', 'bin', 'call'):
                    # xs.sort(**kw) on a local list: xs = sorted(xs, **kw)
                    kw_ = tuple((k_.arg, self.ex(k_.value, fr)) for k_ in v.keywords)
                    fr.env[name] = ('call', S('sorted'), (fr.env[name],), kw_)
                    return
                if v.func.attr == 'reverse' and not v.args and not v.keywords and name not in self.outer_names(fr) and fr.env[name][0] in ('list', 'comp', 'cat', 'accum', 'upd', 'bin', 'call'):
                    fr.env[name] = CALL(S('list'), [CALL(S('reversed'), [fr.env[name]])])
                    return
                cur_ = fr.env[name]
                if cur_[0] == 'list' and name not in self.outer_names(fr) and not v.keywords:
                    # a literal list edited at a constant position: xs.insert(2, v) / xs.pop(k) / xs.pop() / xs.clear()
                    items = list(cur_[1])
                    av = [self.ex(x, fr) for x in v.args]
                    ci = lambda t_: t_[0] == 'const' and isinstance(t_[1], int) and not isinstance(t_[1], bool)
                    if v.func.attr == 'insert' and len(av) == 2 and ci(av[0]):
                        items.insert(av[0][1], av[1])
                        fr.env[name] = ('list', tuple(items))
                        return
                    if v.func.attr == 'pop' and len(av) <= 1 and all(ci(x) for x in av) and items and (not av or -len(items) <= av[0][1] < len(items)):
                        items.pop(*(x[1] for x in av))
                        fr.env[name] = ('list', tuple(items))
                        return
                    if v.func.attr == 'clear' and not av:
                        fr.env[name] = ('list', ())
                        return
                if v.func.attr in MUTATING_METHODS and v.func.attr not in ('append', 'extend', 'add', 'update') and fr.env[name][0] in ('list', 'dict', 'comp', 'cat', 'accum', 'upd', 'bin'):
                    raise Unknown('in-place %s() on the local container %s' % (v.func.attr, name))
            n0 = len(self.sink)
            if (isinstance(v, ast.Call) and isinstance(v.func, ast.Attribute) and v.func.attr in ('append', 'extend') and len(v.args) == 1
                    and isinstance(v.func.value, ast.Call) and isinstance(v.func.value.func, ast.Attribute) and v.func.value.func.attr == 'setdefault'
                    and isinstance(v.func.value.func.value, ast.Name) and v.func.value.func.value.id in fr.env and len(v.func.value.args) == 2
                    and isinstance(v.func.value.args[1], ast.List) and not v.func.value.args[1].elts
                    and fr.env[v.func.value.func.value.id][0] not in ('sym', 'attr', 'bvar', 'idx')):
                # d.setdefault(k, []).append(x): group-by into a local dict of lists
                self.accumulate(v.func.value.func.value.id, v.func.attr + 'idx', self.ex(v.func.value.args[0], fr), self.ex(v.args[0], fr), fr, s)
                return
            if (isinstance(v, ast.Call) and isinstance(v.func, ast.Attribute) and v.func.attr in MUTATING_METHODS
                    and not isinstance(v.func.value, (ast.Name, ast.Subscript, ast.Attribute))):
                # a mutation reached through some other expression on a local container: be honest about not following it
                for x in ast.walk(v.func.value):
                    if isinstance(x, ast.Name) and x.id in fr.env and fr.env[x.id][0] in ('list', 'dict', 'comp', 'cat', 'accum', 'upd'):
                        raise Unknown('in-place update of %s through %s' % (x.id, ast.unparse(v.func)[:50]))
            if (isinstance(v, ast.Call) and isinstance(v.func, ast.Attribute) and v.func.attr in MUTATING_METHODS and v.func.attr not in ('append', 'extend')
                    and isinstance(v.func.value, ast.Subscript) and isinstance(v.func.value.value, ast.Name) and v.func.value.value.id in fr.env
                    and fr.env[v.func.value.value.id][0] in ('list', 'dict', 'comp', 'cat', 'accum', 'upd', 'bin', 'call')):
                # local[k].add(x) / .update(..) / .insert(..): a slot of a local table changed in a way the scatter algebra does not model
                raise Unknown('in-place %s() on a slot of the local container %s' % (v.func.attr, v.func.value.value.id))
            if (isinstance(v, ast.Call) and isinstance(v.func, ast.Attribute) and v.func.attr in ('append', 'extend') and len(v.args) == 1
                    and isinstance(v.func.value, ast.Subscript) and isinstance(v.func.value.value, ast.Name) and v.func.value.value.id in fr.env
                    and fr.env[v.func.value.value.id][0] not in ('sym', 'attr', 'bvar', 'idx') and not isinstance(v.func.value.slice, ast.Slice)):
                # local[k].append(x): scatter into a local list of lists
                self.accumulate(v.func.value.value.id, v.func.attr + 'idx', self.ex(v.func.value.slice, fr), self.ex(v.args[0], fr), fr, s)
                return
            t = self.ex(v, fr)
            if (isinstance(v, ast.Call) and isinstance(v.func, ast.Attribute) and v.func.attr in ('append', 'extend')
                    and t[0] == 'call' and len(t[2]) == 1):
                self.emit(Eff('append', fr.func, s, target=t[1][1], value=t[2][0], op=v.func.attr))
                if v.func.attr == 'append' and t[1][1][0] == 'attr':
                    # X.append(v) on a list reached through an attribute path: until X is touched again, X[-1] is v
                    # (the heap is saved / merged at branches and loop boundaries like every other store)
                    self.heap[I(t[1][1], C(-1))] = t[2][0]
                elif t[1][1][0] == 'attr':
                    self.heap.pop(I(t[1][1], C(-1)), None)
                return
            if isinstance(v, ast.Call) and isinstance(v.func, ast.Attribute) and v.func.attr in MUTATING_METHODS and t[0] == 'call' and t[1][0] == 'attr':
                self.heap.pop(I(t[1][1], C(-1)), None)          # the list changed some other way: its last element is no longer known
            if len(self.sink) > n0 and self.sink[-1].kind in ('call', 'solve') and self.sink[-1].line == s.lineno:
                return      # the call itself is already in the tree
            self.emit(Eff('expr', fr.func, s, term=t))
            return
        if isinstance(s, ast.Assign):
            if isinstance(s.value, ast.Name) and fr.env.get(s.value.id, ('x',))[0] == 'lpref' and len(s.targets) == 1 \
                    and isinstance(s.targets[0], ast.Name) and not self.is_outer(s.targets[0].id, fr):
                # plain name binding: the new name refers to the SAME mutable LP expression object
                fr.env[s.targets[0].id] = fr.env[s.value.id]
                fr.defdepth[s.targets[0].id] = fr.defdepth.get(s.value.id, fr.loopdepth)
                self.emit(Eff('alias', fr.func, s, name=s.targets[0].id, of=s.value.id))
                return
            v = self.ex(s.value, fr)
            if isinstance(s.value, ast.Attribute) and len(s.targets) == 1 and isinstance(s.targets[0], ast.Name) and s.value.attr in self.counter_attrs() \
                    and is_num(v) and A(self.ex(s.value.value, fr), s.value.attr) in self.written_attrs:
                v = A(self.ex(s.value.value, fr), s.value.attr)          # a counter whose current value happens to be known: still a snapshot
            if v[0] == 'attr' and v in self.written_attrs and (v not in self.heap or is_num(self.heap[v])) and len(s.targets) == 1 and isinstance(s.targets[0], ast.Name):
                # old = self.counter, where the counter has been incremented since the analysis last knew its value: the local
                # keeps THAT value while the attribute moves on - a snapshot, not the attribute (self.counter > old is not x > x)
                sid = next(self.ids)
                self.heap.pop(v, None)            # from here on the attribute is read as itself (its relation to the snapshot is what matters)
                self.emit(Eff('snap', fr.func, s, attr=v, sid=sid))
                v = ('snap', v, sid)
            if self.is_lp_object(v) and len(s.targets) == 1 and isinstance(s.targets[0], ast.Name) and not self.is_outer(s.targets[0].id, fr):
                rid = next(self.ids)
                self.lpstore[rid] = v
                fr.env[s.targets[0].id] = ('lpref', rid)
                fr.defdepth[s.targets[0].id] = fr.loopdepth
                return
            for tgt in s.targets:
                self.assign(tgt, v, fr, s)
            return
        if isinstance(s, ast.AnnAssign):
            if s.value is not None:
                self.assign(s.target, self.ex(s.value, fr), fr, s)
            return
        if isinstance(s, ast.AugAssign):
            v = self.ex(s.value, fr)
            op = type(s.op).__name__
            t = s.target
            if isinstance(t, ast.Name):
                if t.id not in fr.env:
                    raise Unknown('augassign to undefined ' + t.id)
                if op == 'Add' and self.deref(fr.env[t.id]) in self.lp_problems:
                    self.lp_add(self.deref(fr.env[t.id]), v, fr, s)          # prob = self.prob; prob += constraint  (LpProblem.__iadd__ returns self)
                    return
                self.accumulate(t.id, {'Add': 'add', 'Sub': 'sub'}.get(op, op), None, v, fr, s)
                return
            if isinstance(t, ast.Subscript) and isinstance(t.value, ast.Name) and t.value.id in fr.env \
                    and fr.env[t.value.id][0] not in ('sym', 'attr', 'bvar', 'idx') and not isinstance(t.slice, ast.Slice):
                if op == 'Add' and v[0] == 'list':
                    # X[i] += [a, b]: the slot is a list that is extended in place
                    for el in v[1]:
                        self.accumulate(t.value.id, 'appendidx', self.ex(t.slice, fr), el, fr, s)
                    return
                self.accumulate(t.value.id, {'Add': 'addidx', 'Sub': 'subidx'}.get(op, op + 'idx'), self.ex(t.slice, fr), v, fr, s)
                return
            tt = self.target_term(t, fr)
            if tt in self.lp_problems and op == 'Add':
                self.lp_add(tt, v, fr, s)
                return
            self.emit(Eff('augstore', fr.func, s, target=tt, op=op, value=v))
            if tt[0] == 'attr':
                self.written_attrs.add(tt)
            cur = self.heap.get(tt)
            if cur is not None:
                self.heap[tt] = simp_top(BIN(op, cur, v))
            return
        if isinstance(s, ast.Return):
            v = self.ex(s.value, fr) if s.value is not None else NONE
            live = [x for x in fr.guards if x not in getattr(fr, 'assumed', ())]
            g = AND(*live) if live else TRUE
            fr.returns.append((g, v, fr.loopdepth > 0))
            self.emit(Eff('return', fr.func, s, value=v))
            fr.ctrl = 'return'
            return
        if isinstance(s, ast.If):
            return self.stmt_if(s, fr)
        if isinstance(s, ast.For):
            return self.stmt_for(s, fr)
        if isinstance(s, ast.While):
            return self.stmt_while(s, fr)
        if isinstance(s, ast.Pass):
            return
        if isinstance(s, ast.Break):
            self.emit(Eff('break', fr.func, s))
            fr.ctrl = 'break'
            return
        if isinstance(s, ast.Continue):
            self.emit(Eff('continue', fr.func, s))
            fr.ctrl = 'continue'
            return
        if isinstance(s, ast.With):
            for it in s.items:
                v = self.ex(it.context_expr, fr)
                if it.optional_vars is not None:
                    self.bind(it.optional_vars, v, fr.env, fr)
                self.emit(Eff('expr', fr.func, s, term=v))
            self.block(s.body, fr)
            return
        if isinstance(s, ast.Try) and handlers_only_reraise(s):
            # try: BODY except E as e: raise Explained(...) from e  [finally: CLEANUP]: on every path that does not raise this is
            # BODY (; else-block) ; CLEANUP - the handlers only turn one exception into another
            self.block(s.body, fr)
            if fr.ctrl is None:
                self.block(s.orelse, fr)
            if s.finalbody:
                saved = fr.ctrl
                fr.ctrl = None
                self.block(s.finalbody, fr)
                if fr.ctrl is None:
                    fr.ctrl = saved
            return
        if isinstance(s, (ast.Import, ast.ImportFrom, ast.Global, ast.Nonlocal)):
            return
        if isinstance(s, ast.Assert):
            return
        if isinstance(s, ast.Raise):
            self.emit(Eff('raise', fr.func, s, value=self.ex(s.exc, fr) if s.exc else NONE))
            fr.ctrl = 'return'
            return
        raise Unknown('statement ' + type(s).__name__ + ' at %s:%d' % (fr.func.relpath, s.lineno))

    def target_term(self, t, fr):
        if isinstance(t, ast.Attribute):
            return A(self.ex(t.value, fr), t.attr)
        if isinstance(t, ast.Subscript) and isinstance(t.slice, ast.Slice):
            # X[a:b] = v on a list that is not a tracked local: a slot-range store (rules see target ('idx', X, ('sliceof', a, b)))
            sl = t.slice
            if sl.step is not None:
                raise Unknown('slice step in a store target')
            return I(self.ex(t.value, fr), ('sliceof', self.ex(sl.lower, fr) if sl.lower else NONE, self.ex(sl.upper, fr) if sl.upper else NONE))
        if isinstance(t, ast.Subscript):
            return I(self.ex(t.value, fr), self.ex(t.slice, fr))
        if isinstance(t, ast.Name):
            return self.lookup(t.id, fr)
        raise Unknown('store target ' + type(t).__name__)

    def assign(self, tgt, v, fr, s):
        if isinstance(tgt, ast.Name):
            if self.is_outer(tgt.id, fr):
                # plain assignment, inside a loop, to a variable that lives outside it: loop-carried for the value after
                # the loop, but for the rest of THIS iteration the variable simply holds v
                self.emit(Eff('acc', fr.func, s, var=tgt.id, op='assign', index=None, value=v))
                if v[0] not in ('lpref',):
                    fr.env[tgt.id] = v
                return
            fr.env[tgt.id] = v
            fr.defdepth[tgt.id] = fr.loopdepth
            if self.config.get('emit_lets') and v[0] not in ('const', 'sym', 'bvar'):
                # evaluation point of a local assignment (opt-in: rules that must see eager evaluation errors)
                self.emit(Eff('let', fr.func, s, var=tgt.id, value=v))
            return
        if isinstance(tgt, (ast.Tuple, ast.List)) and any(isinstance(e, ast.Starred) for e in tgt.elts):
            # first, *rest = v  /  *init, last = v : fixed positions from either end; the starred name gets the list in between
            st = [k for k, e in enumerate(tgt.elts) if isinstance(e, ast.Starred)]
            if len(st) != 1:
                raise Unknown('two starred targets')
            k0, n_after = st[0], len(tgt.elts) - st[0] - 1
            if is_literal_seq(v):
                if len(v[1]) < len(tgt.elts) - 1:
                    raise Unknown('not enough values to unpack')
                mid = ('list', tuple(v[1][k0:len(v[1]) - n_after]))
            else:
                mid = CALL(S('list'), [('slice', v, C(k0) if k0 else NONE, C(-n_after) if n_after else NONE)])
                if v[0] == 'slice' or not n_after:
                    mid = ('slice', v, C(k0) if k0 else NONE, C(-n_after) if n_after else NONE)
            for k, e in enumerate(tgt.elts[:k0]):
                self.assign(e, simp_top(I(v, C(k))), fr, s)
            for k, e in enumerate(tgt.elts[k0 + 1:]):
                self.assign(e, simp_top(I(v, C(k - n_after))), fr, s)
            self.assign(tgt.elts[k0].value, simp_top(mid), fr, s)
            return
        if isinstance(tgt, (ast.Tuple, ast.List)):
            for k, e in enumerate(tgt.elts):
                self.assign(e, simp_top(I(v, C(k))), fr, s)
            return
        if isinstance(tgt, ast.Subscript) and isinstance(tgt.value, ast.Name) and tgt.value.id in fr.env \
                and fr.env[tgt.value.id][0] not in ('sym', 'attr', 'bvar', 'idx') and not isinstance(tgt.slice, ast.Slice):
            self.accumulate(tgt.value.id, 'setidx', self.ex(tgt.slice, fr), v, fr, s)
            return
        if isinstance(tgt, ast.Subscript) and isinstance(tgt.value, ast.Name) and tgt.value.id in fr.env \
                and fr.env[tgt.value.id][0] not in ('sym', 'attr', 'bvar', 'idx') and isinstance(tgt.slice, ast.Slice) and tgt.slice.step is None:
            lo = self.ex(tgt.slice.lower, fr) if tgt.slice.lower else C(0)
            hi = self.ex(tgt.slice.upper, fr) if tgt.slice.upper else NONE
            self.accumulate(tgt.value.id, 'setslice', ('tuple', (lo, hi)), v, fr, s)
            return
        tt = self.target_term(tgt, fr)
        if tt[0] == 'idx' and tt[2] != C(-1):
            self.heap.pop(I(tt[1], C(-1)), None)             # X[k] = v may be the last slot
        if v[0] == 'lpproblem':
            self.lp_problems.add(tt)
            self.emit(Eff('newprob', fr.func, s, target=tt, value=v))
            return
        if isinstance(tgt, ast.Attribute) and tgt.attr == 'objective' and A_base(tt) in self.lp_problems:
            self.emit(Eff('setobj', fr.func, s, recv=tt[1], expr=v, name=NONE))
            return
        if v[0] == 'list' and isinstance(tgt, ast.Attribute) and not self.attr_mutated_in_place(tgt.attr) and all(self.is_frozen_value(x) for x in v[1]):
            # a list of immutable records kept in an attribute that nothing in the package changes in place (a defensive copy of
            # the option list): reads see the literal
            self.heap[tt] = v
        elif v[0] in ('list', 'comp', 'cat', 'accum', 'upd', 'call', 'top') or (v[0] == 'bin' and v[1] == 'Mult' and 'list' in (v[2][0], v[3][0])):
            # mutable containers / opaque values: later reads go through the access path itself (two attributes initialised
            # with equal list expressions, e.g. [None] * n, are still two different lists)
            self.heap.pop(tt, None)
        else:
            self.heap[tt] = v
        self.emit(Eff('store', fr.func, s, target=tt, value=v))

    def lp_add(self, prob, v, fr, s):
        name = NONE
        if v[0] == 'tuple' and len(v[1]) == 2:
            v, name = v[1]
        if v[0] == 'cmp':
            self.emit(Eff('addc', fr.func, s, recv=prob, cmp=v, name=name))
        else:
            self.emit(Eff('setobj', fr.func, s, recv=prob, expr=v, name=name))

    def outer_names(self, fr):
        """names whose updates are recorded as loop effects rather than applied to the environment (see is_outer)"""
        return {k for k in fr.env if self.is_outer(k, fr)}

    def accumulate(self, name, op, index, val, fr, s):
        cur0 = fr.env.get(name)
        if cur0 is not None and cur0[0] == 'ref':
            return self.accumulate(cur0[2], op, index, val, self.frames[cur0[1]], s)
        if self.is_outer(name, fr):
            self.emit(Eff('acc', fr.func, s, var=name, op=op, index=index, value=val))
            cur = fr.env.get(name)
            if cur is not None and cur[0] in ('carried', 'prefix') and op in ('add', 'sub') and fr.loops and cur[2] == fr.loops[-1]:
                # a later read in this iteration sees the running value including this element
                fr.env[name] = ('prefix', name, cur[2], True)
            return
        cur = fr.env[name]
        if cur[0] == 'lpref' and op in ('add', 'sub'):
            self.lpstore[cur[1]] = simp_top(BIN('Add' if op == 'add' else 'Sub', self.lpstore[cur[1]], val))
            return
        if op == 'add':
            fr.env[name] = simp_top(BIN('Add', cur, val))
        elif op == 'sub':
            fr.env[name] = simp_top(BIN('Sub', cur, val))
        elif op == 'append':
            fr.env[name] = cat(cur, ('list', (val,)))
        elif op == 'extend':
            fr.env[name] = cat(cur, val)
        elif op in ('setidx', 'addidx', 'subidx', 'appendidx', 'extendidx', 'setslice', 'setadd', 'setupdate', 'setdefidx'):
            fr.env[name] = ('upd', cur, op, index, val)
        else:
            fr.env[name] = simp_top(BIN(op, cur, val))

    def stmt_if(self, s, fr):
        c = as_cond(self.ex(s.test, fr))
        if c == TRUE:
            return self.block(s.body, fr)
        if c == FALSE:
            return self.block(s.orelse, fr)
        pre_env, pre_dd, pre_heap, pre_lp = dict(fr.env), dict(fr.defdepth), dict(self.heap), dict(self.lpstore)
        fr.guards.append(c)
        r1 = refine_env(fr.env, c)
        fr.env.update(r1)
        b1 = self.sub(s.body, fr)
        fr.guards.pop()
        e1, d1, h1, c1, l1 = fr.env, fr.defdepth, self.heap, fr.ctrl, self.lpstore
        fr.env, fr.defdepth, self.heap, fr.ctrl, self.lpstore = dict(pre_env), dict(pre_dd), dict(pre_heap), None, dict(pre_lp)
        fr.guards.append(NOT(c))
        r2 = refine_env(fr.env, NOT(c))
        fr.env.update(r2)
        b2 = self.sub(s.orelse, fr)
        fr.guards.pop()
        e2, d2, h2, c2, l2 = fr.env, fr.defdepth, self.heap, fr.ctrl, self.lpstore
        # a variable that was only *read* under the branch condition keeps its value from before the branch
        for k in set(r1) | set(r2):
            if e1.get(k) == r1.get(k, pre_env.get(k)) and e2.get(k) == r2.get(k, pre_env.get(k)):
                e1[k] = e2[k] = pre_env[k]
        lpm = {}
        for k in set(l1) | set(l2):
            a, b = l1.get(k), l2.get(k)
            if a is None or b is None or (c1 and not c2) or (c2 and not c1):
                lpm[k] = (b if (c1 and not c2) else a) if (a is not None and b is not None) else (a if a is not None else b)
            else:
                lpm[k] = a if a == b else simp_top(('ite', c, a, b))
        self.lpstore = lpm
        # merge
        env, dd = {}, {}
        live1, live2 = c1 is None, c2 is None
        for k in list(e1) + [k for k in e2 if k not in e1]:
            a, b = e1.get(k), e2.get(k)
            if not live1 and live2:
                if b is not None: env[k] = b
            elif not live2 and live1:
                if a is not None: env[k] = a
            elif a == b:
                env[k] = a
            else:
                env[k] = simp_top(('ite', c, a if a is not None else TOP('undefined ' + k), b if b is not None else TOP('undefined ' + k)))
            if k in env:
                dd[k] = min(d1.get(k, fr.loopdepth), d2.get(k, fr.loopdepth))
        heap = {}
        for k in set(h1) | set(h2):
            a, b = h1.get(k, k), h2.get(k, k)
            if not live1 and live2: heap[k] = b
            elif not live2 and live1: heap[k] = a
            else: heap[k] = a if a == b else simp_top(('ite', c, a, b))
        fr.env, fr.defdepth, self.heap = env, dd, heap
        fr.ctrl = c1 if (c1 and c2) else None   # both branches leave
        # state with which a branch left the current ITERATION (continue / break): it flows on to the next iteration
        self._left = None
        if c1 in ('continue', 'break') and not c2:
            self._left = (e1, h1)
        elif c2 in ('continue', 'break') and not c1:
            self._left = (e2, h2)
        self.emit(Eff('if', fr.func, s, cond=c, then=b1, orelse=b2, ctrl=(c1, c2)))

    def only_added_to(self, name, stmts):
        """every binding of name in stmts is `name += ...` (for an LpProblem: constraints added to the same object)"""
        for st in stmts:
            for n in ast.walk(st):
                if isinstance(n, ast.Name) and n.id == name and isinstance(n.ctx, (ast.Store, ast.Del)):
                    par_ok = any(isinstance(p, ast.AugAssign) and p.target is n and isinstance(p.op, ast.Add) for p in ast.walk(st))
                    if not par_ok:
                        return False
        return True

    def modified_names(self, stmts):
        names = set()
        for st in stmts:
            for n in ast.walk(st):
                if isinstance(n, (ast.Assign, ast.AugAssign, ast.AnnAssign)):
                    tg = n.targets if isinstance(n, ast.Assign) else [n.target]
                    def targets_of(t):
                        if isinstance(t, (ast.Tuple, ast.List)):
                            for e in t.elts:
                                targets_of(e)
                        elif isinstance(t, ast.Starred):
                            targets_of(t.value)
                        elif isinstance(t, ast.Name):
                            names.add(t.id)
                        elif isinstance(t, ast.Subscript):
                            base = t
                            while isinstance(base, ast.Subscript):
                                base = base.value        # x[i][j] = v modifies x; names inside the index expressions are only read
                            if isinstance(base, ast.Name):
                                names.add(base.id)
                    for t in tg:
                        targets_of(t)
                elif isinstance(n, ast.Call) and isinstance(n.func, ast.Attribute) and isinstance(n.func.value, ast.Name) \
                        and n.func.attr in MUTATING_METHODS:
                    names.add(n.func.value.id)
                elif isinstance(n, ast.Call) and isinstance(n.func, ast.Attribute) and n.func.attr in ('append', 'extend') and isinstance(n.func.value, ast.Call) \
                        and isinstance(n.func.value.func, ast.Attribute) and n.func.value.func.attr == 'setdefault' and isinstance(n.func.value.func.value, ast.Name):
                    names.add(n.func.value.func.value.id)
                elif isinstance(n, (ast.For, ast.comprehension)):
                    for x in ast.walk(n.target):
                        if isinstance(x, ast.Name):
                            names.add(x.id)
                elif isinstance(n, (ast.Yield, ast.YieldFrom)):
                    names.add('__yield__')
                elif isinstance(n, ast.Call) and isinstance(n.func, ast.Attribute) and n.func.attr in ('append', 'extend') \
                        and isinstance(n.func.value, ast.Subscript) and isinstance(n.func.value.value, ast.Name):
                    names.add(n.func.value.value.id)
                if isinstance(n, ast.Call) and any(isinstance(a, ast.Name) for a in n.args):
                    # a local list handed to a repository function that mutates that parameter in place
                    fname = n.func.attr if isinstance(n.func, ast.Attribute) else (n.func.id if isinstance(n.func, ast.Name) else None)
                    cands = list(self.repo.funcs_by_name.get(fname, [])) + [c[fname] for c in self.repo.classes.values() if fname in c] if fname else []
                    for c in cands:
                        ps = c.params[1:] if (c.cls and not c.is_static and c.params and isinstance(n.func, ast.Attribute)) else c.params
                        for p_, a in zip(ps, n.args):
                            if isinstance(a, ast.Name) and self.really_mutates(c, p_):
                                names.add(a.id)
        return names

    def stored_attrs(self, stmts, seen=None):
        """Attribute names stored by these statements or (transitively) by repository functions they call."""
        seen = set() if seen is None else seen
        names = set()
        for st in stmts:
            for n in ast.walk(st):
                if isinstance(n, (ast.Assign, ast.AugAssign, ast.AnnAssign)):
                    for t in (n.targets if isinstance(n, ast.Assign) else [n.target]):
                        for x in ast.walk(t):
                            if isinstance(x, ast.Attribute) and isinstance(x.ctx, ast.Store):
                                names.add(x.attr)
                elif isinstance(n, ast.Call):
                    fname = n.func.attr if isinstance(n.func, ast.Attribute) else (n.func.id if isinstance(n.func, ast.Name) else None)
                    if fname and fname not in seen:
                        seen.add(fname)
                        cands = list(self.repo.funcs_by_name.get(fname, [])) + [c[fname] for c in self.repo.classes.values() if fname in c]
                        for c in cands:
                            names |= self.stored_attrs(c.node.body, seen)
        return names

    def havoc_heap(self, stmts):
        """Heap locations (by attribute name) stored inside a loop body are loop-carried: forget their values."""
        # (last-element facts X[-1] = v recorded after X.append(v) hold for straight-line code only)
        for k in [k for k in self.heap if k[0] == 'idx' and k[2] == C(-1)]:
            del self.heap[k]
        names = self.stored_attrs(stmts)
        if names:
            for k in list(self.heap):
                if k[0] == 'attr' and k[2] in names and k[1][0] != 'bvar':
                    del self.heap[k]

    def stmt_for(self, s, fr):
        ir = self.induction_rewrite(s, fr)
        if ir is not None:
            return self.stmt_for(ir, fr)
        dom = self.enum_members_of(self.ex(s.iter, fr))           # `for member in SomeEnum`: its members, in order
        if s.orelse:
            raise Unknown('for-else')
        if dom[0] == 'const' and isinstance(dom[1], str) and len(dom[1]) <= 8:
            dom = ('tuple', tuple(C(ch) for ch in dom[1]))
        if is_literal_seq(dom):
            return self.unroll(s, dom, fr)
        # for k in range(len(X)) over a literal X: the same unrolled iterations, the loop variable bound to the position
        if dom[0] == 'call' and dom[1] == S('range') and len(dom[2]) == 1 and isinstance(s.target, ast.Name) and isinstance(s.iter, ast.Call) and len(s.iter.args) == 1 \
                and isinstance(s.iter.args[0], ast.Call) and isinstance(s.iter.args[0].func, ast.Name) and s.iter.args[0].func.id == 'len' and len(s.iter.args[0].args) == 1:
            X = self.ex(s.iter.args[0].args[0], fr)
            if is_literal_seq(X) and dom[2][0] == C(len(X[1])):
                return self.unroll(s, X, fr, positions=True)
        sp = splice_domain(dom)
        if sp is not None:
            sp = narrow_range(sp)
        if sp is not None and isinstance(s.target, (ast.Name, ast.Tuple, ast.List)):
            # for x in [v for b1 in D1 if g1 for b2 in D2 ...]:  ==  for b1 in D1: if g1: for b2 in D2: ...: x = v; body
            chain, v = sp
            def inner(k):
                if k == len(chain):
                    self.bind(s.target, v, fr.env, fr)
                    for x in ast.walk(s.target):
                        if isinstance(x, ast.Name):
                            fr.defdepth[x.id] = fr.loopdepth
                    self.block(s.body, fr)
                    return
                b, g = chain[k]
                def body():
                    if g == TRUE:
                        inner(k + 1)
                    else:
                        fr.guards.append(g)
                        out = self.sub_call(lambda: inner(k + 1))
                        fr.guards.pop()
                        self.emit(Eff('if', fr.func, s, cond=g, then=out, orelse=[], ctrl=(None, None)))
                self.generic_loop(b, body, s, fr)
            return inner(0)
        def bind_and_run():
            pass
        self.generic_loop(None, None, s, fr, dom=dom)

    @staticmethod
    def first_use_may_precede_binding(name, stmts):
        """definite-assignment walk over ONE iteration: can `name` be read on some path before it has been assigned on that
        path?  (branches that leave the iteration by continue / break / return do not flow on)"""
        class Hit(Exception):
            pass

        def reads(node):
            return any(isinstance(x, ast.Name) and x.id == name and isinstance(x.ctx, ast.Load) for x in ast.walk(node))

        def block(sts, assigned):
            """-> assigned after the block, or None when the block does not fall through"""
            for st in sts:
                if isinstance(st, ast.If):
                    if not assigned and reads(st.test):
                        raise Hit()
                    a = block(st.body, assigned)
                    b = block(st.orelse, assigned)
                    if a is None and b is None:
                        return None
                    assigned = (a if b is None else b if a is None else (a and b))
                elif isinstance(st, (ast.For, ast.While)):
                    hdr = st.iter if isinstance(st, ast.For) else st.test
                    if not assigned and reads(hdr):
                        raise Hit()
                    block(st.body, assigned)          # may run zero times: contributes no definite assignment
                elif isinstance(st, (ast.Continue, ast.Break, ast.Return, ast.Raise)):
                    if not assigned and reads(st):
                        raise Hit()
                    return None
                elif isinstance(st, (ast.With, ast.Try)):
                    inner = st.body
                    r = block(inner, assigned)
                    if r is None:
                        return None
                    assigned = r
                elif isinstance(st, ast.Assign):
                    if not assigned and reads(st.value):
                        raise Hit()
                    if any(isinstance(x, ast.Name) and x.id == name and isinstance(x.ctx, ast.Store) for t in st.targets for x in ast.walk(t)):
                        assigned = True
                    elif not assigned and any(reads(t) for t in st.targets):
                        raise Hit()
                else:
                    if not assigned and reads(st):
                        raise Hit()
            return assigned
        try:
            block(stmts, False)
        except Hit:
            return True
        return False

    def only_mutated_in_place(self, name, stmts):
        for st in stmts:
            for n in ast.walk(st):
                if isinstance(n, (ast.Assign, ast.AugAssign, ast.AnnAssign)):
                    for t in (n.targets if isinstance(n, ast.Assign) else [n.target]):
                        for x in ([t] if isinstance(t, ast.Name) else (t.elts if isinstance(t, (ast.Tuple, ast.List)) else [])):
                            if isinstance(x, ast.Name) and x.id == name:
                                return False
                if isinstance(n, (ast.For, ast.comprehension)):
                    for x in ast.walk(n.target):
                        if isinstance(x, ast.Name) and x.id == name:
                            return False
        return True

    def sub_call(self, fn):
        out = []
        old = self.sink
        self.sink = out
        try:
            fn()
        finally:
            self.sink = old
        return out

    def generic_loop(self, binder, body_fn, s, fr, dom=None):
        """One symbolic for-loop.  Either over an existing binder (spliced comprehension domain) with body_fn, or over
        `dom` binding s.target and running s.body."""
        self.havoc_heap(s.body)
        lid = next(self.ids)
        # a name first bound in one iteration and read in a later one (e.g. section ends computed on the header line) is
        # loop-carried too; before its first binding it is unbound
        targets = {x.id for n_ in ast.walk(s) if isinstance(n_, (ast.For, ast.comprehension)) for x in ast.walk(n_.target) if isinstance(x, ast.Name)}
        plain_stores = {x.id for st in s.body for n_ in ast.walk(st) if isinstance(n_, ast.Assign) for t_ in n_.targets for x in ast.walk(t_)
                        if isinstance(x, ast.Name) and isinstance(x.ctx, ast.Store)}
        loads = {x.id for st in s.body for x in ast.walk(st) if isinstance(x, ast.Name) and isinstance(x.ctx, ast.Load)}
        for k in sorted((plain_stores & loads) - targets):
            if k not in fr.env and self.first_use_may_precede_binding(k, s.body):
                fr.env[k] = TOP('unbound ' + k)
                fr.defdepth[k] = fr.loopdepth
        pre = dict(fr.env)
        mods = self.modified_names(s.body)
        carried = [k for k in mods if k in pre and fr.defdepth.get(k, 0) <= fr.loopdepth
                   and not (pre[k][0] in ('attr', 'sym') and self.only_mutated_in_place(k, s.body))   # a name for a heap object: its in-place updates are heap effects
                   and not (self.deref(pre[k]) in self.lp_problems and self.only_added_to(k, s.body))]   # prob += constraint: the same LpProblem, extended
        for k in carried:
            fr.env[k] = ('carried', k, lid)
        fr.loopdepth += 1
        fr.loops.append(lid)
        saved_ctrl = fr.ctrl
        if binder is None:
            b = self.bind_loop_target(s.target, dom, fr.env)
            for x in ast.walk(s.target):
                if isinstance(x, ast.Name):
                    fr.defdepth[x.id] = fr.loopdepth
            body = self.sub(s.body, fr)
        else:
            b = binder
            body = self.sub_call(body_fn)
        fr.ctrl = saved_ctrl
        fr.loops.pop()
        fr.loopdepth -= 1
        e = Eff('for', fr.func, s, binder=b, body=body, lid=lid, pre={k: self.deref(pre[k]) for k in carried})
        self.loopinfo[lid] = e
        for k in [k for k in self.heap if k[0] == 'idx' and k[2] == C(-1)]:
            del self.heap[k]                  # ... and do not survive the loop either
        self.finish_loop(e, pre, carried, b, fr)
        self.emit(e)

    def finish_loop(self, e, pre, carried, b, fr):
        lid = e.lid
        post = fr.env
        env = dict(pre)
        for k, v in post.items():
            if k not in pre:
                env[k] = ('stale', v, lid)          # loop-local value surviving the loop
                fr.defdepth[k] = fr.loopdepth
        for k in carried:
            if fr.defdepth.get(k, 0) == fr.loopdepth or fr.loopdepth == 0 or True:
                entries = collect_acc(e.body, k, ((b, TRUE),) if b is not None else ())
                if fr.defdepth.get(k, 0) < fr.loopdepth:
                    # still inside an outer loop relative to the variable's definition: re-emit as acc effects there
                    env[k] = ('carried', k, fr.loops[-1]) if fr.loops else pre[k]
                    continue
                if pre[k][0] == 'lpref':
                    self.lpstore[pre[k][1]] = fold_acc(self.lpstore[pre[k][1]], entries, k, lid)
                    env[k] = pre[k]
                else:
                    env[k] = fold_acc(pre[k], entries, k, lid)
        fr.env = env

    def unroll(self, s, dom, fr, positions=False):
        for i, el in enumerate(dom[1]):
            self.bind(s.target, C(i) if positions else el, fr.env, fr)
            saved = fr.ctrl
            body = self.sub(s.body, fr)
            ctrl = fr.ctrl
            fr.ctrl = saved
            self.emit(Eff('iter', fr.func, s, value=el, index=i, body=body))
            if ctrl == 'break':
                break
            if ctrl == 'return':
                fr.ctrl = 'return'
                break

    def counting_while(self, s, fr):
        """while i <= A [and i <= B ...]: body; i += 1   (i not otherwise assigned, no continue)  ->  equivalent for-range node"""
        if s.orelse or not s.body:
            return None
        last = s.body[-1]
        if not (isinstance(last, ast.AugAssign) and isinstance(last.target, ast.Name) and isinstance(last.op, (ast.Add, ast.Sub))
                and isinstance(last.value, ast.Constant) and last.value.value == 1):
            return None
        i = last.target.id
        up = isinstance(last.op, ast.Add)
        for st in s.body[:-1]:
            for n in ast.walk(st):
                if isinstance(n, ast.Continue):
                    return None
                if isinstance(n, ast.Name) and n.id == i and isinstance(n.ctx, ast.Store):
                    return None
        conj = s.test.values if (isinstance(s.test, ast.BoolOp) and isinstance(s.test.op, ast.And)) else [s.test]
        bounds = []
        for c in conj:
            if not (isinstance(c, ast.Compare) and len(c.ops) == 1):
                return None
            l, op, r = c.left, c.ops[0], c.comparators[0]
            if isinstance(r, ast.Name) and r.id == i and not (isinstance(l, ast.Name) and l.id == i):
                l, r = r, l
                op = {ast.Lt: ast.Gt, ast.Gt: ast.Lt, ast.LtE: ast.GtE, ast.GtE: ast.LtE}.get(type(op), type(op))()
            if not (isinstance(l, ast.Name) and l.id == i) or any(isinstance(x, ast.Name) and x.id == i for x in ast.walk(r)):
                return None
            # the bound must not change in the loop
            if any(isinstance(x, ast.Name) and x.id in self.modified_names(s.body) for x in ast.walk(r)):
                return None
            if up and isinstance(op, ast.LtE):
                bounds.append(ast.BinOp(left=r, op=ast.Add(), right=ast.Constant(1)))
            elif up and isinstance(op, ast.Lt):
                bounds.append(r)
            elif not up and isinstance(op, ast.GtE):
                bounds.append(ast.BinOp(left=r, op=ast.Sub(), right=ast.Constant(1)))
            elif not up and isinstance(op, ast.Gt):
                bounds.append(r)
            else:
                return None
        if len(bounds) == 1:
            hi = bounds[0]
        else:
            hi = ast.Call(func=ast.Name(id='min' if up else 'max', ctx=ast.Load()), args=bounds, keywords=[])
        args = [ast.Name(id=i, ctx=ast.Load()), hi] + ([] if up else [ast.Constant(-1)])
        node = ast.For(target=ast.Name(id=i, ctx=ast.Store()), iter=ast.Call(func=ast.Name(id='range', ctx=ast.Load()), args=args, keywords=[]),
                       body=s.body[:-1] or [ast.Pass()], orelse=[])
        ast.copy_location(node, s)
        ast.fix_missing_locations(node)
        return node

    def filling_while(self, s, fr):
        """while len(X) < N: X.append(E)   (X a local list of known literal length L0, N independent of X)  ->
        for _ in range(N - L0): X.append(E)"""
        if s.orelse or len(s.body) != 1:
            return None
        st = s.body[0]
        if not (isinstance(st, ast.Expr) and isinstance(st.value, ast.Call) and isinstance(st.value.func, ast.Attribute) and st.value.func.attr == 'append'
                and isinstance(st.value.func.value, ast.Name) and len(st.value.args) == 1):
            return None
        X = st.value.func.value.id
        c = s.test
        if not (isinstance(c, ast.Compare) and len(c.ops) == 1):
            return None
        l, op, r = c.left, c.ops[0], c.comparators[0]
        if isinstance(op, ast.Gt):
            l, r, op = r, l, ast.Lt()
        is_len = isinstance(l, ast.Call) and isinstance(l.func, ast.Name) and l.func.id == 'len' and len(l.args) == 1 and isinstance(l.args[0], ast.Name) and l.args[0].id == X
        if not (is_len and isinstance(op, ast.Lt)) or any(isinstance(x, ast.Name) and x.id == X for x in ast.walk(r)) \
                or any(isinstance(x, ast.Name) and x.id == X for x in ast.walk(st.value.args[0])):
            return None
        cur = fr.env.get(X)
        if cur is None or not is_literal_seq(cur):
            return None
        n = r if not cur[1] else ast.BinOp(left=r, op=ast.Sub(), right=ast.Constant(len(cur[1])))
        node = ast.For(target=ast.Name(id='_fill', ctx=ast.Store()), iter=ast.Call(func=ast.Name(id='range', ctx=ast.Load()), args=[n], keywords=[]),
                       body=s.body, orelse=[])
        ast.copy_location(node, s)
        ast.fix_missing_locations(node)
        return node

    def induction_rewrite(self, s, fr):
        """A counter that is incremented by one exactly once per iteration, unconditionally, and starts at a known integer is
        the position in the loop:  k = c; for x in D: ...; k += 1; ...   ->   for _i, x in enumerate(D): k = _i + c; ...;
        k = _i + c + 1; ..."""
        if getattr(s, '_induction_done', False) or s.orelse:
            return None
        incs = [st for st in s.body if isinstance(st, ast.AugAssign) and isinstance(st.target, ast.Name) and isinstance(st.op, ast.Add)
                and isinstance(st.value, ast.Constant) and st.value.value == 1]
        out = None
        for inc in incs:
            k = inc.target.id
            cur = fr.env.get(k)
            if cur is None or cur[0] != 'const' or not isinstance(cur[1], int) or isinstance(cur[1], bool) or fr.defdepth.get(k, 0) > fr.loopdepth:
                continue
            stores = [x for st in s.body for x in ast.walk(st) if isinstance(x, ast.Name) and x.id == k and isinstance(x.ctx, ast.Store)]
            if len(stores) != 1 or any(isinstance(x, (ast.Continue, ast.Break)) for st in s.body for x in ast.walk(st)):
                continue
            if isinstance(s.target, ast.Name) and s.target.id == k:
                continue
            import copy
            iv = '_pos_%s' % k
            pos = s.body.index(inc)
            def assign(offset):
                a = ast.Assign(targets=[ast.Name(id=k, ctx=ast.Store())], value=ast.BinOp(left=ast.Name(id=iv, ctx=ast.Load()), op=ast.Add(), right=ast.Constant(cur[1] + offset)))
                ast.copy_location(a, inc)
                ast.fix_missing_locations(a)
                return a
            body = [assign(0)] + list(s.body[:pos]) + [assign(1)] + list(s.body[pos + 1:])
            node = ast.For(target=ast.Tuple(elts=[ast.Name(id=iv, ctx=ast.Store()), s.target], ctx=ast.Store()),
                           iter=ast.Call(func=ast.Name(id='enumerate', ctx=ast.Load()), args=[s.iter], keywords=[]), body=body, orelse=[])
            ast.copy_location(node, s)
            ast.fix_missing_locations(node)
            node._induction_done = True
            out = node
            break
        return out

    def stmt_while(self, s, fr):
        fw = self.filling_while(s, fr)
        if fw is not None:
            return self.stmt_for(fw, fr)
        cw = self.counting_while(s, fr)
        if cw is not None:
            return self.stmt_for(cw, fr)
        wid = next(self.ids)
        pre = dict(fr.env)
        mods = self.modified_names(s.body)
        carried = [k for k in mods if k in pre and fr.defdepth.get(k, 0) <= fr.loopdepth
                   and not (self.deref(pre[k]) in self.lp_problems and self.only_added_to(k, s.body))]
        for k in carried:
            fr.env[k] = ('carried', k, wid)
        self.havoc_heap(s.body)
        cond = self.ex(s.test, fr)
        fr.loopdepth += 1
        fr.loops.append(wid)
        saved_ctrl = fr.ctrl
        body = self.sub(s.body, fr)
        fr.ctrl = saved_ctrl
        fr.loops.pop()
        fr.loopdepth -= 1
        b = ('bvar', wid, 'while', ('while', wid))
        e = Eff('while', fr.func, s, cond=cond, body=body, lid=wid, binder=b, pre={k: self.deref(pre[k]) for k in carried})
        self.whiles[wid] = e
        self.loopinfo[wid] = e
        self.finish_loop(e, pre, carried, b, fr)
        self.emit(e)


def splice_domain(dom):
    """A loop / comprehension domain that is itself a comprehension: -> (chain, element value) or None."""
    if dom[0] == 'cat':
        parts = [p for p in dom[1] if p != ('list', ())]
        if len(parts) == 1:
            dom = parts[0]
    if dom[0] == 'call' and dom[1] in (S('list'), S('tuple'), S('iter')) and len(dom[2]) == 1:
        inner = splice_domain(dom[2][0])
        if inner is not None:
            return inner
    if dom[0] == 'comp':
        return dom[1], dom[2]
    return None


def narrow_range(sp):
    """[r for r in range(lo, hi) if r >= a]  ==  range(max(lo, a), hi)   (likewise <=, <, >, and reversed(range(..))):
    a bound on the loop variable of a range is a narrower range, not a condition on the body"""
    chain, v = sp
    if len(chain) != 1:
        return sp
    b, g = chain[0]
    if g == TRUE or v != b:
        return sp
    dom = b[3]
    rev = False
    if dom[0] == 'call' and dom[1] == S('reversed') and len(dom[2]) == 1:
        rev, dom = True, dom[2][0]
    if dom[0] == 'call' and dom[1] == S('range') and len(dom[2]) == 3 and dom[2][2] == C(-1) and not dom[3] and not rev:
        # range(a, b, -1) == reversed(range(b + 1, a + 1))
        rev = True
        dom = CALL(S('range'), [simp_top(BIN('Add', dom[2][1], C(1))), simp_top(BIN('Add', dom[2][0], C(1)))])
    if not (dom[0] == 'call' and dom[1] == S('range') and len(dom[2]) in (1, 2) and not dom[3]):
        return sp
    lo, hi = (C(0), dom[2][0]) if len(dom[2]) == 1 else dom[2]
    conj = list(g[2]) if (g[0] == 'bool' and g[1] == 'and') else [g]
    for c in conj:
        neg = False
        while c[0] == 'not':
            neg, c = not neg, c[1]
        if c[0] != 'cmp' or c[1] not in ('Lt', 'LtE', 'Gt', 'GtE'):
            return sp
        op, x, y = c[1], c[2], c[3]
        if y == b and not contains(x, lambda t: t == b):
            op, x, y = {'Lt': 'Gt', 'Gt': 'Lt', 'LtE': 'GtE', 'GtE': 'LtE'}[op], y, x
        if x != b or contains(y, lambda t: t == b):
            return sp
        if neg:
            op = {'Lt': 'GtE', 'GtE': 'Lt', 'Gt': 'LtE', 'LtE': 'Gt'}[op]
        if op == 'GtE':
            lo = CALL(S('max'), [lo, y])
        elif op == 'Gt':
            lo = CALL(S('max'), [lo, BIN('Add', y, C(1))])
        elif op == 'LtE':
            hi = CALL(S('min'), [hi, BIN('Add', y, C(1))])
        else:
            hi = CALL(S('min'), [hi, y])
    nd = CALL(S('range'), [lo, hi])
    if rev:
        nd = CALL(S('reversed'), [nd])
    nb = ('bvar', b[1], b[2], nd)
    return ((nb, TRUE),), nb


def A_base(t):
    return t[1] if t[0] == 'attr' else None


def cat(a, b):
    xs = (a[1] if a[0] == 'cat' else (a,)) + (b[1] if b[0] == 'cat' else (b,))
    # merge adjacent literal lists
    out = []
    for x in xs:
        if x[0] == 'list' and not x[1] and out:
            continue
        if out and out[-1][0] == 'list' and x[0] == 'list':
            out[-1] = ('list', out[-1][1] + x[1])
        elif out and out[-1] == ('list', ()):
            out[-1] = x
        else:
            out.append(x)
    return out[0] if len(out) == 1 else ('cat', tuple(out))


def collect_acc(effs, name, chain, guard=TRUE):
    """Ordered accumulate entries for variable `name` in an effect list:
    (op, index, value, binder-chain (tuple of (bvar, guard)), eff)."""
    out = []
    for e in effs:
        if e.kind == 'acc' and e.var == name:
            ch = chain[:-1] + ((chain[-1][0], AND(chain[-1][1], guard)),) if chain else chain
            out.append((e.op, e.index, e.value, ch, e))
        elif e.kind == 'if':
            out += collect_acc(e.then, name, chain, AND(guard, e.cond))
            out += collect_acc(e.orelse, name, chain, AND(guard, NOT(e.cond)))
        elif e.kind in ('for', 'while'):
            ch = chain[:-1] + ((chain[-1][0], AND(chain[-1][1], guard)),) if chain else chain
            out += collect_acc(e.body, name, ch + ((e.binder, TRUE),), TRUE)
        elif e.kind in ('call', 'iter'):
            out += collect_acc(e.body, name, chain, guard)
    return out


def _conj(g):
    return list(g[2]) if (g[0] == 'bool' and g[1] == 'and') else [g]


def _pairwise_exclusive(guards):
    for i, a in enumerate(guards):
        for b in guards[i + 1:]:
            ca, cb = _conj(a), _conj(b)
            def neg_subset(xs, ys):
                # some conjunct of ys is the negation of a conjunction of conjuncts of xs
                for y in ys:
                    if y[0] == 'not' and y[1][0] == 'bool' and y[1][1] == 'and' and all(p in xs for p in y[1][2]):
                        return True
                return False
            ok = (NOT(a) in cb or NOT(b) in ca or any(NOT(x) in cb for x in ca) or any(NOT(x) in ca for x in cb)
                  or neg_subset(ca, cb) or neg_subset(cb, ca))
            if not ok:
                return False
    return True


def fold_acc(pre, entries, name, lid):
    if not entries:
        return pre
    ops = {en[0] for en in entries}
    if ops <= {'add', 'sub'}:
        acc = pre
        for op, _, v, ch, _ in entries:
            acc = BIN('Add' if op == 'add' else 'Sub', acc, ('sum', ch, v))
        return acc
    if ops <= {'append'}:
        if len(entries) == 1:
            return cat(pre, ('comp', entries[0][3], entries[0][2]))
        binders = [tuple(b[1] for b, _ in en[3]) for en in entries]
        if all(bs == binders[0] for bs in binders):
            # several append sites in ONE loop body: they interleave.  With mutually exclusive guards (if / elif chains) the
            # list is a single comprehension whose element is selected by the guards.
            guards = [en[3][-1][1] for en in entries]
            outer = entries[0][3][:-1]
            if all(o[1] == oo[1] for en in entries for o, oo in zip(en[3][:-1], outer)) and _pairwise_exclusive(guards):
                val = None
                for en, g in reversed(list(zip(entries, guards))):
                    val = en[2] if val is None else ('ite', g, en[2], val)
                allg = OR(*guards)
                last = entries[0][3][-1][0]
                return cat(pre, ('comp', outer + ((last, allg),), simp_top(val)))
        elif not any(set(a) & set(b) for i_, a in enumerate(binders) for b in binders[i_ + 1:]):
            acc = pre                       # sequential loops: plain concatenation in program order
            for op, _, v, ch, _ in entries:
                acc = cat(acc, ('comp', ch, v))
            return acc
    return ('accum', pre, tuple((op, idx if idx is not None else NONE, v, ch) for op, idx, v, ch, _ in entries), name, lid)
