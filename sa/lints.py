"""Small whole-function lints shared by several properties (pure `ast`).

mutable_default_mutations(func): a parameter whose DEFAULT is a mutable literal ([], {}, set(), list(), dict()) and that
the function mutates in place (append / extend / add / update / insert / setdefault / item assignment / +=).  The default
object is created once, when the function is defined: what one call adds is still there in the next call."""
import ast

MUTATORS = {'append', 'extend', 'add', 'update', 'insert', 'setdefault', 'pop', 'remove', 'clear', 'sort'}


def mutable_default_mutations(func):
    """-> [(parameter name, line of the first mutation, how)]"""
    fn = func.node
    args = fn.args
    pos = args.posonlyargs + args.args
    defaults = dict(zip([a.arg for a in pos][len(pos) - len(args.defaults):], args.defaults))
    defaults.update({a.arg: d for a, d in zip(args.kwonlyargs, args.kw_defaults) if d is not None})
    out = []
    for name, d in defaults.items():
        mutable = isinstance(d, (ast.List, ast.Dict, ast.Set)) or (isinstance(d, ast.Call) and isinstance(d.func, ast.Name) and d.func.id in ('list', 'dict', 'set') and not d.args)
        if not mutable:
            continue
        # rebinding the name first (x = x or []; x = list(x)) makes the later mutations harmless: stop at the first rebinding
        for n in ast.walk(fn):
            how = None
            if isinstance(n, ast.Call) and isinstance(n.func, ast.Attribute) and n.func.attr in MUTATORS and isinstance(n.func.value, ast.Name) and n.func.value.id == name:
                how = '%s.%s(...)' % (name, n.func.attr)
            elif isinstance(n, ast.AugAssign) and isinstance(n.target, ast.Name) and n.target.id == name:
                how = '%s %s= ...' % (name, type(n.op).__name__)
            elif isinstance(n, (ast.Assign, ast.AugAssign)):
                for t in (n.targets if isinstance(n, ast.Assign) else [n.target]):
                    if isinstance(t, ast.Subscript) and isinstance(t.value, ast.Name) and t.value.id == name:
                        how = '%s[...] = ...' % name
            if how:
                rebound = [m for m in ast.walk(fn) if isinstance(m, ast.Assign) and any(isinstance(t, ast.Name) and t.id == name for t in m.targets) and m.lineno < n.lineno]
                if not rebound:
                    out.append((name, n.lineno, how))
                    break
    return out


def index_bound_violations(func):
    """`while ... j <= len(xs) ...:  ... xs[j] ...` : a loop that subscripts xs with its counter must stop at j < len(xs);
    with <= the subscript one past the end raises IndexError.  -> [(line, text)]"""
    out = []
    for w in ast.walk(func.node):
        if not isinstance(w, ast.While):
            continue
        conds = w.test.values if (isinstance(w.test, ast.BoolOp) and isinstance(w.test.op, ast.And)) else [w.test]
        unguarded = []
        if isinstance(w.test, ast.BoolOp) and isinstance(w.test.op, ast.Or):
            # `a or j < len(xs)`: the bound does not stop the loop while a holds
            conds = w.test.values
            unguarded = conds
        for c in conds:
            if not (isinstance(c, ast.Compare) and len(c.ops) == 1):
                continue
            l, op, r = c.left, c.ops[0], c.comparators[0]
            if isinstance(r, ast.Name) and isinstance(l, ast.Call):
                l, r = r, l
                op = {ast.Lt: ast.Gt, ast.Gt: ast.Lt, ast.LtE: ast.GtE, ast.GtE: ast.LtE}.get(type(op), type(op))()
            if not (isinstance(l, ast.Name) and isinstance(r, ast.Call) and isinstance(r.func, ast.Name) and r.func.id == 'len' and len(r.args) == 1):
                continue
            seq = ast.unparse(r.args[0])
            reads = [x for st in w.body for x in ast.walk(st) if isinstance(x, ast.Subscript) and isinstance(x.slice, ast.Name) and x.slice.id == l.id and ast.unparse(x.value) == seq]
            if reads and isinstance(op, (ast.Lt, ast.LtE)):
                # the scan must visit every position: the counter starts at 0 and advances by 1
                for blk in [n_.body for n_ in ast.walk(func.node) if hasattr(n_, 'body') and isinstance(getattr(n_, 'body'), list)]:
                    if w in blk:
                        for prev in reversed(blk[:blk.index(w)]):
                            if isinstance(prev, ast.Assign) and len(prev.targets) == 1 and isinstance(prev.targets[0], ast.Name) and prev.targets[0].id == l.id:
                                if isinstance(prev.value, ast.Constant) and isinstance(prev.value.value, int) and prev.value.value != 0:
                                    out.append((prev.lineno, 'the scan of %s starts at position %d: the entries before it are never examined' % (seq, prev.value.value)))
                                break
                for x in ast.walk(w):
                    if isinstance(x, ast.AugAssign) and isinstance(x.target, ast.Name) and x.target.id == l.id and isinstance(x.op, ast.Add) \
                            and isinstance(x.value, ast.Constant) and isinstance(x.value.value, int) and x.value.value != 1:
                        out.append((x.lineno, 'the scan of %s advances by %d: entries are skipped' % (seq, x.value.value)))
            if reads and isinstance(op, ast.LtE):
                out.append((c.lineno, '%s[%s] is read while %s' % (seq, l.id, ast.unparse(c))))
            elif reads and isinstance(op, ast.Lt) and unguarded:
                out.append((c.lineno, '%s[%s] is read while (%s): the bound is only one alternative of an `or`' % (seq, l.id, ast.unparse(w.test))))
    return out
