"""Small whole-function lints shared by several properties (pure `ast`).

mutable_default_mutations(func): a parameter whose DEFAULT is a mutable literal ([], {}, set(), list(), dict()) and that
the function mutates in place (append / extend / add / update / insert / setdefault / item assignment / +=).  The default
object is created once, when the function is defined: what one call adds is still there in the next call."""
import ast

MUTATORS = {'append', 'extend', 'add', 'update', 'insert', 'setdefault', 'pop', 'remove', 'clear', 'sort'}


def mutable_default_mutations(func):
    """-> [(parameter name, line of the first mutation, how)]"""
    fn = func.node
    args = fn.args
    pos = args.posonlyargs + args.args
    defaults = dict(zip([a.arg for a in pos][len(pos) - len(args.defaults):], args.defaults))
    defaults.update({a.arg: d for a, d in zip(args.kwonlyargs, args.kw_defaults) if d is not None})
    out = []
    for name, d in defaults.items():
        mutable = isinstance(d, (ast.List, ast.Dict, ast.Set)) or (isinstance(d, ast.Call) and isinstance(d.func, ast.Name) and d.func.id in ('list', 'dict', 'set') and not d.args)
        if not mutable:
            continue
        # rebinding the name first (x = x or []; x = list(x)) makes the later mutations harmless: stop at the first rebinding
        for n in ast.walk(fn):
            how = None
            if isinstance(n, ast.Call) and isinstance(n.func, ast.Attribute) and n.func.attr in MUTATORS and isinstance(n.func.value, ast.Name) and n.func.value.id == name:
                how = '%s.%s(...)' % (name, n.func.attr)
            elif isinstance(n, ast.AugAssign) and isinstance(n.target, ast.Name) and n.target.id == name:
                how = '%s %s= ...' % (name, type(n.op).__name__)
            elif isinstance(n, (ast.Assign, ast.AugAssign)):
                for t in (n.targets if isinstance(n, ast.Assign) else [n.target]):
                    if isinstance(t, ast.Subscript) and isinstance(t.value, ast.Name) and t.value.id == name:
                        how = '%s[...] = ...' % name
            if how:
                rebound = [m for m in ast.walk(fn) if isinstance(m, ast.Assign) and any(isinstance(t, ast.Name) and t.id == name for t in m.targets) and m.lineno < n.lineno]
                if not rebound:
                    out.append((name, n.lineno, how))
                    break
    return out


def index_bound_violations(func):
    """`while ... j <= len(xs) ...:  ... xs[j] ...` : a loop that subscripts xs with its counter must stop at j < len(xs);
    with <= the subscript one past the end raises IndexError.  -> [(line, text)]"""
    out = []
    for w in ast.walk(func.node):
        if not isinstance(w, ast.While):
            continue
        conds = w.test.values if (isinstance(w.test, ast.BoolOp) and isinstance(w.test.op, ast.And)) else [w.test]
        unguarded = []
        if isinstance(w.test, ast.BoolOp) and isinstance(w.test.op, ast.Or):
            # `a or j < len(xs)`: the bound does not stop the loop while a holds
            conds = w.test.values
            unguarded = conds
        for c in conds:
            if not (isinstance(c, ast.Compare) and len(c.ops) == 1):
                continue
            l, op, r = c.left, c.ops[0], c.comparators[0]
            if isinstance(r, ast.Name) and isinstance(l, ast.Call):
                l, r = r, l
                op = {ast.Lt: ast.Gt, ast.Gt: ast.Lt, ast.LtE: ast.GtE, ast.GtE: ast.LtE}.get(type(op), type(op))()
            if not (isinstance(l, ast.Name) and isinstance(r, ast.Call) and isinstance(r.func, ast.Name) and r.func.id == 'len' and len(r.args) == 1):
                continue
            seq = ast.unparse(r.args[0])
            reads = [x for st in w.body for x in ast.walk(st) if isinstance(x, ast.Subscript) and isinstance(x.slice, ast.Name) and x.slice.id == l.id and ast.unparse(x.value) == seq]
            if reads and isinstance(op, (ast.Lt, ast.LtE)):
                # the scan must visit every position: the counter starts at 0 and advances by 1
                for blk in [n_.body for n_ in ast.walk(func.node) if hasattr(n_, 'body') and isinstance(getattr(n_, 'body'), list)]:
                    if w in blk:
                        for prev in reversed(blk[:blk.index(w)]):
                            if isinstance(prev, ast.Assign) and len(prev.targets) == 1 and isinstance(prev.targets[0], ast.Name) and prev.targets[0].id == l.id:
                                if isinstance(prev.value, ast.Constant) and isinstance(prev.value.value, int) and prev.value.value != 0:
                                    out.append((prev.lineno, 'the scan of %s starts at position %d: the entries before it are never examined' % (seq, prev.value.value)))
                                break
                for x in ast.walk(w):
                    if isinstance(x, ast.AugAssign) and isinstance(x.target, ast.Name) and x.target.id == l.id and isinstance(x.op, ast.Add) \
                            and isinstance(x.value, ast.Constant) and isinstance(x.value.value, int) and x.value.value != 1:
                        out.append((x.lineno, 'the scan of %s advances by %d: entries are skipped' % (seq, x.value.value)))
            if reads and isinstance(op, ast.LtE):
                out.append((c.lineno, '%s[%s] is read while %s' % (seq, l.id, ast.unparse(c))))
            elif reads and isinstance(op, ast.Lt) and unguarded:
                out.append((c.lineno, '%s[%s] is read while (%s): the bound is only one alternative of an `or`' % (seq, l.id, ast.unparse(w.test))))
    return out


def use_before_any_binding(func):
    """a local name (assigned somewhere in the function, so local by Python's scoping) that is READ at a point in front of
    which the function text contains no binding of it at all: the first execution of that read raises UnboundLocalError.
    (Loop targets, with/except targets, imports, parameters, comprehension variables, global/nonlocal names and nested
    function bodies are taken into account; a read inside a nested def is not judged.)  -> [(name, line)]"""
    fn = func.node
    declared = set()
    for n in ast.walk(fn):
        if isinstance(n, (ast.Global, ast.Nonlocal)):
            declared |= set(n.names)
    params = {a.arg for a in fn.args.posonlyargs + fn.args.args + fn.args.kwonlyargs}
    if fn.args.vararg:
        params.add(fn.args.vararg.arg)
    if fn.args.kwarg:
        params.add(fn.args.kwarg.arg)
    nested = set()
    for n in ast.walk(fn):
        if n is not fn and isinstance(n, (ast.FunctionDef, ast.Lambda, ast.ClassDef, ast.ListComp, ast.SetComp, ast.DictComp, ast.GeneratorExp)):
            for x in ast.walk(n):
                if x is not n:
                    nested.add(id(x))
    binds = {}       # name -> earliest (line, col) of a binding
    def note(name, node):
        pos = (node.lineno, node.col_offset)
        if name not in binds or pos < binds[name]:
            binds[name] = pos
    for n in ast.walk(fn):
        if id(n) in nested:
            continue
        if isinstance(n, ast.Name) and isinstance(n.ctx, (ast.Store, ast.Del)):
            note(n.id, n)
        elif isinstance(n, (ast.Import, ast.ImportFrom)):
            for a in n.names:
                note((a.asname or a.name).split('.')[0], n)
        elif isinstance(n, ast.ExceptHandler) and n.name:
            note(n.name, n)
        elif isinstance(n, (ast.FunctionDef, ast.ClassDef)) and n is not fn:
            note(n.name, n)
    out = []
    seen = set()
    for n in ast.walk(fn):
        if id(n) in nested or not (isinstance(n, ast.Name) and isinstance(n.ctx, ast.Load)):
            continue
        name = n.id
        if name in params or name in declared or name not in binds or name in seen:
            continue
        # an augmented assignment `x += 1` reads x at the position of the statement
        if (n.lineno, n.col_offset) < binds[name]:
            out.append((name, n.lineno))
            seen.add(name)
    # x += e with no earlier binding: the Store of the AugAssign is itself the earliest "binding"
    for n in ast.walk(fn):
        if id(n) in nested:
            continue
        if isinstance(n, ast.AugAssign) and isinstance(n.target, ast.Name) and n.target.id not in params and n.target.id not in declared and n.target.id not in seen:
            name = n.target.id
            earlier = [m for m in ast.walk(fn) if id(m) not in nested and isinstance(m, ast.Name) and m.id == name and isinstance(m.ctx, ast.Store)
                       and (m.lineno, m.col_offset) < (n.lineno, n.col_offset) and m is not n.target]
            other = [m for m in ast.walk(fn) if id(m) not in nested and isinstance(m, (ast.For, ast.comprehension)) and any(isinstance(x, ast.Name) and x.id == name for x in ast.walk(m.target))]
            if not earlier and not other:
                out.append((name, n.lineno))
                seen.add(name)
    return out


def attribute_definitions(repo):
    """class name -> set of attribute names that can exist on its instances: stored on self in a method of the class (plain
    assignment, not +=), class-level names, methods; plus, for every class, the names stored on a NON-self receiver
    anywhere in the package (model.num_students = ..., pair.lp_var = ...) - the receiver's class is not resolved, so those
    count for all classes (conservative: fewer reports)."""
    external = set()
    per_class = {}
    for rel, tree in repo.trees.items():
        for n in ast.walk(tree):
            if isinstance(n, ast.ClassDef):
                s = per_class.setdefault(n.name, set())
                for st in n.body:
                    if isinstance(st, (ast.FunctionDef, ast.ClassDef)):
                        s.add(st.name)
                    elif isinstance(st, ast.Assign):
                        for t in st.targets:
                            for x in ast.walk(t):
                                if isinstance(x, ast.Name):
                                    s.add(x.id)
                    elif isinstance(st, ast.AnnAssign) and isinstance(st.target, ast.Name):
                        s.add(st.target.id)
                for m in ast.walk(n):
                    if isinstance(m, (ast.Assign, ast.AnnAssign, ast.For, ast.With)):
                        tgts = m.targets if isinstance(m, ast.Assign) else ([m.target] if isinstance(m, (ast.AnnAssign, ast.For)) else [i.optional_vars for i in m.items if i.optional_vars is not None])
                        for t in tgts:
                            for x in ast.walk(t):
                                if isinstance(x, ast.Attribute) and isinstance(x.ctx, ast.Store) and isinstance(x.value, ast.Name) and x.value.id == 'self':
                                    s.add(x.attr)
                    if isinstance(m, ast.Call) and isinstance(m.func, ast.Name) and m.func.id == 'setattr' and len(m.args) == 3 and isinstance(m.args[0], ast.Name) and m.args[0].id == 'self':
                        if isinstance(m.args[1], ast.Constant):
                            s.add(m.args[1].value)
                        else:
                            s.add('*')
            if isinstance(n, (ast.Assign, ast.AnnAssign)):
                tgts = n.targets if isinstance(n, ast.Assign) else [n.target]
                for t in tgts:
                    for x in ast.walk(t):
                        if isinstance(x, ast.Attribute) and isinstance(x.ctx, ast.Store) and not (isinstance(x.value, ast.Name) and x.value.id == 'self'):
                            external.add(x.attr)
            if isinstance(n, ast.Call) and isinstance(n.func, ast.Name) and n.func.id == 'setattr' and len(n.args) == 3 and not (isinstance(n.args[0], ast.Name) and n.args[0].id == 'self'):
                external.add(n.args[1].value if isinstance(n.args[1], ast.Constant) else '*')
    return per_class, external


def never_defined_attributes(repo, func, defs=None):
    """self.X read in a method of class C where X is defined nowhere for C (see attribute_definitions) and the read is not
    guarded by hasattr(self, 'X') / inside try.  -> [(attribute, line)]"""
    if not func.cls:
        return []
    per_class, external = defs or attribute_definitions(repo)
    have = per_class.get(func.cls, set())
    if '*' in have or '*' in external:
        return []
    guarded = {n.args[1].value for n in ast.walk(func.node) if isinstance(n, ast.Call) and isinstance(n.func, ast.Name) and n.func.id in ('hasattr', 'getattr') and len(n.args) >= 2
               and isinstance(n.args[1], ast.Constant)}
    in_try = set()
    for n in ast.walk(func.node):
        if isinstance(n, ast.Try):
            for x in ast.walk(n):
                in_try.add(id(x))
    out, seen = [], set()
    for n in ast.walk(func.node):
        if isinstance(n, ast.Attribute) and isinstance(n.ctx, ast.Load) and isinstance(n.value, ast.Name) and n.value.id == 'self' and id(n) not in in_try:
            if n.attr not in have and n.attr not in external and n.attr not in guarded and n.attr not in seen and not n.attr.startswith('__'):
                out.append((n.attr, n.lineno))
                seen.add(n.attr)
    return out
