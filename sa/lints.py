"""Small whole-function lints shared by several properties (pure `ast`).

mutable_default_mutations(func): a parameter whose DEFAULT is a mutable literal ([], {}, set(), list(), dict()) and that
the function mutates in place (append / extend / add / update / insert / setdefault / item assignment / +=).  The default
object is created once, when the function is defined: what one call adds is still there in the next call."""
import ast

MUTATORS = {'append', 'extend', 'add', 'update', 'insert', 'setdefault', 'pop', 'remove', 'clear', 'sort'}


def mutable_default_mutations(func):
    """-> [(parameter name, line of the first mutation, how)]"""
    fn = func.node
    args = fn.args
    pos = args.posonlyargs + args.args
    defaults = dict(zip([a.arg for a in pos][len(pos) - len(args.defaults):], args.defaults))
    defaults.update({a.arg: d for a, d in zip(args.kwonlyargs, args.kw_defaults) if d is not None})
    out = []
    for name, d in defaults.items():
        mutable = isinstance(d, (ast.List, ast.Dict, ast.Set)) or (isinstance(d, ast.Call) and isinstance(d.func, ast.Name) and d.func.id in ('list', 'dict', 'set') and not d.args)
        if not mutable:
            continue
        # rebinding the name first (x = x or []; x = list(x)) makes the later mutations harmless: stop at the first rebinding
        for n in ast.walk(fn):
            how = None
            if isinstance(n, ast.Call) and isinstance(n.func, ast.Attribute) and n.func.attr in MUTATORS and isinstance(n.func.value, ast.Name) and n.func.value.id == name:
                how = '%s.%s(...)' % (name, n.func.attr)
            elif isinstance(n, ast.AugAssign) and isinstance(n.target, ast.Name) and n.target.id == name:
                how = '%s %s= ...' % (name, type(n.op).__name__)
            elif isinstance(n, (ast.Assign, ast.AugAssign)):
                for t in (n.targets if isinstance(n, ast.Assign) else [n.target]):
                    if isinstance(t, ast.Subscript) and isinstance(t.value, ast.Name) and t.value.id == name:
                        how = '%s[...] = ...' % name
            if how:
                rebound = [m for m in ast.walk(fn) if isinstance(m, ast.Assign) and any(isinstance(t, ast.Name) and t.id == name for t in m.targets) and m.lineno < n.lineno]
                if not rebound:
                    out.append((name, n.lineno, how))
                    break
    return out


def index_bound_violations(func):
    """`while ... j <= len(xs) ...:  ... xs[j] ...` : a loop that subscripts xs with its counter must stop at j < len(xs);
    with <= the subscript one past the end raises IndexError.  -> [(line, text)]"""
    out = []
    for w in ast.walk(func.node):
        if not isinstance(w, ast.While):
            continue
        conds = w.test.values if (isinstance(w.test, ast.BoolOp) and isinstance(w.test.op, ast.And)) else [w.test]
        unguarded = []
        if isinstance(w.test, ast.BoolOp) and isinstance(w.test.op, ast.Or):
            # `a or j < len(xs)`: the bound does not stop the loop while a holds
            conds = w.test.values
            unguarded = conds
        for c in conds:
            if not (isinstance(c, ast.Compare) and len(c.ops) == 1):
                continue
            l, op, r = c.left, c.ops[0], c.comparators[0]
            if isinstance(r, ast.Name) and isinstance(l, ast.Call):
                l, r = r, l
                op = {ast.Lt: ast.Gt, ast.Gt: ast.Lt, ast.LtE: ast.GtE, ast.GtE: ast.LtE}.get(type(op), type(op))()
            if not (isinstance(l, ast.Name) and isinstance(r, ast.Call) and isinstance(r.func, ast.Name) and r.func.id == 'len' and len(r.args) == 1):
                continue
            seq = ast.unparse(r.args[0])
            reads = [x for st in w.body for x in ast.walk(st) if isinstance(x, ast.Subscript) and isinstance(x.slice, ast.Name) and x.slice.id == l.id and ast.unparse(x.value) == seq]
            if reads and isinstance(op, (ast.Lt, ast.LtE)):
                # the scan must visit every position: the counter starts at 0 and advances by 1
                for blk in [n_.body for n_ in ast.walk(func.node) if hasattr(n_, 'body') and isinstance(getattr(n_, 'body'), list)]:
                    if w in blk:
                        for prev in reversed(blk[:blk.index(w)]):
                            if isinstance(prev, ast.Assign) and len(prev.targets) == 1 and isinstance(prev.targets[0], ast.Name) and prev.targets[0].id == l.id:
                                if isinstance(prev.value, ast.Constant) and isinstance(prev.value.value, int) and prev.value.value != 0:
                                    out.append((prev.lineno, 'the scan of %s starts at position %d: the entries before it are never examined' % (seq, prev.value.value)))
                                break
                for x in ast.walk(w):
                    if isinstance(x, ast.Assign) and len(x.targets) == 1 and isinstance(x.targets[0], ast.Name) and x.targets[0].id == l.id and isinstance(x.value, ast.Constant) and x is not w:
                        if any(x is y for st in w.body for y in ast.walk(st)):
                            out.append((x.lineno, 'the scan of %s resets %s to %r in every round: it never gets past that position' % (seq, l.id, x.value.value)))
                if not any(isinstance(x, ast.Name) and x.id == l.id and isinstance(x.ctx, ast.Store) for st in w.body for x in ast.walk(st)):
                    out.append((w.lineno, 'the scan of %s never advances %s: the same entry is examined for ever' % (seq, l.id)))
                for x in ast.walk(w):
                    if isinstance(x, ast.AugAssign) and isinstance(x.target, ast.Name) and x.target.id == l.id and isinstance(x.op, ast.Add) \
                            and isinstance(x.value, ast.Constant) and isinstance(x.value.value, int) and x.value.value != 1:
                        out.append((x.lineno, 'the scan of %s advances by %d: entries are skipped' % (seq, x.value.value)))
                    elif isinstance(x, ast.AugAssign) and isinstance(x.target, ast.Name) and x.target.id == l.id and isinstance(x.op, ast.Sub) \
                            and isinstance(x.value, ast.Constant) and isinstance(x.value.value, int) and x.value.value > 0:
                        out.append((x.lineno, 'the scan of %s moves %s backwards while the loop waits for it to reach the end' % (seq, l.id)))
            if reads and isinstance(op, ast.LtE):
                out.append((c.lineno, '%s[%s] is read while %s' % (seq, l.id, ast.unparse(c))))
            elif reads and isinstance(op, ast.Lt) and unguarded:
                out.append((c.lineno, '%s[%s] is read while (%s): the bound is only one alternative of an `or`' % (seq, l.id, ast.unparse(w.test))))
    return out


def falls_off_the_end(func):
    """True when the last statement reached on some path of the function body is neither `return <value>` nor `raise`
    (the caller then receives None).  Judged structurally: if/else, try, with, match by their last statements;
    complementary `if t: return a` / `if not t: return b` at the end count as returning; a body that ends in a loop
    or in anything not understood is NOT judged (False)."""
    def returns(block):
        """True: every path through block ends in return <value> / raise; False: some path falls through; None: unknown"""
        if not block:
            return False
        last = block[-1]
        if isinstance(last, ast.Return):
            return last.value is not None and not (isinstance(last.value, ast.Constant) and last.value.value is None)
        if isinstance(last, ast.Raise):
            return True
        if isinstance(last, ast.If):
            a = returns(last.body)
            if last.orelse:
                b = returns(last.orelse)
                if a is None or b is None:
                    return None
                return a and b
            # complementary test right in front
            if a and len(block) >= 2 and isinstance(block[-2], ast.If) and not block[-2].orelse and returns(block[-2].body):
                def strip(t, pos=True):
                    while isinstance(t, ast.UnaryOp) and isinstance(t.op, ast.Not):
                        t, pos = t.operand, not pos
                    return ast.dump(t), pos
                d1, p1 = strip(block[-2].test)
                d2, p2 = strip(last.test)
                if d1 == d2 and p1 != p2:
                    return True
            return False if a is not None else None
        if isinstance(last, ast.With):
            return returns(last.body)
        if isinstance(last, ast.Try):
            parts = [returns(last.body + last.orelse)] + [returns(h.body) for h in last.handlers]
            if last.finalbody and returns(last.finalbody):
                return True
            if None in parts:
                return None
            return all(parts)
        if isinstance(last, (ast.For, ast.While, ast.Match)):
            return None
        return False
    return returns(func.node.body) is False


ITERATOR_MAKERS = {'chain', 'map', 'filter', 'zip', 'iter', 'reversed', 'enumerate', 'islice', 'from_iterable', 'takewhile', 'dropwhile', 'accumulate', 'starmap', 'groupby'}


_GENERATOR_FUNCS = {}


def generator_function_names(repo):
    """names of package functions / methods whose body contains yield (calling them makes a one-shot iterator)"""
    key = id(repo)
    if key not in _GENERATOR_FUNCS:
        out = set()
        for tree in repo.trees.values():
            for fn in [x for x in ast.walk(tree) if isinstance(x, ast.FunctionDef)]:
                own = [y for y in ast.walk(fn) if isinstance(y, (ast.Yield, ast.YieldFrom))]
                nested = {id(y) for g in ast.walk(fn) if isinstance(g, (ast.FunctionDef, ast.Lambda)) and g is not fn for y in ast.walk(g) if isinstance(y, (ast.Yield, ast.YieldFrom))}
                if any(id(y) not in nested for y in own):
                    out.add(fn.name)
        _GENERATOR_FUNCS[key] = out
    return _GENERATOR_FUNCS[key]


def iterators_consumed_twice(func, repo=None):
    """name = <generator expression> / chain(...) / map(...) / zip(...) / ... ; the name is then consumed at two places that
    can both run (or at one place inside a loop the assignment is outside of): the second consumer sees an EMPTY
    iterator.  Uses in the two branches of one `if` exclude each other.  -> [(name, line of the second use)]"""
    fn = func.node
    parent = {}
    for n in ast.walk(fn):
        for ch in ast.iter_child_nodes(n):
            parent[id(ch)] = n
    def chain_of(n):
        out = []
        while id(n) in parent:
            p = parent[id(n)]
            out.append((p, n))
            n = p
        return out
    out = []
    for a in ast.walk(fn):
        if not (isinstance(a, ast.Assign) and len(a.targets) == 1 and isinstance(a.targets[0], ast.Name)):
            continue
        v = a.value
        gens = generator_function_names(repo) if repo is not None else set()
        maker = isinstance(v, ast.GeneratorExp) or (isinstance(v, ast.Call) and ((isinstance(v.func, ast.Name) and (v.func.id in ITERATOR_MAKERS or v.func.id in gens)) or
                                                                                  (isinstance(v.func, ast.Attribute) and (v.func.attr in ITERATOR_MAKERS or v.func.attr in gens))))
        if not maker:
            continue
        name = a.targets[0].id
        stores = [x for x in ast.walk(fn) if isinstance(x, ast.Name) and x.id == name and isinstance(x.ctx, ast.Store)]
        if len(stores) != 1:
            continue
        uses = [x for x in ast.walk(fn) if isinstance(x, ast.Name) and x.id == name and isinstance(x.ctx, ast.Load) and (x.lineno, x.col_offset) > (a.lineno, a.col_offset)]
        a_loops = {id(p) for p, _ in chain_of(a) if isinstance(p, (ast.For, ast.While, ast.ListComp, ast.GeneratorExp, ast.SetComp, ast.DictComp))}
        for u in uses:
            if any(isinstance(p, (ast.For, ast.While)) and id(p) not in a_loops and c in p.body for p, c in chain_of(u)) \
                    or any(isinstance(p, (ast.ListComp, ast.GeneratorExp, ast.SetComp, ast.DictComp)) and id(p) not in a_loops and c is getattr(p, 'elt', None) for p, c in chain_of(u)):
                out.append((name, u.lineno))
                break
        else:
            def exclusive(u1, u2):
                c1, c2 = chain_of(u1), chain_of(u2)
                for p1, ch1 in c1:
                    for p2, ch2 in c2:
                        if p1 is p2 and isinstance(p1, ast.If):
                            in_body = lambda ch: any(ch is s for s in p1.body)
                            in_else = lambda ch: any(ch is s for s in p1.orelse)
                            if (in_body(ch1) and in_else(ch2)) or (in_else(ch1) and in_body(ch2)):
                                return True
                        if p1 is p2 and isinstance(p1, ast.IfExp) and {id(ch1), id(ch2)} == {id(p1.body), id(p1.orelse)}:
                            return True
                return False
            for i in range(len(uses)):
                hit = False
                for j in range(i + 1, len(uses)):
                    if not exclusive(uses[i], uses[j]):
                        out.append((name, uses[j].lineno))
                        hit = True
                        break
                if hit:
                    break
    return out


MUTABLE_DISPLAYS = (ast.List, ast.Dict, ast.Set, ast.ListComp, ast.DictComp, ast.SetComp)
IN_PLACE = ('append', 'extend', 'insert', 'add', 'update', 'setdefault', 'pop', 'remove', 'clear', 'sort', 'reverse')


def shared_containers(repo, func):
    """two names for ONE freshly made container that is then changed in place:
       a = b = []            (chained assignment of one list / dict / set to two targets), or
       rows = [[]] * n       (n references to one inner list) followed by rows[i].append(x) / rows[i][j] = x / rows[i] += [x].
    -> [(line, text)]"""
    out = []
    fn = func.node
    def dotted(e):
        if isinstance(e, ast.Name):
            return e.id
        if isinstance(e, ast.Attribute):
            b = dotted(e.value)
            return None if b is None else b + '.' + e.attr
        return None
    scope = [fn]
    # attributes of self may be filled in by other methods of the class
    if func.cls and func.cls in repo.classes:
        scope = [m.node for m in repo.classes[func.cls].values()] + [g.node for g in repo.all_funcs() if g.cls != func.cls]
    def mutated(names):
        for sc in (scope if any('.' in n_ for n_ in names) else [fn]):
            for n in ast.walk(sc):
                if isinstance(n, ast.Call) and isinstance(n.func, ast.Attribute) and n.func.attr in IN_PLACE:
                    d = dotted(n.func.value)
                    if d is not None and any(d == x or d.endswith('.' + x.split('.')[-1]) and '.' in x for x in names):
                        return n.lineno
                if isinstance(n, (ast.Assign, ast.AugAssign)):
                    for t in (n.targets if isinstance(n, ast.Assign) else [n.target]):
                        if isinstance(t, ast.Subscript):
                            d = dotted(t.value)
                            if d is not None and any(d == x or d.endswith('.' + x.split('.')[-1]) and '.' in x for x in names):
                                return n.lineno
        return None
    for n in ast.walk(fn):
        if isinstance(n, ast.Assign) and len(n.targets) >= 2 and isinstance(n.value, MUTABLE_DISPLAYS):
            names = [dotted(t) for t in n.targets]
            if all(x is not None for x in names):
                ln = mutated(names)
                if ln is not None:
                    out.append((n.lineno, '%s = %s: one container under %d names, changed in place at line %d' % (' = '.join(names), ast.unparse(n.value)[:30], len(names), ln)))
        if isinstance(n, ast.Assign) and len(n.targets) == 1 and isinstance(n.targets[0], ast.Name) and isinstance(n.value, ast.BinOp) and isinstance(n.value.op, ast.Mult):
            lst = n.value.left if isinstance(n.value.left, ast.List) else (n.value.right if isinstance(n.value.right, ast.List) else None)
            if lst is not None and len(lst.elts) == 1 and isinstance(lst.elts[0], MUTABLE_DISPLAYS):
                name = n.targets[0].id
                for m in ast.walk(fn):
                    hit = None
                    if isinstance(m, ast.Call) and isinstance(m.func, ast.Attribute) and m.func.attr in IN_PLACE and isinstance(m.func.value, ast.Subscript) \
                            and isinstance(m.func.value.value, ast.Name) and m.func.value.value.id == name:
                        hit = m.lineno
                    if isinstance(m, ast.AugAssign) and isinstance(m.target, ast.Subscript) and isinstance(m.target.value, ast.Name) and m.target.value.id == name \
                            and isinstance(lst.elts[0], (ast.List, ast.ListComp)):
                        hit = m.lineno                    # rows[i] += [x] extends the shared inner list in place
                    if isinstance(m, (ast.Assign, ast.AugAssign)):
                        for t in (m.targets if isinstance(m, ast.Assign) else [m.target]):
                            if isinstance(t, ast.Subscript) and isinstance(t.value, ast.Subscript) and isinstance(t.value.value, ast.Name) and t.value.value.id == name:
                                hit = m.lineno
                    if hit is not None:
                        out.append((n.lineno, '%s = %s: every slot is the same inner container, changed in place at line %d' % (name, ast.unparse(n.value)[:30], hit)))
                        break
    return out


def identity_comparisons(repo, func):
    """`a is b` / `a is not b` where neither side is None, True, False, Ellipsis or a module-level sentinel object(): identity of
    two computed values (ints beyond CPython's small-int cache, strings) is not equality.  -> [(line, text)]"""
    tree = repo.trees.get(func.relpath)
    sentinels = set()
    if tree is not None:
        for st in tree.body:
            if isinstance(st, ast.Assign) and len(st.targets) == 1 and isinstance(st.targets[0], ast.Name) and isinstance(st.value, ast.Call) \
                    and isinstance(st.value.func, ast.Name) and st.value.func.id == 'object':
                sentinels.add(st.targets[0].id)
    enums = set()
    for rel_, tree_ in repo.trees.items():
        for c_ in ast.walk(tree_):
            if isinstance(c_, ast.ClassDef) and any((isinstance(b_, ast.Name) and b_.id.endswith('Enum')) or (isinstance(b_, ast.Attribute) and b_.attr.endswith('Enum')) for b_ in c_.bases):
                enums.add(c_.name)
    def singleton(e):
        if isinstance(e, ast.Attribute) and isinstance(e.value, ast.Name) and e.value.id in enums:
            return True                          # members of an Enum are singletons
        return (isinstance(e, ast.Constant) and (e.value is None or e.value is True or e.value is False or e.value is Ellipsis)) or (isinstance(e, ast.Name) and e.id in sentinels)
    out = []
    for n in ast.walk(func.node):
        if isinstance(n, ast.Compare):
            left = n.left
            for op, right in zip(n.ops, n.comparators):
                if isinstance(op, (ast.Is, ast.IsNot)) and not singleton(left) and not singleton(right):
                    out.append((n.lineno, '%s %s %s' % (ast.unparse(left)[:40], 'is' if isinstance(op, ast.Is) else 'is not', ast.unparse(right)[:40])))
                left = right
    return out


def partial_accumulations_in_try(func):
    """try: <loop that accumulates into several names> except X: <does not re-raise>.  When the exception interrupts the loop
    every accumulator stays at the partial value of the iterations done so far; a handler that resets only some of them
    leaves the others silently wrong.  -> [(line, accumulator, handler text)]"""
    out = []
    for t in ast.walk(func.node):
        if not isinstance(t, ast.Try):
            continue
        accs = {}
        for lp in [n for st in t.body for n in ast.walk(st) if isinstance(n, (ast.For, ast.While))]:
            for n in ast.walk(lp):
                if isinstance(n, ast.AugAssign) and isinstance(n.target, ast.Name):
                    accs.setdefault(n.target.id, n.lineno)
                if isinstance(n, ast.Expr) and isinstance(n.value, ast.Call) and isinstance(n.value.func, ast.Attribute) and n.value.func.attr in ('append', 'extend', 'add', 'update') \
                        and isinstance(n.value.func.value, ast.Name):
                    accs.setdefault(n.value.func.value.id, n.lineno)
        if len(accs) < 2:
            continue
        for h in t.handlers:
            if any(isinstance(n, ast.Raise) for st in h.body for n in ast.walk(st)):
                continue
            reset = {x.id for st in h.body for x in ast.walk(st) if isinstance(x, ast.Name) and isinstance(x.ctx, ast.Store)}
            for a, ln in sorted(accs.items()):
                if a not in reset:
                    out.append((ln, a, 'except %s' % (ast.unparse(h.type) if h.type is not None else '')))
                    break
    return out


def fancy_index_updates(func):
    """arr[[i, j, ...]] += v  /  arr[[f(x) for x in xs]] += v : numpy evaluates the right-hand side once and assigns, so an index
    that occurs twice is counted once (np.add.at is the accumulating form); a Python list raises TypeError.  -> [(line, text)]"""
    out = []
    for n in ast.walk(func.node):
        if isinstance(n, ast.AugAssign) and isinstance(n.target, ast.Subscript) and isinstance(n.target.slice, (ast.List, ast.ListComp)):
            out.append((n.lineno, ast.unparse(n)[:80]))
    return out


def falsy_position_tests(func):
    """pos = None ... pos = i (i a 0-based loop index) ... `if not pos` / `if pos` / `pos or ...`: position 0 is a position, but it
    is falsy - the truth test treats "found at the first place" as "not found".  -> [(line, name, index variable)]"""
    fn = func.node
    zero = set()
    for n in ast.walk(fn):
        if isinstance(n, ast.For):
            it = n.iter
            if isinstance(it, ast.Call) and isinstance(it.func, ast.Name):
                if it.func.id == 'enumerate' and isinstance(n.target, ast.Tuple) and isinstance(n.target.elts[0], ast.Name):
                    st = it.args[1] if len(it.args) > 1 else next((k.value for k in it.keywords if k.arg == 'start'), None)
                    if st is None or (isinstance(st, ast.Constant) and st.value == 0):
                        zero.add(n.target.elts[0].id)
                if it.func.id == 'range' and isinstance(n.target, ast.Name) and (len(it.args) == 1 or (len(it.args) >= 2 and isinstance(it.args[0], ast.Constant) and it.args[0].value == 0)):
                    zero.add(n.target.id)
    if not zero:
        return []
    holds, none_init = {}, set()
    for n in ast.walk(fn):
        if isinstance(n, ast.Assign) and len(n.targets) == 1 and isinstance(n.targets[0], ast.Name):
            if isinstance(n.value, ast.Name) and n.value.id in zero:
                holds[n.targets[0].id] = n.value.id
            if isinstance(n.value, ast.Constant) and n.value.value is None:
                none_init.add(n.targets[0].id)
    cands = {k: v for k, v in holds.items() if k in none_init}
    if not cands:
        return []
    out = []
    def truth_tested(e):
        # names whose truth value decides e
        if isinstance(e, ast.Name):
            return [e]
        if isinstance(e, ast.UnaryOp) and isinstance(e.op, ast.Not):
            return truth_tested(e.operand)
        if isinstance(e, ast.BoolOp):
            return [x for v in e.values for x in truth_tested(v)]
        return []
    for n in ast.walk(fn):
        tests = []
        if isinstance(n, (ast.If, ast.While, ast.IfExp)):
            tests.append(n.test)
        if isinstance(n, ast.BoolOp):
            tests += n.values[:-1]
        for t in tests:
            for x in truth_tested(t):
                if x.id in cands and not any(o[1] == x.id for o in out):
                    out.append((x.lineno, x.id, cands[x.id]))
    return out


def partial_key_caches(repo, func):
    """a value computed from the function's inputs is kept in MODULE-LEVEL state (a global rebound under `global`, or an entry
    stored into a module-level container) and reused later, while the test that decides on reuse / the key it is filed
    under leaves out an input the value depends on: a later call with a different value of that input is handed the
    stale result.  Inputs = parameters and attribute chains of self, followed through local assignments.
    -> [(line, global name, missing input, text of the reuse test or key)]"""
    tree = repo.trees.get(func.relpath)
    if tree is None:
        return []
    module_names = set()
    for st in tree.body:
        if isinstance(st, (ast.Assign, ast.AnnAssign)):
            for t in (st.targets if isinstance(st, ast.Assign) else [st.target]):
                if isinstance(t, ast.Name):
                    module_names.add(t.id)
    fn = func.node
    params = {a.arg for a in fn.args.posonlyargs + fn.args.args + fn.args.kwonlyargs} - {'self', 'cls'}
    declared_global = {n_ for x in ast.walk(fn) if isinstance(x, ast.Global) for n_ in x.names}
    local_defs = {}
    for x in ast.walk(fn):
        if isinstance(x, ast.Assign) and len(x.targets) == 1 and isinstance(x.targets[0], ast.Name) and x.targets[0].id not in declared_global:
            local_defs.setdefault(x.targets[0].id, []).append(x.value)

    def dotted(e):
        if isinstance(e, ast.Name):
            return e.id
        if isinstance(e, ast.Attribute):
            b = dotted(e.value)
            return None if b is None else b + '.' + e.attr
        return None

    def inputs_of(e, depth=0, seen=None):
        seen = set() if seen is None else seen
        out = set()
        for x in ast.walk(e):
            d = dotted(x) if isinstance(x, (ast.Name, ast.Attribute)) else None
            if d is None:
                continue
            root = d.split('.')[0]
            if root in params:
                out.add(root)
            elif root == 'self' and '.' in d:
                out.add(d)
            elif isinstance(x, ast.Name) and root in local_defs and root not in seen and depth < 3:
                seen.add(root)
                for v in local_defs[root]:
                    out |= inputs_of(v, depth + 1, seen)
        # keep only the longest chains (self.a and self.a.b -> self.a.b)
        return {d for d in out if not any(o != d and o.startswith(d + '.') for o in out)}

    def mentions(e):
        out = set()
        for x in ast.walk(e):
            d = dotted(x) if isinstance(x, (ast.Name, ast.Attribute)) else None
            if d is not None:
                out.add(d)
                if isinstance(x, ast.Name) and x.id in local_defs:
                    for v in local_defs[x.id]:
                        for y in ast.walk(v):
                            d2 = dotted(y) if isinstance(y, (ast.Name, ast.Attribute)) else None
                            if d2 is not None:
                                out.add(d2)
        # maximal chains only: self.a.b mentions self.a.b, not self.a
        return {d for d in out if not any(o != d and o.startswith(d + '.') for o in out)}

    parent = {}
    for n in ast.walk(fn):
        for ch in ast.iter_child_nodes(n):
            parent[id(ch)] = n
    out = []
    for x in ast.walk(fn):
        g = key = val = None
        if isinstance(x, ast.Assign) and len(x.targets) == 1:
            t = x.targets[0]
            if isinstance(t, ast.Name) and t.id in declared_global and t.id in module_names:
                g, val = t.id, x.value
            elif isinstance(t, ast.Subscript) and isinstance(t.value, ast.Name) and t.value.id in module_names and t.value.id not in local_defs and t.value.id not in params:
                g, key, val = t.value.id, t.slice, x.value
        elif isinstance(x, ast.Call) and isinstance(x.func, ast.Attribute) and x.func.attr == 'setdefault' and isinstance(x.func.value, ast.Name) \
                and x.func.value.id in module_names and x.func.value.id not in local_defs and len(x.args) == 2:
            g, key, val = x.func.value.id, x.args[0], x.args[1]
        if g is None:
            continue
        if isinstance(val, ast.Constant):
            continue
        deps = inputs_of(val)
        if not deps:
            continue
        covered = set()
        texts = []
        if key is not None:
            covered |= mentions(key)
            texts.append('key ' + ast.unparse(key))
        p = parent.get(id(x))
        node = x
        while p is not None and p is not fn:
            if isinstance(p, ast.If) and any(isinstance(y, ast.Name) and y.id == g for y in ast.walk(p.test)):
                covered |= mentions(p.test)
                texts.append('test ' + ast.unparse(p.test))
            node, p = p, parent.get(id(p))
        missing = sorted(d for d in deps if not any(c == d or c.startswith(d + '.') or d.startswith(c + '.') for c in covered if c != 'self'))
        if missing:
            out.append((x.lineno, g, missing[0], '; '.join(texts) or 'unconditionally'))
    return out


def crossed_arguments(func, calls):
    """a call of a repository function in which two positional arguments are each named after the OTHER one's parameter
    (f(filename, options) called as f(options, filename); n1 / n2 exchanged) and neither is named after its own: the two
    were swapped.  Names are the trailing identifier of the argument expression; they match when equal, or when they
    share a word (split at `_`, trailing digits dropped) of three letters or more.  -> [(callee qualname, line, text)]"""
    def ident(e):
        if isinstance(e, ast.Name):
            return e.id
        if isinstance(e, ast.Attribute):
            return e.attr
        return None
    def words(s):
        return {w.rstrip('0123456789') for w in s.lower().split('_') if len(w.rstrip('0123456789')) >= 3}
    def match(a, p):
        return a == p or bool(words(a) & words(p))
    out = []
    for node, cs in calls:
        cs = [c for c in cs if c is not None]
        if len(cs) != 1 or any(isinstance(a, ast.Starred) for a in node.args) or len(node.args) < 2:
            continue
        g = cs[0]
        params = [a.arg for a in g.node.args.posonlyargs + g.node.args.args]
        if g.cls and params and params[0] in ('self', 'cls') and not (isinstance(node.func, ast.Attribute) and isinstance(node.func.value, ast.Name) and node.func.value.id == g.cls):
            params = params[1:]
        if g.name == '__init__' and params and params[0] == 'self':
            params = params[1:]
        names = [ident(a) for a in node.args]
        for i in range(min(len(names), len(params))):
            for j in range(i + 1, min(len(names), len(params))):
                ai, aj, pi, pj = names[i], names[j], params[i], params[j]
                if ai is None or aj is None:
                    continue
                if match(ai, pj) and match(aj, pi) and not match(ai, pi) and not match(aj, pj):
                    out.append((g.qualname, node.lineno, '%s(... %s, %s ...) against parameters (... %s, %s ...)' % (g.name, ai, aj, pi, pj)))
    return out


def returns_a_value(func):
    """some `return <expr>` (other than `return None`) or a yield in the function's own body"""
    nested = set()
    for n in ast.walk(func.node):
        if n is not func.node and isinstance(n, (ast.FunctionDef, ast.Lambda, ast.ClassDef)):
            nested |= {id(x) for x in ast.walk(n) if x is not n}
    for n in ast.walk(func.node):
        if id(n) in nested:
            continue
        if isinstance(n, (ast.Yield, ast.YieldFrom)):
            return True
        if isinstance(n, ast.Return) and n.value is not None and not (isinstance(n.value, ast.Constant) and n.value.value is None):
            return True
    return False


def procedure_results_used(func, calls):
    """calls = [(call node, [resolved callee Func])] of func.  A call whose every resolved callee never returns a value
    (no `return <expr>`, no yield; constructors excepted) and whose result is nevertheless USED - assigned, passed on,
    subscripted, iterated, compared, concatenated - evaluates to None there: the `return` of the callee was lost.
    A bare call statement and `return f(...)` are not uses.  -> [(callee qualname, line)]"""
    parent = {}
    for n in ast.walk(func.node):
        for ch in ast.iter_child_nodes(n):
            parent[id(ch)] = n
    out = []
    repo = _current_repo[0]
    for node, cs in calls:
        cs = [c for c in cs if c is not None]
        fn = node.func
        if repo is not None and isinstance(fn, ast.Attribute) and isinstance(fn.value, ast.Attribute) and isinstance(fn.value.value, ast.Name) and fn.value.value.id == 'self' and func.cls:
            c_ = constructed_attrs(repo).get(func.cls, {}).get(fn.value.attr)       # self.x = Class() in this class decides the receiver
            if c_ is not None:
                m = repo.classes.get(c_, {}).get(fn.attr)
                cs = [m] if m is not None else []
        if not cs or any(c.name == '__init__' or returns_a_value(c) for c in cs):
            continue
        par = parent.get(id(node))
        if par is None or isinstance(par, (ast.Expr, ast.Return, ast.Lambda)):
            continue              # a statement, a pass-through, or the body of a lambda (whose caller decides)
        out.append((cs[0].qualname, node.lineno))
    return out


def scan_entry_violations(func):
    """a `while` scan over seq (its body reads seq[I]) whose test is FALSE on entry for a non-empty seq: with the initial
    constants assigned in front of the loop substituted and len(seq) > 0, the test folds to False, so no entry is ever
    examined.  Tests that do not fold to a constant are not judged.  -> [(line, text)]"""
    out = []
    blocks = [getattr(n_, f_) for n_ in ast.walk(func.node) for f_ in ('body', 'orelse', 'finalbody') if isinstance(getattr(n_, f_, None), list)]
    for w in ast.walk(func.node):
        if not isinstance(w, ast.While):
            continue
        reads = [x for st in w.body for x in ast.walk(st) if isinstance(x, ast.Subscript) and isinstance(x.slice, ast.Name) and isinstance(x.ctx, ast.Load)]
        names = {x.id for x in ast.walk(w.test) if isinstance(x, ast.Name)}
        reads = [x for x in reads if x.slice.id in names]
        if not reads:
            continue
        seqs = {ast.unparse(x.value) for x in reads}
        init = {}
        for blk in blocks:
            if w in blk:
                for prev in blk[:blk.index(w)]:
                    if isinstance(prev, ast.Assign) and len(prev.targets) == 1 and isinstance(prev.targets[0], ast.Name):
                        v = prev.value
                        init[prev.targets[0].id] = v.value if isinstance(v, ast.Constant) else Ellipsis
                    elif not isinstance(prev, (ast.Expr, ast.Pass)):
                        for x in ast.walk(prev):
                            if isinstance(x, ast.Name) and isinstance(x.ctx, ast.Store):
                                init[x.id] = Ellipsis
        class Unk(Exception):
            pass
        def ev(e):
            if isinstance(e, ast.Constant):
                return e.value
            if isinstance(e, ast.Name):
                if e.id in init and init[e.id] is not Ellipsis:
                    return init[e.id]
                raise Unk()
            if isinstance(e, ast.Call) and isinstance(e.func, ast.Name) and e.func.id == 'len' and len(e.args) == 1 and ast.unparse(e.args[0]) in seqs:
                return 3
            if isinstance(e, ast.UnaryOp) and isinstance(e.op, ast.Not):
                return not ev(e.operand)
            if isinstance(e, ast.BoolOp):
                vals = []
                for v in e.values:
                    try:
                        vals.append(bool(ev(v)))
                    except Unk:
                        vals.append(None)
                if isinstance(e.op, ast.And):
                    if False in vals:
                        return False
                    if None in vals:
                        raise Unk()
                    return True
                if True in vals:
                    return True
                if None in vals:
                    raise Unk()
                return False
            if isinstance(e, ast.Compare) and len(e.ops) == 1:
                a, b = ev(e.left), ev(e.comparators[0])
                o = e.ops[0]
                try:
                    if isinstance(o, ast.Lt): return a < b
                    if isinstance(o, ast.LtE): return a <= b
                    if isinstance(o, ast.Gt): return a > b
                    if isinstance(o, ast.GtE): return a >= b
                    if isinstance(o, ast.Eq): return a == b
                    if isinstance(o, ast.NotEq): return a != b
                    if isinstance(o, ast.Is): return a is b
                    if isinstance(o, ast.IsNot): return a is not b
                except TypeError:
                    raise Unk()
            raise Unk()
        try:
            if not ev(w.test):
                out.append((w.lineno, 'while %s: false on entry for a non-empty %s (initial values %s): no entry is ever examined' % (
                    ast.unparse(w.test), sorted(seqs)[0], {k: v for k, v in init.items() if k in names and v is not Ellipsis})))
        except Unk:
            pass
    return out


def use_before_any_binding(func):
    """a local name (assigned somewhere in the function, so local by Python's scoping) that is READ at a point in front of
    which the function text contains no binding of it at all: the first execution of that read raises UnboundLocalError.
    (Loop targets, with/except targets, imports, parameters, comprehension variables, global/nonlocal names and nested
    function bodies are taken into account; a read inside a nested def is not judged.)  -> [(name, line)]"""
    fn = func.node
    declared = set()
    for n in ast.walk(fn):
        if isinstance(n, (ast.Global, ast.Nonlocal)):
            declared |= set(n.names)
    params = {a.arg for a in fn.args.posonlyargs + fn.args.args + fn.args.kwonlyargs}
    if fn.args.vararg:
        params.add(fn.args.vararg.arg)
    if fn.args.kwarg:
        params.add(fn.args.kwarg.arg)
    nested = set()
    for n in ast.walk(fn):
        if n is not fn and isinstance(n, (ast.FunctionDef, ast.Lambda, ast.ClassDef, ast.ListComp, ast.SetComp, ast.DictComp, ast.GeneratorExp)):
            for x in ast.walk(n):
                if x is not n:
                    nested.add(id(x))
    binds = {}       # name -> earliest (line, col) of a binding
    def note(name, node):
        pos = (node.lineno, node.col_offset)
        if name not in binds or pos < binds[name]:
            binds[name] = pos
    for n in ast.walk(fn):
        if id(n) in nested:
            continue
        if isinstance(n, ast.Name) and isinstance(n.ctx, (ast.Store, ast.Del)):
            note(n.id, n)
        elif isinstance(n, (ast.Import, ast.ImportFrom)):
            for a in n.names:
                note((a.asname or a.name).split('.')[0], n)
        elif isinstance(n, ast.ExceptHandler) and n.name:
            note(n.name, n)
        elif isinstance(n, (ast.FunctionDef, ast.ClassDef)) and n is not fn:
            note(n.name, n)
    out = []
    seen = set()
    for n in ast.walk(fn):
        if id(n) in nested or not (isinstance(n, ast.Name) and isinstance(n.ctx, ast.Load)):
            continue
        name = n.id
        if name in params or name in declared or name not in binds or name in seen:
            continue
        # an augmented assignment `x += 1` reads x at the position of the statement
        if (n.lineno, n.col_offset) < binds[name]:
            out.append((name, n.lineno))
            seen.add(name)
    # x += e with no earlier binding: the Store of the AugAssign is itself the earliest "binding"
    for n in ast.walk(fn):
        if id(n) in nested:
            continue
        if isinstance(n, ast.AugAssign) and isinstance(n.target, ast.Name) and n.target.id not in params and n.target.id not in declared and n.target.id not in seen:
            name = n.target.id
            earlier = [m for m in ast.walk(fn) if id(m) not in nested and isinstance(m, ast.Name) and m.id == name and isinstance(m.ctx, ast.Store)
                       and (m.lineno, m.col_offset) < (n.lineno, n.col_offset) and m is not n.target]
            other = [m for m in ast.walk(fn) if id(m) not in nested and isinstance(m, (ast.For, ast.comprehension)) and any(isinstance(x, ast.Name) and x.id == name for x in ast.walk(m.target))]
            if not earlier and not other:
                out.append((name, n.lineno))
                seen.add(name)
    return out


def flags_without_default(func):
    """a local that is only ever assigned literal constants (a flag), read at a point that no binding of it dominates: every
    assignment sits under a condition or in a loop body the read is outside of, so at the read the name holds one of
    its constants or nothing at all - the `found = False` in front of the search was lost.  Reads inside a loop that
    itself assigns the name are not judged; an if/else (or complementary ifs) whose branches all bind or leave counts
    as a binding, so does a with / try body.  -> [(name, line)]"""
    fn = func.node
    params = {a.arg for a in fn.args.posonlyargs + fn.args.args + fn.args.kwonlyargs}
    declared = set()
    nested = set()
    for n in ast.walk(fn):
        if isinstance(n, (ast.Global, ast.Nonlocal)):
            declared |= set(n.names)
        if n is not fn and isinstance(n, (ast.FunctionDef, ast.Lambda, ast.ClassDef)):
            for x in ast.walk(n):
                if x is not n:
                    nested.add(id(x))
    consts, other = {}, set()
    for n in ast.walk(fn):
        if id(n) in nested:
            continue
        if isinstance(n, ast.Assign) and len(n.targets) == 1 and isinstance(n.targets[0], ast.Name) and isinstance(n.value, ast.Constant):
            consts.setdefault(n.targets[0].id, set()).add(id(n.targets[0]))
    for n in ast.walk(fn):
        if isinstance(n, ast.Name) and isinstance(n.ctx, (ast.Store, ast.Del)) and id(n) not in consts.get(n.id, ()):
            other.add(n.id)
        elif isinstance(n, (ast.Import, ast.ImportFrom)):
            other |= {(a.asname or a.name).split('.')[0] for a in n.names}
        elif isinstance(n, ast.ExceptHandler) and n.name:
            other.add(n.name)
    cands = {k for k in consts if k not in other and k not in params and k not in declared}
    if not cands:
        return []

    def leaves(block):
        return any(isinstance(s, (ast.Return, ast.Raise, ast.Continue, ast.Break)) for s in block)

    def binds(s, name):
        if isinstance(s, ast.Assign):
            return any(isinstance(t, ast.Name) and t.id == name for t in s.targets)
        if isinstance(s, ast.If):
            return (block_binds(s.body, name) or leaves(s.body)) and bool(s.orelse) and (block_binds(s.orelse, name) or leaves(s.orelse))
        if isinstance(s, (ast.With, ast.For, ast.While)):
            return block_binds(s.body, name)
        if isinstance(s, ast.Try):
            return block_binds(s.body, name) or block_binds(s.finalbody, name)
        return False

    def block_binds(block, name):
        if any(binds(s, name) for s in block):
            return True
        tests = {}
        for s in block:       # complementary ifs:  if t: x = a   ...   if not t: x = b
            if isinstance(s, ast.If) and not s.orelse and block_binds(s.body, name):
                t = s.test
                pos = True
                while isinstance(t, ast.UnaryOp) and isinstance(t.op, ast.Not):
                    t, pos = t.operand, not pos
                tests.setdefault(ast.dump(t), set()).add(pos)
        return any(v == {True, False} for v in tests.values())

    out = []
    def walk(block, dominated, in_loop_binding):
        dom = set(dominated)
        for i, s in enumerate(block):
            tests = {}
            for name in cands - dom:
                if block_binds(block[:i], name):
                    dom.add(name)
            subs = [(f, getattr(s, f)) for f in ('body', 'orelse', 'finalbody') if isinstance(getattr(s, f, None), list)]
            if isinstance(s, ast.Try):
                subs += [('handler', h.body) for h in s.handlers]
            sub_ids = {id(x) for _, b in subs for st in b for x in ast.walk(st)}
            for x in ast.walk(s):
                if id(x) in sub_ids or id(x) in nested:
                    continue
                if isinstance(x, ast.Name) and isinstance(x.ctx, ast.Load) and x.id in cands and x.id not in dom \
                        and not (x.id in in_loop_binding and (x.lineno, x.col_offset) < in_loop_binding[x.id]):
                    out.append((x.id, x.lineno))
            if isinstance(s, (ast.FunctionDef, ast.ClassDef)):
                continue
            loop_names = dict(in_loop_binding)
            if isinstance(s, (ast.For, ast.While)):
                # a read in front of a binding further down the same loop body is loop-carried: not judged
                for x in ast.walk(s):
                    if isinstance(x, ast.Name) and isinstance(x.ctx, ast.Store):
                        loop_names[x.id] = max(loop_names.get(x.id, (0, 0)), (x.lineno, x.col_offset))
            for f, b in subs:
                if isinstance(s, (ast.For, ast.While)) and f == 'orelse':
                    walk(b, dom | {n_ for n_ in cands if block_binds(s.body, n_)}, in_loop_binding)
                elif isinstance(s, ast.Try) and f != 'body':
                    walk(b, dom | {n_ for n_ in cands if block_binds(s.body, n_)}, loop_names)      # lenient: the try body ran
                else:
                    walk(b, dom, loop_names)
    walk(fn.body, set(), {})
    seen, res = set(), []
    for name, line in sorted(out, key=lambda t: t[1]):
        if name not in seen:
            seen.add(name)
            res.append((name, line))
    return res


RECEIVER_CLASS = {'model': 'Model'}
_ctor_maps = {}


def constructed_attrs(repo):
    """class -> {attribute: class}  for  self.<attribute> = <Class>(...)  in a method of the class (one class per attribute)"""
    key = repo.root
    if key not in _ctor_maps:
        out = {}
        for rel, tree in repo.trees.items():
            for c in [n for n in ast.walk(tree) if isinstance(n, ast.ClassDef)]:
                m = {}
                for n in ast.walk(c):
                    if isinstance(n, ast.Assign) and len(n.targets) == 1 and isinstance(n.targets[0], ast.Attribute) and isinstance(n.targets[0].value, ast.Name) \
                            and n.targets[0].value.id == 'self' and isinstance(n.value, ast.Call) and isinstance(n.value.func, ast.Name) and n.value.func.id in repo.classes:
                        m.setdefault(n.targets[0].attr, set()).add(n.value.func.id)
                out[c.name] = {a: next(iter(v)) for a, v in m.items() if len(v) == 1}
        _ctor_maps[key] = out
    return _ctor_maps[key]


_current_repo = [None]


def receiver_class(expr, own_cls):
    """class of the object an attribute is taken from, when the receiver expression tells: self -> the own class,
    <anything>.model / model -> Model, <anything>.options_parser -> Options_parser, a name containing 'pair' -> Pair"""
    if isinstance(expr, ast.Name):
        if expr.id == 'self':
            return own_cls
        if expr.id in RECEIVER_CLASS:
            return RECEIVER_CLASS[expr.id]
        toks = expr.id.lower().split('_')
        if toks[-1] == 'pair' or (len(toks) >= 2 and toks[-2] == 'pair' and len(toks[-1]) <= 1):
            return 'Pair'               # pair, st_pr_pair, lec_pair, assigned_pair_i  (never a plural or a container name)
        return None
    if isinstance(expr, ast.Attribute) and expr.attr in RECEIVER_CLASS:
        return RECEIVER_CLASS[expr.attr]
    if isinstance(expr, ast.Attribute) and isinstance(expr.value, ast.Name) and expr.value.id == 'self' and own_cls and _current_repo[0] is not None:
        return constructed_attrs(_current_repo[0]).get(own_cls, {}).get(expr.attr)       # self.parser = Parser() in this class
    return None


def attribute_definitions(repo):
    """class name -> attribute names that can exist on its instances: assigned (plain assignment, not +=) on a receiver of
    that class anywhere in the package (self.x = in its methods, model.x = elsewhere, see receiver_class), class-level
    names and methods.  Second value: names assigned on receivers whose class is unknown (they count for every class)."""
    unknown = set()
    per_class = {}
    _current_repo[0] = repo
    for rel, tree in repo.trees.items():
        for cls_node in [n for n in ast.walk(tree) if isinstance(n, ast.ClassDef)]:
            s = per_class.setdefault(cls_node.name, set())
            for st in cls_node.body:
                if isinstance(st, (ast.FunctionDef, ast.ClassDef)):
                    s.add(st.name)
                elif isinstance(st, ast.Assign):
                    for t in st.targets:
                        for x in ast.walk(t):
                            if isinstance(x, ast.Name):
                                s.add(x.id)
                elif isinstance(st, ast.AnnAssign) and isinstance(st.target, ast.Name):
                    s.add(st.target.id)
        # every store, with the class of the function it sits in
        def visit(node, own):
            for ch in ast.iter_child_nodes(node):
                o = ch.name if isinstance(ch, ast.ClassDef) else own
                if isinstance(ch, (ast.Assign, ast.AnnAssign, ast.For, ast.With)):
                    tgts = ch.targets if isinstance(ch, ast.Assign) else ([ch.target] if isinstance(ch, (ast.AnnAssign, ast.For)) else [i_.optional_vars for i_ in ch.items if i_.optional_vars is not None])
                    for t in tgts:
                        for x in ast.walk(t):
                            if isinstance(x, ast.Attribute) and isinstance(x.ctx, ast.Store):
                                k = receiver_class(x.value, o)
                                if k is None:
                                    unknown.add(x.attr)
                                else:
                                    per_class.setdefault(k, set()).add(x.attr)
                if isinstance(ch, ast.Call) and isinstance(ch.func, ast.Name) and ch.func.id == 'setattr' and len(ch.args) == 3:
                    k = receiver_class(ch.args[0], o)
                    name = ch.args[1].value if isinstance(ch.args[1], ast.Constant) else '*'
                    if k is None:
                        unknown.add(name)
                    else:
                        per_class.setdefault(k, set()).add(name)
                visit(ch, o)
        visit(tree, None)
    # inheritance inside the package: an instance of a subclass has what its bases define, and a method of a base class may read
    # what a subclass defines (template methods of an abstract base): the sets of a class and of its package bases are merged
    bases = {}
    for rel, tree in repo.trees.items():
        for c in [n for n in ast.walk(tree) if isinstance(n, ast.ClassDef)]:
            bases[c.name] = [ast.unparse(b).split('.')[-1] for b in c.bases]
    changed = True
    while changed:
        changed = False
        for c, bs in bases.items():
            for b in bs:
                if b in per_class:
                    merged = per_class.setdefault(c, set()) | per_class[b]
                    if merged != per_class[c] or merged != per_class[b]:
                        per_class[c] = set(merged)
                        per_class[b] = set(merged)
                        changed = True
                elif b not in ('object', 'Enum', 'IntEnum', 'ABC', 'NamedTuple', 'Protocol', 'Exception'):
                    unknown.add('*') if False else None
    return per_class, unknown


def never_defined_attributes(repo, func, defs=None):
    """R.X read where the class of R is known (receiver_class) and X is defined nowhere for that class, the read not being
    guarded by hasattr / getattr / try.  -> [(class, attribute, line)]"""
    per_class, unknown = defs or attribute_definitions(repo)
    _current_repo[0] = repo
    if '*' in unknown:
        return []
    guarded = {n.args[1].value for n in ast.walk(func.node) if isinstance(n, ast.Call) and isinstance(n.func, ast.Name) and n.func.id in ('hasattr', 'getattr') and len(n.args) >= 2
               and isinstance(n.args[1], ast.Constant)}
    in_try = set()
    for n in ast.walk(func.node):
        if isinstance(n, ast.Try):
            for x in ast.walk(n):
                in_try.add(id(x))
    out, seen = [], set()
    for n in ast.walk(func.node):
        if isinstance(n, ast.Attribute) and isinstance(n.ctx, ast.Load) and id(n) not in in_try:
            k = receiver_class(n.value, func.cls)
            if k is None or k not in per_class or '*' in per_class[k]:
                continue
            if n.attr not in per_class[k] and n.attr not in unknown and n.attr not in guarded and (k, n.attr) not in seen and not n.attr.startswith('__'):
                out.append((k, n.attr, n.lineno))
                seen.add((k, n.attr))
    return out


_lib_names = {}


def library_star_names(module):
    """public top-level names a `from <library> import *` brings in, read from the library's source (its own star imports of
    sub-modules followed)."""
    import importlib.util, os
    if module in _lib_names:
        return _lib_names[module]
    names = set()
    _lib_names[module] = names
    try:
        spec_ = importlib.util.find_spec(module)
    except (ImportError, ValueError):
        spec_ = None
    if spec_ is None or not spec_.origin or not spec_.origin.endswith('.py'):
        names.add('*')
        return names
    try:
        tree = ast.parse(open(spec_.origin).read())
    except (OSError, SyntaxError):
        names.add('*')
        return names
    pkg = module if spec_.origin.endswith('__init__.py') else module.rsplit('.', 1)[0]
    for st in tree.body:
        if isinstance(st, (ast.FunctionDef, ast.ClassDef)):
            names.add(st.name)
        elif isinstance(st, ast.Assign):
            for t in st.targets:
                for x in ast.walk(t):
                    if isinstance(x, ast.Name):
                        names.add(x.id)
        elif isinstance(st, ast.Import):
            for a in st.names:
                names.add((a.asname or a.name).split('.')[0])
        elif isinstance(st, ast.ImportFrom):
            mod = ('.' * st.level) + (st.module or '')
            if st.level:
                base = pkg.split('.')
                base = base[:len(base) - (st.level - 1)] if st.level > 1 else base
                mod = '.'.join(base + ([st.module] if st.module else []))
            if st.level and st.module:
                names.add(st.module.split('.')[0])          # importing a sub-module binds it in the package
            for a in st.names:
                if a.name == '*':
                    names |= library_star_names(mod)
                else:
                    names.add(a.asname or a.name)
        elif isinstance(st, (ast.If, ast.Try)):
            for x in ast.walk(st):
                if isinstance(x, (ast.FunctionDef, ast.ClassDef)):
                    names.add(x.name)
                elif isinstance(x, ast.Name) and isinstance(x.ctx, ast.Store):
                    names.add(x.id)
    return names


def module_names(repo, relpath):
    """names bound at the top level of a repository module, star imports resolved (repository modules by their own top
    level, libraries by library_star_names)"""
    import builtins
    tree = repo.trees[relpath]
    names = set(dir(builtins))
    for st in ast.walk(tree):
        pass
    for st in tree.body:
        if isinstance(st, (ast.FunctionDef, ast.ClassDef)):
            names.add(st.name)
        elif isinstance(st, (ast.Assign, ast.AnnAssign, ast.AugAssign)):
            for x in ast.walk(st):
                if isinstance(x, ast.Name) and isinstance(x.ctx, ast.Store):
                    names.add(x.id)
        elif isinstance(st, ast.Import):
            for a in st.names:
                names.add((a.asname or a.name).split('.')[0])
        elif isinstance(st, ast.ImportFrom):
            for a in st.names:
                if a.name != '*':
                    names.add(a.asname or a.name)
                    continue
                # star import: a sibling module of the repository, or a library
                cand = None
                if st.level:
                    import os
                    cand = os.path.normpath(os.path.join(os.path.dirname(relpath), *(['..'] * (st.level - 1)), (st.module or '').replace('.', '/') + '.py'))
                elif st.module and st.module.startswith('matchingproblems'):
                    cand = st.module.replace('.', '/') + '.py'
                if cand in repo.trees:
                    names |= module_names(repo, cand)
                else:
                    names |= library_star_names(st.module or '')
        elif isinstance(st, (ast.If, ast.Try, ast.With, ast.For, ast.While)):
            for x in ast.walk(st):
                if isinstance(x, ast.Name) and isinstance(x.ctx, ast.Store):
                    names.add(x.id)
                elif isinstance(x, (ast.FunctionDef, ast.ClassDef)):
                    names.add(x.name)
    return names


def undefined_names(repo, func):
    """a name that is read in the function and is bound neither in it (as a local, parameter, import, loop / with / except
    target, comprehension variable, nested def) nor at the top level of its module nor by an import nor as a builtin:
    NameError when the statement runs.  -> [(name, line)]"""
    fn = func.node
    local = set()
    for n in ast.walk(fn):
        if isinstance(n, ast.Name) and isinstance(n.ctx, (ast.Store, ast.Del)):
            local.add(n.id)
        elif isinstance(n, ast.arg):
            local.add(n.arg)
        elif isinstance(n, (ast.FunctionDef, ast.ClassDef)):
            local.add(n.name)
        elif isinstance(n, (ast.Import, ast.ImportFrom)):
            for a in n.names:
                local.add((a.asname or a.name).split('.')[0])
        elif isinstance(n, ast.ExceptHandler) and n.name:
            local.add(n.name)
    glob = module_names(repo, func.relpath)
    if '*' in glob:
        return []
    out, seen = [], set()
    for n in ast.walk(fn):
        if isinstance(n, ast.Name) and isinstance(n.ctx, ast.Load) and n.id not in local and n.id not in glob and n.id not in seen:
            out.append((n.id, n.lineno))
            seen.add(n.id)
    return out


def stuck_loops(func):
    """while <test on names>: body  where the body assigns none of the names the test reads (and calls no method on them,
    and has no break / return): once entered, the loop never ends.  -> [(line, test)]"""
    out = []
    for w in ast.walk(func.node):
        if not isinstance(w, ast.While) or isinstance(w.test, ast.Constant):
            continue
        names = {x.id for x in ast.walk(w.test) if isinstance(x, ast.Name)}
        if any(isinstance(x, (ast.Call, ast.Attribute)) and not (isinstance(x, ast.Call) and isinstance(x.func, ast.Name) and x.func.id == 'len') for x in ast.walk(w.test)):
            continue
        changed = False
        for st in w.body:
            for x in ast.walk(st):
                if isinstance(x, (ast.Break, ast.Return, ast.Raise)):
                    changed = True
                if isinstance(x, ast.Name) and x.id in names and isinstance(x.ctx, (ast.Store, ast.Del)):
                    changed = True
                if isinstance(x, ast.Call) and isinstance(x.func, ast.Attribute) and isinstance(x.func.value, ast.Name) and x.func.value.id in names:
                    changed = True          # xs.append(...), xs.pop() ...
        if not changed and names:
            out.append((w.lineno, ast.unparse(w.test)))
    return out


def vacuous_hasattr_probes(repo, func):
    """hasattr(x, 'a') used as "x has an a" where every class of the package that defines .a sets it to None in __init__ (the
    original source, before the loader's normalisations): the probe is always true, so the guarded code reads None where the
    author expected a value (TypeError in arithmetic, 'None' in text).  -> [(attribute, line)]"""
    cache = getattr(repo, '_none_inited', None)
    if cache is None:
        cache = {}
        for rel, src in repo.sources.items():
            try:
                tree = ast.parse(src)
            except SyntaxError:
                continue
            for cls in [n for n in ast.walk(tree) if isinstance(n, ast.ClassDef)]:
                for m in cls.body:
                    if isinstance(m, ast.FunctionDef) and m.name == '__init__' and m.args.args:
                        s0 = m.args.args[0].arg
                        for st in m.body:
                            if isinstance(st, ast.Assign) and len(st.targets) == 1 and isinstance(st.targets[0], ast.Attribute) and isinstance(st.targets[0].value, ast.Name) \
                                    and st.targets[0].value.id == s0 and isinstance(st.value, ast.Constant) and st.value.value is None:
                                cache.setdefault(st.targets[0].attr, []).append(cls.name)
        repo._none_inited = cache
    out = []
    # the ORIGINAL text of the function (normalisations may have rewritten None tests into hasattr probes)
    try:
        tree = ast.parse(repo.sources[func.relpath])
    except (SyntaxError, KeyError):
        return out
    orig = None
    for n in ast.walk(tree):
        if isinstance(n, ast.FunctionDef) and n.name == func.name and n.lineno == getattr(func.node, 'lineno', -1):
            orig = n
    if orig is None:
        return out
    for n in ast.walk(orig):
        if isinstance(n, ast.Call) and isinstance(n.func, ast.Name) and n.func.id == 'hasattr' and len(n.args) == 2 and isinstance(n.args[1], ast.Constant) \
                and n.args[1].value in cache:
            out.append((n.args[1].value, n.lineno))
    return out


def regex_digit_gaps(repo, relprefix):
    """Regular expressions (literal patterns in modules under relprefix) that can match some decimal digits but never the
    digit 0 - or, generally, only a proper subset of 0-9 anywhere in the pattern: a number token containing a missing digit is
    truncated or split when such a pattern is used to tokenise.  -> [(relpath, line, pattern, missing digits)]"""
    import re
    try:
        from re import _parser as sre_parse, _constants as sre_c
    except ImportError:          # older Pythons
        import sre_parse, sre_constants as sre_c
    out = []
    for rel, tree in repo.trees.items():
        if not rel.startswith(relprefix):
            continue
        for n in ast.walk(tree):
            if not (isinstance(n, ast.Call) and isinstance(n.func, ast.Attribute) and isinstance(n.func.value, ast.Name) and n.func.value.id == 're' and n.args
                    and n.func.attr in ('compile', 'findall', 'finditer', 'split', 'match', 'fullmatch', 'search', 'sub')):
                continue
            p = n.args[0]
            if not (isinstance(p, ast.Constant) and isinstance(p.value, str)):
                continue
            try:
                parsed = sre_parse.parse(p.value)
            except Exception:
                continue
            digits = set()

            def walk(items):
                for op, av in items:
                    name = str(op)
                    if name == 'LITERAL' and 48 <= av <= 57:
                        digits.add(av - 48)
                    elif name == 'IN':
                        neg = any(str(o) == 'NEGATE' for o, _ in av)
                        got = set()
                        for o, a in av:
                            so = str(o)
                            if so == 'LITERAL' and 48 <= a <= 57:
                                got.add(a - 48)
                            elif so == 'RANGE':
                                got |= {d for d in range(10) if a[0] <= 48 + d <= a[1]}
                            elif so == 'CATEGORY' and str(a) in ('CATEGORY_DIGIT', 'CATEGORY_WORD'):
                                got |= set(range(10))
                            elif so == 'CATEGORY' and str(a) in ('CATEGORY_NOT_SPACE',):
                                got |= set(range(10))
                        digits.update(set(range(10)) - got if neg else got)
                    elif name == 'CATEGORY' and str(av) in ('CATEGORY_DIGIT', 'CATEGORY_WORD', 'CATEGORY_NOT_SPACE'):
                        digits.update(range(10))
                    elif name == 'ANY':
                        digits.update(range(10))
                    elif name in ('MAX_REPEAT', 'MIN_REPEAT', 'POSSESSIVE_REPEAT'):
                        walk(av[2])
                    elif name == 'SUBPATTERN':
                        walk(av[-1])
                    elif name == 'BRANCH':
                        for alt in av[1]:
                            walk(alt)
                    elif name in ('ASSERT', 'ASSERT_NOT', 'ATOMIC_GROUP'):
                        walk(av[1] if isinstance(av, tuple) else av)
            try:
                walk(parsed)
            except Exception:
                continue
            if digits and digits != set(range(10)):
                out.append((rel, n.lineno, p.value, sorted(set(range(10)) - digits)))
    return out


def regex_greedy_groups(repo, relprefix):
    """Regular expressions (literal patterns in modules under relprefix) in which a GREEDY repetition of "any character"
    stands between a literal '(' and a literal ')': on a line with two bracketed groups the match runs from the first '('
    to the last ')', so the groups (and everything between them) are read as one.  The non-greedy form `.*?` and the
    bounded form `[^)]*` are fine.  -> [(relpath, line, pattern)]"""
    try:
        from re import _parser as sre_parse
    except ImportError:
        import sre_parse
    out = []
    for rel, tree in repo.trees.items():
        if not rel.startswith(relprefix):
            continue
        for n in ast.walk(tree):
            if not (isinstance(n, ast.Call) and isinstance(n.func, ast.Attribute) and isinstance(n.func.value, ast.Name) and n.func.value.id == 're' and n.args
                    and n.func.attr in ('compile', 'findall', 'finditer', 'split', 'search', 'sub')):
                continue
            p = n.args[0]
            if not (isinstance(p, ast.Constant) and isinstance(p.value, str)):
                continue
            try:
                parsed = sre_parse.parse(p.value)
            except Exception:
                continue
            bad = [False]

            def seq(items):
                items = list(items)
                for k_, (op, av) in enumerate(items):
                    name = str(op)
                    if name == 'MAX_REPEAT' and av[1] > 1 and len(av[2]) == 1 and str(av[2][0][0]) == 'ANY':
                        before = any(str(o) == 'LITERAL' and a == 40 for o, a in items[:k_])
                        after = any(str(o) == 'LITERAL' and a == 41 for o, a in items[k_ + 1:])
                        if before and after:
                            bad[0] = True
                    if name in ('MAX_REPEAT', 'MIN_REPEAT', 'POSSESSIVE_REPEAT'):
                        seq(av[2])
                    elif name == 'SUBPATTERN':
                        seq(av[-1])
                    elif name == 'BRANCH':
                        for alt in av[1]:
                            seq(alt)
            try:
                seq(parsed)
            except Exception:
                continue
            if bad[0]:
                out.append((rel, n.lineno, p.value))
    return out
