"""LP-path driver + E3 canonicaliser.

`extract(repo, cfg)` abstractly interprets Solver.solve (LP mode) under a configuration and returns
the effect tree.  `Canon` turns constraint / objective / bound terms into a *semantic* linear normal
form over canonical atoms:

  quantifiers   i:S  j:P  k:L  r:R(rank)  p:pair
  pair atoms    s(q) pr(q) l(q) rs(q) rl(q)          (indices 0-based, ranks 1-based)
  arrays        lq[j] uq[j] llq[k] t[k] luq[k]
  variables     x(q) a(p) b(p) c[j] d[k] obj:<name>
  sums          sum{q | preds} coef*x(q)             sum{k} coef*d[k]

Row membership is turned into a predicate (q in pairs[i] <=> s(q)=i, q in project_lists[j] <=> pr(q)=j,
q in lecturer_lists[k] <=> l(q)=k, q in rank_lists[r-1] <=> rs(q)=r); those four facts are themselves
obligations of C01.R4 / C03.R4 / C10."""
import ast

import re
from .terms import *
from .poly import *
from .absint import Interp, Eff, iter_effects
from .loader import AnalysisError

E = lambda c, m: A(S(c), m)
SELF = S('self')
MODEL = A(SELF, 'model')

CRITERIA = ['MAXSIZE', 'MINSIZE', 'GENEROUS', 'GREEDY', 'MINCOST', 'MINSQCOST', 'LOADMAXBAL', 'LOADSUMBAL', 'MINCOSTLSB']


def config_heap(it, pc, stab, criteria, twopl=S('TWOPL'), na=S('NA'), bf=False):
    """criteria: list of (member name, extras) with extras None | int arity | tuple of terms; or None for symbolic."""
    op = A(SELF, 'options_parser')
    cv = lambda v: v if isinstance(v, tuple) else C(v)
    it.heap[A(op, 'solver_options')] = ('dict', ((E('Solver_options', 'BRUTEFORCE'), C(bf)),))
    it.heap[A(op, 'instance_options')] = ('dict', ((E('Instance_options', 'PC'), cv(pc)),
                                                    (E('Instance_options', 'TWOPL'), cv(twopl)),
                                                    (E('Instance_options', 'NUMAGENTS'), cv(na))))
    it.heap[A(op, 'extra_constraints')] = ('dict', ((E('Extra_constraints', 'STAB'), cv(stab)),))
    if criteria is not None:
        crit = []
        for pos, (name, ex) in enumerate(criteria):
            if ex is None:
                ext = NONE
            elif isinstance(ex, int):
                ext = ('tuple', tuple(S('arg%d' % i) for i in range(ex)))
            else:
                ext = ('tuple', tuple(ex))
            crit.append(('tuple', (E('Optimisation_options', name), ext)))
        it.heap[A(op, 'optimisation_options')] = ('tuple', tuple(crit))
        # the parser may hand the (criterion, arguments) pairs over as records of a two-field namedtuple (C16.R6 decides that the
        # fields are filled in that order): the configuration's pairs then answer to the field names too
        fields = record_fields(it)
        if fields:
            if not hasattr(it, 'ntuple_fields'):
                it.ntuple_fields = {}
            for c_ in crit:
                it.ntuple_fields[c_] = fields


def record_fields(it):
    import ast as _ast
    h = it.repo.classes.get('Options_parser', {}).get('_get_ordered_optimisations') or it.repo.method('Options_parser', '_get_ordered_optimisations', required=False)
    if h is None:
        return None
    nts = it.namedtuples()
    used = {n.func.id for n in _ast.walk(h.node) if isinstance(n, _ast.Call) and isinstance(n.func, _ast.Name) and n.func.id in nts and len(n.args) == 2 and not n.keywords}
    if len(used) == 1 and len(nts[next(iter(used))]) == 2:
        return nts[next(iter(used))]
    return None


def extract(repo, pc=S('PC'), stab=S('STAB'), criteria=None, entry=('Solver', 'solve'), **kw):
    it = Interp(repo)
    config_heap(it, pc, stab, criteria, **kw)
    f = repo.method(*entry)
    try:
        effs, rv = it.run(f, {})
    except Unknown as u:
        raise AnalysisError('construct outside the interpreted fragment on the LP path: %s' % u)
    return it, effs


# ---- canonical forms -------------------------------------------------------------------
ARR = {'proj_lower_quotas': ('lq', 'P'), 'proj_upper_quotas': ('uq', 'P'), 'lec_lower_quotas': ('llq', 'L'),
       'lec_targets': ('t', 'L'), 'lec_upper_quotas': ('luq', 'L'), 'proj_lecturers': ('lect', 'P')}
ROWS = {'pairs': 'S', 'project_lists': 'P', 'lecturer_lists': 'L', 'rank_lists': 'R'}
COUNT = {'num_students': 'S', 'num_projects': 'P', 'num_lecturers': 'L'}
SORTSIZE = {'S': 'n', 'P': 'P', 'L': 'L', 'R': 'R'}
COUNT_OF_SORT = {'S': 'num_students', 'P': 'num_projects', 'L': 'num_lecturers'}
SORTVAR = {'S': 'i', 'P': 'j', 'L': 'k', 'R': 'r'}
PAIRATTR = {'student_index': ('s', 0), 'studentID': ('s', 1), 'project_index': ('pr', 0), 'projectID': ('pr', 1),
            'lecturer_index': ('l', 0), 'lecturerID': ('l', 1), 'rank_student': ('rs', 0), 'rank_lecturer': ('rl', 0)}
ROWPRED = {'S': 's', 'P': 'pr', 'L': 'l'}


def is_model(t):
    return t == MODEL or (t[0] == 'sym' and t[1] in ('M', 'model'))


def model_attr(t):
    if t[0] == 'attr' and is_model(t[1]):
        return t[2]
    return None


def pred_text(op, d):
    """Canonical text of  d <op> 0  (sign-normalised so that the first monomial has a positive coefficient)."""
    op = {'Eq': '==', 'NotEq': '!=', 'Lt': '<', 'LtE': '<=', 'Gt': '>', 'GtE': '>='}.get(op, op)
    if not d:
        return {'==': 'true', '!=': 'false', '<': 'false', '<=': 'true', '>': 'false', '>=': 'true'}[op]
    lead = sorted(d.items())[0][1]
    if lead < 0:
        d = pneg(d)
        op = {'<': '>', '<=': '>=', '>': '<', '>=': '<=', '==': '==', '!=': '!='}[op]
    return '%s %s 0' % (pshow(d), op)


class Mono:
    """coef * var  (var None = constant) optionally summed: sumvar in {None,'q','k',...}, preds tuple of strings."""
    __slots__ = ('coef', 'var', 'sumvar', 'preds')

    def __init__(self, coef, var=None, sumvar=None, preds=()):
        self.coef, self.var, self.sumvar, self.preds = coef, var, sumvar, tuple(sorted(set(preds)))

    def key(self):
        return (self.var or '', self.sumvar or '', self.preds)

    def show(self):
        c = pshow(self.coef)
        body = c if self.var is None else (self.var if c == '1' else ('-' + self.var if c == '-1' else '(%s)*%s' % (c, self.var)))
        if self.sumvar:
            return 'sum{%s%s} %s' % (self.sumvar, (' | ' + ', '.join(self.preds)) if self.preds else '', body)
        return body


class Family:
    def __init__(self, quants, guards, op, monos):
        self.quants, self.guards, self.op = tuple(quants), tuple(sorted(guards)), op
        # merge monomials with the same key
        d = {}
        for m in monos:
            k = m.key()
            if k in d:
                d[k] = Mono(padd(d[k].coef, m.coef), m.var, m.sumvar, m.preds)
            else:
                d[k] = m
        self.monos = self.merge_head([m for m in d.values() if m.coef])
        self.normalise()

    @staticmethod
    def merge_head(monos):
        """{q in row : pos(q) < 1}  u  {q in row : pos(q) >= 1, rs(q) <= rs(p)}  =  {q in row : rs(q) <= rs(p)}:
        the head of a student's row has rank 1 and every rank is >= 1 (dense ranks from 1: C10.R1 / C13)"""
        head = pred_text('Lt', psub(patom('pos(q)'), pconst(1)))
        tail = pred_text('GtE', psub(patom('pos(q)'), pconst(1)))
        out = list(monos)
        for m1 in monos:
            if m1.sumvar != 'q' or head not in m1.preds:
                continue
            base = tuple(x for x in m1.preds if x != head)
            for m2 in monos:
                if m2 is m1 or m2.sumvar != 'q' or m2.var != m1.var or m2.coef != m1.coef or tail not in m2.preds:
                    continue
                extra = [x for x in m2.preds if x != tail and x not in base]
                if set(base) <= set(m2.preds) and len(extra) == 1 and re.fullmatch(r'rs\((\w+)\) - rs\(q\) >= 0|-rs\((\w+)\) \+ rs\(q\) <= 0', extra[0]):
                    if m1 in out and m2 in out:
                        out.remove(m1)
                        out.remove(m2)
                        out.append(Mono(m1.coef, m1.var, 'q', base + (extra[0],)))
        return out

    def normalise(self):
        # orientation: '<=' or '=='; for '==' make the lexicographically first monomial's leading coefficient positive
        if self.op == '>=':
            self.monos = [Mono(pneg(m.coef), m.var, m.sumvar, m.preds) for m in self.monos]
            self.op = '<='
        self.monos.sort(key=lambda m: m.key())
        if self.op == '==' and self.monos:
            lead = sorted(self.monos[-1].coef.items())[0][1]
            if lead < 0:
                self.monos = [Mono(pneg(m.coef), m.var, m.sumvar, m.preds) for m in self.monos]

    def text(self, with_quants=True):
        body = ' + '.join(m.show() for m in self.monos) or '0'
        s = '%s %s 0' % (body, self.op)
        if with_quants and self.quants:
            s = 'forall %s. %s' % (', '.join(self.quants), s)
        if self.guards:
            s = '[%s] %s' % (' & '.join(self.guards), s)
        return s

    def key(self):
        return self.text()

    def core(self):
        """Text without the enclosing branch guards."""
        g, self.guards = self.guards, ()
        try:
            return self.text()
        finally:
            self.guards = g


class Canon:
    """Canonicaliser bound to one effect tree (knows which attributes / arrays hold LP variables)."""

    def __init__(self, it, effs):
        self.it = it
        self.var_attrs = {}     # pair attribute -> canonical var letter, e.g. lp_var -> x
        self.var_arrays = {}    # model array attribute -> (letter, sort)
        self.declared = {}      # canonical var -> declvar effect
        self.names = {}         # binder id -> canonical name
        self.sorts = {}         # binder id -> sort info
        self.varbinders = {}
        self.discover(effs)

    # -- discovery of variable carriers from the set-up effects ------------------------
    def discover(self, effs):
        letters = {}
        for e, ctx in iter_effects(effs):
            if e.kind == 'store' and e.value[0] == 'lpvar' and e.target[0] == 'attr' and e.target[1][0] == 'bvar':
                self.var_attrs[e.target[2]] = e.value
            if e.kind == 'append' and e.value[0] == 'lpvar':
                a = model_attr(e.target)
                if a:
                    fors = [c for c, _ in ctx if c.kind == 'for']
                    self.var_arrays[a] = (e.value, fors[-1].binder if fors else None)
            if e.kind == 'store' and model_attr(e.target) and e.value[0] == 'comp' and len(e.value[1]) == 1 and e.value[2][0] == 'lpvar' \
                    and e.value[1][0][1] == TRUE:
                self.var_arrays[model_attr(e.target)] = (e.value[2], e.value[1][0][0])
        # canonical letters by *role*, decided from how the variable is named/declared (first literal chunk of its
        # name template is irrelevant); roles are assigned by the attribute that carries it:
        self.attr_letter = {}
        for a in self.var_attrs:
            self.attr_letter[a] = {'lp_var': 'x', 'alpha_var': 'a', 'beta_var': 'b'}.get(a, 'v_' + a)
        self.arr_letter = {}
        for a, (v, b) in self.var_arrays.items():
            sort = self.range_sort(b[3]) if b is not None else None
            self.arr_letter[a] = ({'project_closures': 'c', 'abs_lec_diff': 'd', 'lec_overload': 'ov', 'lec_underload': 'un'}.get(a, 'v_' + a), sort)

    def off_by_some(self, attr):
        """the variable array `attr` is declared in a loop over range(count +- c), c != 0: a recognisably wrong number"""
        b = self.var_arrays.get(attr, (None, None))[1]
        if b is None:
            return None
        dom = b[3]
        if dom[0] == 'call' and dom[1] == S('range') and len(dom[2]) == 1:
            x = dom[2][0]
            if x[0] == 'bin' and x[1] in ('Add', 'Sub') and is_num(x[3]) and x[3][1] != 0 and self.size_sort(x[2]) in ('S', 'P', 'L'):
                return show(dom)
        return None

    # -- domains -------------------------------------------------------------------------
    def range_sort(self, dom):
        """range(X) / range(len(Y)) -> sort letter or None."""
        if dom[0] == 'call' and dom[1] == S('range') and len(dom[2]) == 1:
            return self.size_sort(dom[2][0])
        return None

    def size_sort(self, x):
        a = model_attr(x)
        if a in COUNT:
            return COUNT[a]
        if x[0] == 'call' and x[1] == S('len') and len(x[2]) == 1:
            a = model_attr(x[2][0])
            if a in ROWS:
                return ROWS[a]
            if a in ARR:
                return ARR[a][1]
            if a in self.var_arrays:
                return self.arr_letter[a][1]
        return None

    def classify(self, b):
        """binder -> ('rows', sort) | ('index', sort) | ('elem', rowbinder) | ('pairs', pred list) | ('allpairs',) |
        ('while', wid) | ('other', dom)"""
        dom = b[3]
        a = model_attr(dom)
        if a in ROWS:
            return ('rows', ROWS[a])
        s = self.range_sort(dom)
        if s:
            return ('index', s)
        if dom[0] == 'bvar':
            k = self.classify(dom)
            if k[0] == 'rows':
                return ('elem', dom)
        if dom[0] == 'idx':
            a = model_attr(dom[1])
            if a in ROWS:
                return ('rowat', ROWS[a], dom[2])
        if dom[0] == 'slice' and dom[1][0] == 'bvar' and self.classify(dom[1])[0] == 'rows':
            return ('rowslice', dom[1], dom[2], dom[3])
        if dom[0] == 'call' and dom[1] == S('list') and len(dom[2]) == 1:
            inner = dom[2][0]
            if inner[0] == 'call' and show(inner[1]).endswith('chain.from_iterable') and model_attr(inner[2][0]) == 'pairs':
                return ('allpairs',)
        if dom[0] == 'call' and show(dom[1]).endswith('chain.from_iterable') and model_attr(dom[2][0]) == 'pairs':
            return ('allpairs',)
        if dom[0] == 'while':
            return ('while', dom[1])
        if model_attr(dom) in self.var_arrays:
            return ('varelems', model_attr(dom))
        if dom[0] == 'slice' and model_attr(dom[1]) in self.var_arrays and dom[2] in (NONE, C(0)):
            # arr[:N] with N the size the array was declared with, or arr[:]
            arr = model_attr(dom[1])
            size = COUNT_OF_SORT.get(self.arr_letter.get(arr, (None, None))[1])
            if dom[3] == NONE or (size is not None and model_attr(dom[3]) == size):
                return ('varelems', arr)
        if dom[0] == 'call' and dom[1] == S('range'):
            return ('range', dom[2])
        if dom[0] == 'call' and dom[1] == S('reversed') and len(dom[2]) == 1 and dom[2][0][0] == 'call' and dom[2][0][1] == S('range'):
            return ('range', dom[2][0][2])
        return ('other', dom)

    # -- naming of quantifier binders for one family -----------------------------------------
    def begin(self):
        self.names = {}
        self.rank_range = None
        self.varbinders = {}

    def name_quant(self, b, env_quants):
        k = self.classify(b)
        if k[0] in ('rows', 'index'):
            nm = SORTVAR[k[1]]
            self.names[b[1]] = nm
            return '%s:%s' % (nm, k[1]), k
        if k[0] == 'elem':
            self.names[b[1]] = 'p'
            return 'p:pair', k
        if k[0] == 'allpairs':
            self.names[b[1]] = 'p'
            return 'p:pair', k
        if k[0] == 'range':
            self.names[b[1]] = 'r'
            self.rank_range = k[1]
            return 'r:range(%s)' % ', '.join(self.pstr(x) for x in k[1]), k
        if k[0] == 'varelems':
            letter, sort = self.arr_letter[k[1]]
            nm = SORTVAR.get(sort, 'k')
            self.names[b[1]] = nm
            self.varbinders[b[1]] = '%s[%s]' % (letter, nm)
            return '%s:%s' % (nm, sort), ('index', sort)
        raise Unknown('quantifier domain ' + show(b[3]))

    # -- scalar terms -> polynomials --------------------------------------------------------
    def pstr(self, t):
        return pshow(self.poly(t))

    def poly(self, t):
        k = t[0]
        if k == 'const':
            if isinstance(t[1], bool) or not isinstance(t[1], (int, float)):
                raise Unknown('non-numeric constant ' + repr(t[1]))
            return pconst(t[1])
        if k == 'bin':
            op = t[1]
            if op == 'Add': return padd(self.poly(t[2]), self.poly(t[3]))
            if op == 'Sub': return psub(self.poly(t[2]), self.poly(t[3]))
            if op == 'Mult': return pmul(self.poly(t[2]), self.poly(t[3]))
            if op == 'Pow' and t[3][0] == 'const' and isinstance(t[3][1], int) and 0 <= t[3][1] <= 6:
                return ppow(self.poly(t[2]), t[3][1])
            return patom('(%s %s %s)' % (self.pstr(t[2]), OPS.get(op, op), self.pstr(t[3])))
        if k == 'un' and t[1] == 'USub':
            return pneg(self.poly(t[2]))
        if k == 'call' and t[1] == S('pow') and len(t[2]) == 2 and t[2][1][0] == 'const' and isinstance(t[2][1][1], int):
            return ppow(self.poly(t[2][0]), t[2][1][1])
        if k == 'bvar':
            if t[1] in self.names:
                nm = self.names[t[1]]
                return patom(nm)
            raise Unknown('free binder ' + show(t))
        if k == 'indexof':
            b = t[1]
            kk = self.classify(b)
            if kk[0] == 'rows':
                if b[1] in self.names:
                    return patom(self.names[b[1]])
                raise Unknown('indexof of unnamed binder')
            if kk[0] == 'elem':
                return patom('pos(%s)' % self.pairname(b))         # position of a pair in its row
            raise Unknown('indexof ' + show(t))
        if k == 'attr':
            a = model_attr(t)
            if a in COUNT:
                return patom(SORTSIZE[COUNT[a]])
            base = t[1]
            if t[2] in PAIRATTR and base[0] in ('bvar', 'idx'):
                f, off = PAIRATTR[t[2]]
                return padd(patom('%s(%s)' % (f, self.pairname(base))), pconst(off))
            if t[2] == 'varValue':
                return patom('val(%s)' % self.varname(base))
            if t[2] == 'OPTIMAL_PULP_STATUS' :
                return patom('OPTIMAL')
            raise Unknown('attribute ' + show(t))
        if k == 'idx':
            a = model_attr(t[1])
            if a in ARR:
                return patom('%s[%s]' % (ARR[a][0], self.pstr(t[2])))
            if t[1][0] == 'sym' or (t[1][0] == 'tuple'):
                return patom(show(t))
            raise Unknown('subscript ' + show(t))
        if k == 'call':
            f = t[1]
            if f == S('len') and len(t[2]) == 1:
                s = self.size_sort(t)
                if s:
                    return patom(SORTSIZE[s])
            if f in (S('sum'), S('max'), S('min')) and len(t[2]) == 1:
                a = model_attr(t[2][0])
                if a in ARR:
                    return patom('%s(%s)' % (f[1], ARR[a][0]))
            if f in (S('max'), S('min')) and len(t[2]) == 2:
                pa, pb = self.poly(t[2][0]), self.poly(t[2][1])
                if pa == pb:
                    return pa
                if is_pconst(pa) and is_pconst(pb):
                    return pconst((max if f[1] == 'max' else min)(pconstval(pa), pconstval(pb)))
                return patom('%s(%s)' % (f[1], ', '.join(sorted([pshow(pa), pshow(pb)]))))
            if f in (S('int'), S('float')) and len(t[2]) == 1:
                return self.poly(t[2][0])
            raise Unknown('call ' + show(t)[:80])
        if k == 'sym':
            return patom(t[1])
        if k == 'ite':
            return patom('ite(%s, %s, %s)' % (self.pred(t[1]), self.pstr(t[2]), self.pstr(t[3])))
        if k == 'bool':
            # `x or default` / `x and y` on numbers: value-level boolean operator (0 is falsy)
            return patom('(' + (' %s ' % t[1]).join(self.pstr(x) for x in t[2]) + ')')
        raise Unknown('scalar term ' + show(t)[:80])

    def pairname(self, base):
        if base[0] == 'bvar':
            if base[1] in self.names:
                return self.names[base[1]]
            raise Unknown('free pair binder ' + show(base))
        raise Unknown('pair expression ' + show(base))

    # -- predicates -------------------------------------------------------------------------
    def pred(self, g):
        """boolean term -> canonical string."""
        if g[0] == 'not':
            inner = g[1]
            if inner[0] == 'cmp':
                neg = {'Eq': 'NotEq', 'NotEq': 'Eq', 'Lt': 'GtE', 'GtE': 'Lt', 'Gt': 'LtE', 'LtE': 'Gt'}.get(inner[1])
                if neg:
                    return self.pred(CMP(neg, inner[2], inner[3]))
            return 'not(%s)' % self.pred(inner)
        if g[0] == 'cmp' and g[1] in ('Is', 'IsNot', 'Eq', 'NotEq') and NONE in (g[2], g[3]):
            other = g[2] if g[3] == NONE else g[3]
            import re as _re
            if other[0] == 'sym' and _re.fullmatch(r'arg\d+', other[1]):
                return 'false' if g[1] in ('Is', 'Eq') else 'true'      # a supplied optional argument is a number
            if is_num(other):
                return 'false' if g[1] in ('Is', 'Eq') else 'true'
        if g[0] == 'cmp' and g[1] in ('Is', 'IsNot', 'Eq', 'NotEq') and self.is_pair(g[2]) and self.is_pair(g[3]):
            a, b = sorted([self.pairname(g[2]), self.pairname(g[3])])
            return ('same(%s,%s)' if g[1] in ('Is', 'Eq') else 'not same(%s,%s)') % (a, b)
        if g[0] == 'cmp' and g[1] in ('Eq', 'NotEq', 'Is', 'IsNot') and NONE in (g[2], g[3]):
            other = g[3] if g[2] == NONE else g[2]
            if self.is_var(other) or other[0] in ('sum',) or (other[0] == 'call' and other[1] in (S('lpSum'), S('LpAffineExpression'))):
                return 'false' if g[1] in ('Eq', 'Is') else 'true'          # an LP variable / expression object is never None
        if g[0] == 'cmp' and g[1] in ('Eq', 'NotEq', 'Lt', 'LtE', 'Gt', 'GtE'):
            return pred_text(g[1], psub(self.poly(g[2]), self.poly(g[3])))
        if g[0] == 'bool':
            return '(' + (' %s ' % g[1]).join(sorted(self.pred(x) for x in g[2])) + ')'
        if g[0] == 'call' and g[1] == S('hasattr') and len(g[2]) == 2 and g[2][1][0] == 'const':
            return 'has_%s(%s)' % (g[2][1][1], self.pairname(g[2][0]))
        if g[0] == 'const':
            return 'true' if g[1] else 'false'
        if g[0] == 'call' and g[1] == S('__until_break__') and len(g[2]) == 1:
            # `if key(q) > bound: break` in a loop over a student's row: the row is sorted by rank_student (dense ranks from 1,
            # C10/C13), so the prefix before the first q with key(q) > bound is exactly {q : key(q) <= bound}
            c = g[2][0]
            inner = c
            # first element of a row has rank 1:  (1 if index == 0 else q.rank_student)  ==  q.rank_student
            def first_is_one(x):
                if x[0] == 'ite' and x[1][0] == 'cmp' and x[1][1] == 'Eq' and x[1][2][0] == 'indexof' and x[1][3] == C(0) and x[2] == C(1) \
                        and x[3][0] == 'attr' and x[3][1] == x[1][2][1] and x[3][2] == 'rank_student':
                    return x[3]
                return None
            inner = subst(inner, first_is_one)
            while inner[0] == 'not' and inner[1][0] == 'not':
                inner = inner[1][1]
            cm = inner[1] if inner[0] == 'not' else inner
            neg = inner[0] == 'not'
            if cm[0] == 'cmp' and cm[1] in ('Lt', 'LtE', 'Gt', 'GtE'):
                keyside = [x for x in (cm[2], cm[3]) if x[0] == 'attr' and x[2] == 'rank_student' and x[1][0] == 'bvar' and self.names.get(x[1][1]) in ('q',)]
                if len(keyside) == 1:
                    op = cm[1] if keyside[0] == cm[2] else {'Lt': 'Gt', 'Gt': 'Lt', 'LtE': 'GtE', 'GtE': 'LtE'}[cm[1]]
                    if neg:
                        op = {'Lt': 'GtE', 'GtE': 'Lt', 'Gt': 'LtE', 'LtE': 'Gt'}[op]
                    if op in ('Lt', 'LtE'):          # stays true on a prefix of an ascending row
                        return self.pred(inner)
            raise Unknown('loop left by break: the remaining iterations are a prefix, not recognised as a sorted-key prefix: ' + show(c)[:60])
        raise Unknown('predicate ' + show(g)[:80])

    def is_pair(self, t):
        if t[0] == 'bvar':
            return self.names.get(t[1]) in ('p', 'q')
        return t[0] == 'idx' and t[2][0] == 'carried'

    def conj(self, g):
        if g == TRUE:
            return []
        if g[0] == 'bool' and g[1] == 'and':
            out = []
            for x in g[2]:
                out += self.conj(x)
            return out
        p = self.pred(g)
        return [] if p == 'true' else [p]

    # -- variables --------------------------------------------------------------------------
    def varname(self, t):
        if t[0] == 'bvar' and t[1] in getattr(self, 'varbinders', {}):
            return self.varbinders[t[1]]
        if t[0] == 'lpvar':
            return 'obj:' + self.template(t[1])
        if t[0] == 'attr' and t[2] in self.var_attrs and t[1][0] in ('bvar', 'idx'):
            return '%s(%s)' % (self.attr_letter[t[2]], self.pairname(t[1]))
        if t[0] == 'idx':
            a = model_attr(t[1])
            if a in self.var_arrays:
                return '%s[%s]' % (self.arr_letter[a][0], self.pstr(t[2]))
        raise Unknown('not a variable: ' + show(t)[:60])

    def is_var(self, t):
        if t[0] == 'lpvar':
            return True
        if t[0] == 'bvar' and t[1] in getattr(self, 'varbinders', {}):
            return True
        if t[0] == 'attr' and t[2] in self.var_attrs and t[1][0] in ('bvar', 'idx'):
            return True
        if t[0] == 'idx' and model_attr(t[1]) in self.var_arrays:
            return True
        return False

    def template(self, t):
        """string-building term -> template text with {hole} markers."""
        if t[0] == 'const':
            return str(t[1])
        if t[0] == 'fstr':
            return ''.join(self.template(x) if (x[0] == 'const' and isinstance(x[1], str)) else '{%s}' % self.hole(x) for x in t[1])
        if t[0] == 'bin' and t[1] == 'Add':
            return self.template(t[2]) + self.template(t[3])
        if t[0] == 'call' and t[1] == S('str') and len(t[2]) == 1:
            return '{%s}' % self.hole(t[2][0])
        return '{%s}' % self.hole(t)

    def hole(self, t):
        try:
            return self.pstr(t)
        except Unknown:
            return '?' + show(t)[:40]

    # -- linear forms -----------------------------------------------------------------------
    @staticmethod
    def lift_ite(t):
        """(x if c else 0) ** p, (x if c else 0) * y, y * (a + (x if c else 0)): conditionals with a zero branch are pulled
        outwards through powers and products (products distribute over sums), so that they end up as guarded monomials"""
        def has_ite(x):
            return contains(x, lambda y: y[0] == 'ite' and C(0) in (y[2], y[3]))
        def zero_ite(x):
            return x[0] == 'ite' and x[3] == C(0)
        def go(x):
            if x[0] == 'ite' and x[2] == C(0) and x[3] != C(0):
                x = ('ite', NOT(x[1]), x[3], C(0))
            if x[0] != 'bin' or not has_ite(x):
                return x
            op, a, b = x[1], go(x[2]), go(x[3])
            if op == 'Pow' and zero_ite(a) and b[0] == 'const' and isinstance(b[1], int) and b[1] >= 1:
                return ('ite', a[1], go(BIN('Pow', a[2], b)), C(0))
            if op == 'Mult':
                if zero_ite(a):
                    return ('ite', a[1], go(BIN('Mult', a[2], b)), C(0))
                if zero_ite(b):
                    return ('ite', b[1], go(BIN('Mult', a, b[2])), C(0))
                for u, v, left in ((a, b, True), (b, a, False)):
                    if u[0] == 'bin' and u[1] in ('Add', 'Sub') and has_ite(u):
                        l_ = go(BIN('Mult', u[2], v) if left else BIN('Mult', v, u[2]))
                        r_ = go(BIN('Mult', u[3], v) if left else BIN('Mult', v, u[3]))
                        return BIN(u[1], l_, r_)
            return BIN(op, a, b)
        return go(t)

    def lin(self, t):
        """term -> list of Mono."""
        if t[0] == 'bin' and contains(t, lambda y: y[0] == 'ite' and C(0) in (y[2], y[3])):
            t = self.lift_ite(t)
        k = t[0]
        if self.is_var(t):
            return [Mono(pconst(1), self.varname(t))]
        if k == 'call':
            f = t[1]
            if f == S('LpAffineExpression'):
                return self.lin(t[2][0]) if t[2] else []
            if f in (S('lpSum'), S('sum')) and len(t[2]) == 1:
                return self.linsum(t[2][0])
        if k == 'bin':
            op = t[1]
            if op == 'Add':
                return self.lin(t[2]) + self.lin(t[3])
            if op == 'Sub':
                return self.lin(t[2]) + [Mono(pneg(m.coef), m.var, m.sumvar, m.preds) for m in self.lin(t[3])]
            if op == 'Mult':
                la, lb = self.lin(t[2]), self.lin(t[3])
                for consts, others in ((la, lb), (lb, la)):
                    if all(m.var is None and m.sumvar is None for m in consts):
                        if not any(m.preds for m in consts):
                            c = {}
                            for m in consts: c = padd(c, m.coef)
                            return [Mono(pmul(c, m.coef), m.var, m.sumvar, m.preds) for m in others]
                        # conditional constants ([g] * c): distribute, keeping the condition on each product
                        return [Mono(pmul(mc.coef, m.coef), m.var, m.sumvar, tuple(m.preds) + tuple(mc.preds)) for mc in consts for m in others]
                raise Unknown('non-linear product ' + show(t)[:80])
        if k == 'un' and t[1] == 'USub':
            return [Mono(pneg(m.coef), m.var, m.sumvar, m.preds) for m in self.lin(t[2])]
        if k == 'sum':
            return self.linchain(t[1], t[2])
        if k in ('prefix', 'carried'):
            return self.linprefix(t)
        if k == 'ite':
            # ite(c, A, B) with A, B linear:  B + [c] * (A - B)
            la, lb = self.lin(t[2]), self.lin(t[3])
            cond = self.conj(t[1])
            d = {}
            for m in la:
                d[m.key()] = (padd(d[m.key()][0], m.coef) if m.key() in d else m.coef, m)
            for m in lb:
                d[m.key()] = (psub(d[m.key()][0], m.coef) if m.key() in d else pneg(m.coef), m)
            diff = [Mono(c, m.var, m.sumvar, tuple(m.preds) + tuple(cond)) for c, m in d.values() if c]
            return lb + diff
        return [Mono(self.poly(t))]

    def linsum(self, a):
        """sum of the elements of list-valued term a."""
        if a[0] == 'comp':
            return self.linchain(a[1], a[2])
        if a[0] == 'list':
            out = []
            for e in a[1]:
                out += self.lin(e)
            return out
        if a[0] == 'cat':
            out = []
            for e in a[1]:
                out += self.linsum(e)
            return out
        if a[0] == 'accum' and all(en[0] in ('append', 'extend') for en in a[2]):
            # the sum of a list does not depend on the order in which its elements were appended
            out = self.linsum(a[1])
            for op, idx, val, ch in a[2]:
                out += self.linchain(ch, val) if op == 'append' else self.linchain(ch, CALL(S('lpSum'), [val]))
            return out
        arr = model_attr(a)
        if arr in self.var_arrays:
            letter, sort = self.arr_letter[arr]
            v = SORTVAR.get(sort, 'k')
            return [Mono(pconst(1), '%s[%s]' % (letter, v), v, ())]
        raise Unknown('sum over ' + show(a)[:80])

    def linchain(self, chain, value):
        """Sum over a binder chain.  Pair chains collapse into one summation variable q with predicates."""
        # for b in A + B: the sum over A plus the sum over B;  for b in [v for inner]: the inner chain with b := v
        for k_, (b, g) in enumerate(chain):
            dom = b[3]
            while dom[0] == 'call' and dom[1] in (S('list'), S('tuple')) and len(dom[2]) == 1 and dom[2][0][0] in ('cat', 'bin', 'comp', 'slice'):
                dom = dom[2][0]
            parts = list(dom[1]) if dom[0] == 'cat' else ([dom[2], dom[3]] if (dom[0] == 'bin' and dom[1] == 'Add') else None)
            from .canon import replace as _replace
            if parts is not None:
                out = []
                for part in parts:
                    nb = ('bvar', next(self.it.ids), b[2], part)
                    rest = tuple((_replace(bb, b, nb), _replace(gg, b, nb)) for bb, gg in chain[k_ + 1:])
                    out += self.linchain(chain[:k_] + ((nb, _replace(g, b, nb)),) + rest, _replace(value, b, nb))
                return out
            if dom[0] == 'comp' and dom is not b[3] or (dom[0] == 'comp' and self.classify(b)[0] == 'other'):
                inner = list(dom[1])
                v2 = dom[2]
                inner[-1] = (inner[-1][0], AND(inner[-1][1], _replace(g, b, v2)))
                rest = tuple((_replace(bb, b, v2), _replace(gg, b, v2)) for bb, gg in chain[k_ + 1:])
                return self.linchain(chain[:k_] + tuple(inner) + rest, _replace(value, b, v2))
        preds = []
        sumvar = None
        saved = dict(self.names)
        try:
            for b, g in chain:
                kk = self.classify(b)
                if kk[0] == 'rows':
                    # rows binder inside a sum: only meaningful when followed by its elements (all pairs)
                    self.names[b[1]] = '_row'
                    nxt = [bb for bb, _ in chain if bb[3] == b]
                    if not nxt or kk[1] != 'S':
                        raise Unknown('sum over rows ' + show(b[3]))
                    if g != TRUE:
                        raise Unknown('guard on a row binder')
                    continue
                if kk[0] == 'elem':
                    row = b[3]
                    if sumvar:
                        raise Unknown('nested pair sums')
                    sumvar = 'q'
                    self.names[b[1]] = 'q'
                    if self.names.get(row[1]) == '_row':
                        pass          # all pairs
                    else:
                        rs = self.classify(row)[1]
                        preds += self.rowpred(rs, 'q', patom(self.names[row[1]]) if rs != 'R' else None, row)
                elif kk[0] == 'rowat':
                    if sumvar:
                        raise Unknown('nested pair sums')
                    sumvar = 'q'
                    self.names[b[1]] = 'q'
                    preds += self.rowpred(kk[1], 'q', self.poly(kk[2]), None)
                elif kk[0] == 'allpairs':
                    if sumvar:
                        raise Unknown('nested pair sums')
                    sumvar = 'q'
                    self.names[b[1]] = 'q'
                elif kk[0] == 'index':
                    if sumvar:
                        raise Unknown('nested sums')
                    sumvar = SORTVAR[kk[1]] + "'"
                    self.names[b[1]] = sumvar
                elif kk[0] == 'varelems':
                    # for d in model.<variable array>: the element IS the variable letter[k']
                    if sumvar:
                        raise Unknown('nested sums')
                    letter, sort = self.arr_letter[kk[1]]
                    sumvar = SORTVAR.get(sort, 'k')        # same summation letter as sum(model.<array>) gets
                    self.names[b[1]] = sumvar
                    if not hasattr(self, 'varbinders') or self.varbinders is None:
                        self.varbinders = {}
                    self.varbinders[b[1]] = '%s[%s]' % (letter, sumvar)
                elif kk[0] == 'rowslice':
                    # a part of a row chosen by POSITION: { q in row : lo <= pos(q) < hi }
                    if sumvar:
                        raise Unknown('nested pair sums')
                    sumvar = 'q'
                    self.names[b[1]] = 'q'
                    row = kk[1]
                    if row[1] not in self.names:
                        raise Unknown('row binder unnamed')
                    preds += self.rowpred(self.classify(row)[1], 'q', patom(self.names[row[1]]), row)
                    if kk[2] not in (NONE, C(0)):
                        preds.append(pred_text('GtE', psub(patom('pos(q)'), self.poly(kk[2]))))
                    if kk[3] != NONE:
                        preds.append(pred_text('Lt', psub(patom('pos(q)'), self.poly(kk[3]))))
                elif kk[0] == 'while':
                    if sumvar:
                        raise Unknown('nested sums')
                    sumvar = 'q'
                    preds += self.prefix_scan(kk[1], b)
                else:
                    raise Unknown('summation domain ' + show(b[3])[:60])
                preds += self.conj(g)
            inner = self.lin(value)
            out = []
            for m in inner:
                if m.sumvar:
                    raise Unknown('nested sums')
                out.append(Mono(m.coef, m.var, sumvar, tuple(preds) + tuple(m.preds)))
            return out
        finally:
            self.names = saved

    def linprefix(self, t):
        """Running value of an accumulator read inside its own for-loop:  pre + sum over the elements visited so far
        (inclusive when the read follows this iteration's accumulation).  Position order => predicate on pos()."""
        from .absint import collect_acc
        name, lid = t[1], t[2]
        inclusive = t[0] == 'prefix'
        loop = self.it.loopinfo.get(lid)
        if loop is None or loop.kind != 'for':
            raise Unknown('running value of %s outside a for-loop' % name)
        b = loop.binder
        kk = self.classify(b)
        if kk[0] != 'elem' or self.names.get(b[1]) != 'p':
            raise Unknown('running value over a loop that is not the quantified pair loop')
        entries = collect_acc(loop.body, name, ((b, TRUE),))
        if not entries or any(en[0] not in ('add', 'sub') for en in entries):
            raise Unknown('running value of a non-additive accumulator ' + name)
        out = self.lin(loop.pre[name]) if name in loop.pre else []
        row = b[3]
        rs = self.classify(row)[1]
        saved = dict(self.names)
        try:
            self.names[b[1]] = 'q'
            base = self.rowpred(rs, 'q', self.poly_named(saved, row), row)
            base.append('pos(q) - pos(p) %s 0' % ('<=' if inclusive else '<'))
            for op, _, v, ch, _ in entries:
                if len(ch) != 1:
                    raise Unknown('nested running accumulation')
                preds = base + self.conj(ch[0][1])
                for m in self.lin(v):
                    if m.sumvar:
                        raise Unknown('nested sums')
                    c = m.coef if op == 'add' else pneg(m.coef)
                    out.append(Mono(c, m.var, 'q', tuple(preds)))
        finally:
            self.names = saved
        return out

    def poly_named(self, names, row):
        nm = names.get(row[1])
        if nm is None:
            raise Unknown('row binder unnamed')
        return patom(nm)

    def rowpred(self, sort, q, idxpoly, row):
        if sort in ROWPRED:
            return [pred_text('==', padd(patom('%s(%s)' % (ROWPRED[sort], q)), pneg(idxpoly)))]
        if sort == 'R':
            # rank_lists[e] holds the pairs of student rank e+1
            return [pred_text('==', psub(patom('rs(%s)' % q), padd(idxpoly, pconst(1))))]
        raise Unknown('row sort ' + str(sort))

    def _eqtxt(self, d):
        if d and sorted(d.items())[0][1] < 0:
            d = pneg(d)
        return pshow(d)

    def prefix_scan(self, wid, b):
        """Recognise the sorted-prefix scan
              c = c0; i = 0
              while c <= aim and i < len(row):  acc(row[i]); i += 1; if i < len(row): c = row[i].KEY
           => { q in row : KEY(q) <= aim }   given row sorted by KEY with first KEY >= c0 (facts of C10: dense ranks from 1).
        Binds the name q to row[i]."""
        w = self.it.whiles.get(wid)
        if w is None:
            raise Unknown('while loop %s not found' % wid)
        conds = list(w.cond[2]) if (w.cond[0] == 'bool' and w.cond[1] == 'and') else [w.cond]
        idxvar = keyvar = None
        aim = row = None
        cmpop = None
        for c in conds:
            if c[0] != 'cmp':
                raise Unknown('while condition ' + show(c))
            l, r = c[2], c[3]
            if r[0] == 'carried' and l[0] == 'call' and l[1] == S('len') and c[1] == 'Gt':
                l, r, c = r, l, ('cmp', 'Lt', r, l)                 # len(row) > i
            if l[0] == 'carried' and r[0] == 'call' and r[1] == S('len') and c[1] == 'Lt':
                idxvar, row = l[1], r[2][0]
            elif l[0] == 'carried' and c[1] in ('LtE', 'Lt'):
                keyvar, aim, cmpop = l[1], r, c[1]
            elif r[0] == 'carried' and c[1] in ('GtE', 'Gt'):
                keyvar, aim, cmpop = r[1], l, {'GtE': 'LtE', 'Gt': 'Lt'}[c[1]]
            else:
                raise Unknown('while condition ' + show(c))
        if None in (idxvar, keyvar, row, aim):
            raise Unknown('while loop is not an indexed key scan')
        if w.pre.get(idxvar) != C(0):
            raise Unknown('scan index does not start at 0')
        c0 = w.pre.get(keyvar)
        # body: idx += 1 unguarded; key = row[idx].KEY guarded by idx < len(row)
        from .absint import collect_acc
        inc = collect_acc(w.body, idxvar, ((b, TRUE),))
        if len(inc) != 1 or inc[0][0] != 'add' or inc[0][2] != C(1) or inc[0][3][-1][1] != TRUE:
            raise Unknown('scan index is not incremented by exactly one per iteration')
        upd = collect_acc(w.body, keyvar, ((b, TRUE),))
        if len(upd) != 1 or upd[0][0] != 'assign':
            raise Unknown('scan key update not recognised')
        val = upd[0][2]
        elem = I(row, ('carried', idxvar, wid))
        nxt = I(row, ('prefix', idxvar, wid, True))      # row[index] read after `index += 1`
        if not (val[0] == 'attr' and val[1] == nxt):
            raise Unknown('scan key is not an attribute of row[index] read after the index was advanced')
        kg = upd[0][3][-1][1]
        if kg not in (CMP('Lt', ('prefix', idxvar, wid, True), CALL(S('len'), [row])), CMP('Gt', CALL(S('len'), [row]), ('prefix', idxvar, wid, True))):
            raise Unknown('scan key update is not guarded by index < len(row)')
        keyattr = val[2]
        # order of statements: the accumulations on row[idx] must come before the increment (checked by the caller
        # through the element term: it must be row[idx@loop] evaluated before idx changes); the key update after it.
        order = [e for e, _ in iter_effects(w.body) if e.kind == 'acc']
        pos_inc = [i for i, e in enumerate(order) if e.var == idxvar][0]
        for i, e in enumerate(order):
            if e.var not in (idxvar, keyvar) and i > pos_inc and contains(e.value, lambda x: x == ('carried', idxvar, wid)):
                raise Unknown('scan accumulates row[index] after the index was advanced')
            if e.var == keyvar and i < pos_inc:
                raise Unknown('scan key updated before the index was advanced')
        # bind q := row[idx]
        self.scan_elem = elem
        self.names[('scan', wid)] = 'q'
        rowk = self.classify(row) if row[0] == 'bvar' else None
        preds = []
        if row[0] == 'bvar' and rowk[0] == 'rows':
            preds += self.rowpred(rowk[1], 'q', patom(self.names[row[1]]) if row[1] in self.names else self._raise('row binder unnamed'), row)
        else:
            raise Unknown('scan row ' + show(row))
        if PAIRATTR.get(keyattr, (None,))[0] != 'rs' or rowk[1] != 'S':
            raise Unknown('scan key %s on rows of sort %s has no sortedness fact' % (keyattr, rowk[1]))
        # initial key: first element always visited iff c0 <cmp> aim; ranks start at 1 and aim >= 1
        if not (c0 is not None and c0[0] == 'const' and isinstance(c0[1], int)):
            raise Unknown('scan initial key is not a constant')
        first_ok = c0[1] <= 1 if cmpop == 'LtE' else c0[1] < 1
        k = '%s(q)' % PAIRATTR[keyattr][0]
        preds.append(pred_text(cmpop, psub(patom(k), self.poly(aim))))
        if not first_ok:
            preds.append('scan-start(%d)' % c0[1])
        return preds

    def _raise(self, msg):
        raise Unknown(msg)

    # overriding pair naming for the scan element row[idx]
    def pairname(self, base):
        if base[0] == 'bvar':
            if base[1] in self.names:
                return self.names[base[1]]
            raise Unknown('free pair binder ' + show(base))
        if base[0] == 'idx' and base[2][0] == 'carried':
            wid = base[2][2]
            if ('scan', wid) in self.names or True:
                return 'q'
        raise Unknown('pair expression ' + show(base))

    # -- whole constraints ------------------------------------------------------------------
    def family(self, cmp, ctx):
        """cmp term + effect context -> Family.  ctx as produced by iter_effects."""
        self.begin()
        quants, guards = [], []
        fors = [c for c, _ in ctx if c.kind == 'for']
        kinds = {}
        for f in fors:
            q, k = self.name_quant(f.binder, quants)
            kinds[f.binder[1]] = k
            quants.append(q)
        # a rows binder whose elements are also quantified is redundant: i = s(p)
        drop = set()
        for f in fors:
            k = kinds[f.binder[1]]
            if k[0] == 'elem':
                row = f.binder[3]
                if row[1] in kinds and kinds[row[1]][0] == 'rows':
                    rs = kinds[row[1]][1]
                    if rs in ROWPRED:
                        self.names[row[1]] = '%s(p)' % ROWPRED[rs]
                        drop.add('%s:%s' % (SORTVAR[rs], rs))
        quants = [q for q in quants if q not in drop]
        for c, br in ctx:
            if c.kind == 'if':
                g = c.cond if br else NOT(c.cond)
                guards += self.guard_text(g)
        op = {'LtE': '<=', 'GtE': '>=', 'Eq': '=='}.get(cmp[1])
        if op is None:
            raise Unknown('constraint comparator ' + cmp[1])
        monos = self.lin(cmp[2]) + [Mono(pneg(m.coef), m.var, m.sumvar, m.preds) for m in self.lin(cmp[3])]
        return Family(quants, guards, op, monos)

    def guard_text(self, g):
        out = []
        for x in (g[2] if (g[0] == 'bool' and g[1] == 'and') else [g]):
            try:
                out.append(self.pred(x))
            except Unknown:
                out.append(show(x))
        return [o for o in out if o != 'true']


# ---- reference families written in Python *expression* syntax (parsed with ast, never executed) ----
class RefParser:
    """'sum(x(q), s(q) == i) <= 1'  ->  Family.   Variables: x a b c d obj; sum(term, preds...) ; sumk(term)."""
    VARS = {'x', 'a', 'b', 'c', 'd', 'obj'}

    def __init__(self):
        self.canon = None

    def poly(self, n):
        if isinstance(n, ast.Constant):
            return pconst(n.value)
        if isinstance(n, ast.Name):
            return patom(n.id)
        if isinstance(n, ast.BinOp):
            a, b = self.poly(n.left), self.poly(n.right)
            if isinstance(n.op, ast.Add): return padd(a, b)
            if isinstance(n.op, ast.Sub): return psub(a, b)
            if isinstance(n.op, ast.Mult): return pmul(a, b)
            if isinstance(n.op, ast.Pow): return ppow(a, n.right.value)
        if isinstance(n, ast.UnaryOp) and isinstance(n.op, ast.USub):
            return pneg(self.poly(n.operand))
        if isinstance(n, ast.Call) and isinstance(n.func, ast.Name):
            return patom('%s(%s)' % (n.func.id, ', '.join(pshow(self.poly(a)) for a in n.args)))
        if isinstance(n, ast.Subscript) and isinstance(n.value, ast.Name):
            return patom('%s[%s]' % (n.value.id, pshow(self.poly(n.slice))))
        raise ValueError('reference syntax: ' + ast.dump(n))

    def isvar(self, n):
        return (isinstance(n, ast.Call) and isinstance(n.func, ast.Name) and n.func.id in self.VARS) or \
               (isinstance(n, ast.Subscript) and isinstance(n.value, ast.Name) and n.value.id in self.VARS) or \
               (isinstance(n, ast.Name) and n.id.startswith('obj_'))

    def varname(self, n):
        if isinstance(n, ast.Name):
            return 'obj:' + n.id
        if isinstance(n, ast.Call):
            return '%s(%s)' % (n.func.id, ', '.join(pshow(self.poly(a)) for a in n.args))
        return '%s[%s]' % (n.value.id, pshow(self.poly(n.slice)))

    def pred(self, n):
        if isinstance(n, ast.Call) and isinstance(n.func, ast.Name):
            return '%s(%s)' % (n.func.id, ', '.join(pshow(self.poly(a)) for a in n.args))
        assert isinstance(n, ast.Compare) and len(n.ops) == 1
        d = psub(self.poly(n.left), self.poly(n.comparators[0]))
        op = {ast.Eq: '==', ast.NotEq: '!=', ast.Lt: '<', ast.LtE: '<=', ast.Gt: '>', ast.GtE: '>='}[type(n.ops[0])]
        return pred_text(op, d)

    def lin(self, n):
        if self.isvar(n):
            return [Mono(pconst(1), self.varname(n))]
        if isinstance(n, ast.BinOp):
            if isinstance(n.op, ast.Add):
                return self.lin(n.left) + self.lin(n.right)
            if isinstance(n.op, ast.Sub):
                return self.lin(n.left) + [Mono(pneg(m.coef), m.var, m.sumvar, m.preds) for m in self.lin(n.right)]
            if isinstance(n.op, ast.Mult):
                la, lb = self.lin(n.left), self.lin(n.right)
                if all(m.var is None and not m.sumvar for m in la):
                    c = {}
                    for m in la: c = padd(c, m.coef)
                    return [Mono(pmul(c, m.coef), m.var, m.sumvar, m.preds) for m in lb]
                c = {}
                for m in lb: c = padd(c, m.coef)
                return [Mono(pmul(m.coef, c), m.var, m.sumvar, m.preds) for m in la]
        if isinstance(n, ast.UnaryOp) and isinstance(n.op, ast.USub):
            return [Mono(pneg(m.coef), m.var, m.sumvar, m.preds) for m in self.lin(n.operand)]
        if isinstance(n, ast.Call) and isinstance(n.func, ast.Name) and n.func.id in ('sum', 'sumk'):
            sv = 'q' if n.func.id == 'sum' else 'k' 
            preds = [self.pred(a) for a in n.args[1:]]
            return [Mono(m.coef, m.var, sv, tuple(preds)) for m in self.lin(n.args[0])]
        return [Mono(self.poly(n))]

    def family(self, text, quants=(), guards=()):
        n = ast.parse(text, mode='eval').body
        assert isinstance(n, ast.Compare) and len(n.ops) == 1
        op = {ast.LtE: '<=', ast.GtE: '>=', ast.Eq: '=='}[type(n.ops[0])]
        monos = self.lin(n.left) + [Mono(pneg(m.coef), m.var, m.sumvar, m.preds) for m in self.lin(n.comparators[0])]
        return Family(quants, guards, op, monos)
