"""LP facts for one configuration specialisation: ordered events (declvar / addc / setobj / solve / status checks /
returns) with canonical forms.  Shared by C01-C05, C14, C16, C18."""
from .terms import *
from .poly import *
from . import lp, spec
from .absint import iter_effects, Eff
from .loader import AnalysisError

_cache = {}


class Event:
    def __init__(self, kind, eff, ctx, order):
        self.kind, self.eff, self.ctx, self.order = kind, eff, ctx, order
        self.fam = None
        self.err = None
        allifs = [(c, br) for c, br in ctx if c.kind == 'if']
        self.status_guards = [(c, br) for c, br in allifs if is_status_cond(c.cond)]
        self.sym_ifs = [(c, br) for c, br in allifs if not is_status_cond(c.cond)]
        self.loops = [c for c, _ in ctx if c.kind in ('for', 'while')]
        self.calls = [c.target.qualname for c, _ in ctx if c.kind == 'call']
        self.iters = [c for c, _ in ctx if c.kind == 'iter']

    @property
    def loc(self):
        return self.eff.loc

    @property
    def where(self):
        return self.eff.where

    def text(self):
        if self.fam is not None:
            return self.fam.text()
        return repr(self.eff)


class LPRun:
    def __init__(self, repo, pc, stab, criteria, twopl=S('TWOPL')):
        self.repo, self.pc, self.stab, self.criteria = repo, pc, stab, criteria
        self.it, self.effs = lp.extract(repo, pc, stab, criteria, twopl=twopl)
        self.canon = lp.Canon(self.it, self.effs)
        self.events = []
        n = 0
        for e, ctx in iter_effects(self.effs):
            if e.kind in ('declvar', 'addc', 'setobj', 'solve', 'newprob', 'return', 'raise', 'store', 'augstore', 'append', 'break', 'if'):
                ev = Event(e.kind, e, ctx, n)
                n += 1
                if e.kind == 'addc':
                    try:
                        ev.fam = norm_family(self.canon.family(e.cmp, ctx))
                    except Unknown as u:
                        ev.err = str(u)
                self.events.append(ev)

    def of(self, *kinds):
        return [e for e in self.events if e.kind in kinds]

    def first_solve(self):
        s = self.of('solve')
        return s[0].order if s else None

    def declvars(self):
        out = []
        for ev in self.of('declvar'):
            cn = self.canon
            cn.begin()
            d = {'ev': ev, 'site': ev.loc}
            try:
                for c, _ in ev.ctx:
                    if c.kind == 'for':
                        cn.name_quant(c.binder, [])
                d['name'] = cn.template(ev.eff.name)
                d['low'] = None if ev.eff.low == NONE else cn.poly(ev.eff.low)
                d['up'] = None if ev.eff.up == NONE else cn.poly(ev.eff.up)
                d['cat'] = ev.eff.cat[1] if ev.eff.cat[0] == 'const' else show(ev.eff.cat)
                d['binders'] = [cn.names.get(c.binder[1]) for c, _ in ev.ctx if c.kind == 'for']
            except Unknown as u:
                d['err'] = str(u)
            out.append(d)
        return out


def is_status_cond(c):
    """A condition on the LP problem's solve status (e.g. LpStatus[prob.status] == 'Optimal')."""
    return contains(c, lambda x: x[0] == 'attr' and x[2] == 'status')


def norm_family(f):
    """Drop l(q)=l(p) when pr(q)=pr(p) is present (a project has one lecturer: obligation of C10)."""
    ms = []
    for m in f.monos:
        ps = list(m.preds)
        if 'pr(p) - pr(q) == 0' in ps and 'l(p) - l(q) == 0' in ps:
            ps.remove('l(p) - l(q) == 0')
        ms.append(lp.Mono(m.coef, m.var, m.sumvar, tuple(ps)))
    return lp.Family(f.quants, f.guards, f.op, ms)


def get_run(repo, pc, stab, criteria, twopl=S('TWOPL')):
    key = (repo.root, repr(pc), repr(stab), repr(criteria), repr(twopl))
    if key not in _cache:
        _cache[key] = LPRun(repo, pc, stab, criteria, twopl)
    return _cache[key]


def ref_family(entry):
    quants, text = entry[0], entry[1]
    return norm_family(lp.RefParser().family(text, quants))


def crit_config(name, arity=None):
    """One criterion with its extras: scalar flags get None, list flags a tuple of `arity` symbolic arguments."""
    n = spec.CRITERIA[name]['nextras']
    if n == 0:
        return (name, None)
    return (name, n if arity is None else arity)
