"""LP facts for one configuration specialisation: ordered events (declvar / addc / setobj / solve / status checks /
returns) with canonical forms.  Shared by C01-C05, C14, C16, C18."""
from .terms import *
from .poly import *
from . import lp, spec
from .absint import iter_effects, Eff
from .loader import AnalysisError

_cache = {}


def is_criterion_value(v):
    def member(x):
        return x[0] == 'attr' and x[1] == S('Optimisation_options')
    if member(v):
        return True
    return v[0] in ('tuple', 'list') and len(v[1]) >= 1 and member(v[1][0])


class Event:
    def __init__(self, kind, eff, ctx, order):
        self.kind, self.eff, self.ctx, self.order = kind, eff, ctx, order
        self.fam = None
        self.err = None
        self.strict = None
        allifs = [(c, br) for c, br in ctx if c.kind == 'if']
        self.status_guards = [(c, br) for c, br in allifs if is_status_cond(c.cond)]
        self.sym_ifs = [(c, br) for c, br in allifs if not is_status_cond(c.cond)]
        self.loops = [c for c, _ in ctx if c.kind in ('for', 'while')]
        self.calls = [c.target.qualname for c, _ in ctx if c.kind == 'call']
        # unrolled iterations of the criterion list (configuration); an unrolled loop over a literal tuple of expressions is not one
        self.iters = [c for c, _ in ctx if c.kind == 'iter' and is_criterion_value(c.value)]

    @property
    def loc(self):
        return self.eff.loc

    @property
    def where(self):
        return self.eff.where

    def text(self):
        if self.fam is not None:
            return self.fam.text()
        return repr(self.eff)


AGENT_LISTS = {'lec_targets': 'num_lecturers', 'lec_upper_quotas': 'num_lecturers', 'lec_lower_quotas': 'num_lecturers',
               'proj_upper_quotas': 'num_projects', 'proj_lower_quotas': 'num_projects', 'proj_lecturers': 'num_projects'}


def normalise_agent_loops(it, effs):
    """`for k, uq in enumerate(model.lec_upper_quotas)` (a loop or comprehension over a per-agent list of the model, one entry
    per agent by C10) is the loop `for k in range(num_lecturers)` with uq = model.lec_upper_quotas[k]"""
    from .absint import map_effects
    from .canon import replace
    def copy_of_agent_list(t):
        # [model.X[k] for k in range(model.num_<sort of X>)]  is  model.X  (one entry per agent, C10)
        if t[0] == 'comp' and len(t[1]) == 1 and t[1][0][1] == TRUE and t[2][0] == 'idx' and t[2][2] == t[1][0][0] and lp.model_attr(t[2][1]) in AGENT_LISTS:
            dom = t[1][0][0][3]
            n = A(t[2][1][1], AGENT_LISTS[lp.model_attr(t[2][1])])
            if dom in (CALL(S('range'), [n]), CALL(S('range'), [CALL(S('len'), [t[2][1]])])):
                return t[2][1]
        return None
    effs = map_effects(effs, copy_of_agent_list)
    found = {}
    def scan_term(t):
        for x in walk(t):
            if x[0] == 'bvar' and lp.model_attr(x[3]) in AGENT_LISTS and x not in found:
                n = A(x[3][1], AGENT_LISTS[lp.model_attr(x[3])])
                found[x] = ('bvar', next(it.ids), 'k', CALL(S('range'), [n]))
    for e, ctx in iter_effects(effs):
        for k_, v in e.__dict__.items():
            if isinstance(v, tuple) and v and isinstance(v[0], str):
                scan_term(v)
            elif isinstance(v, tuple):
                for y in v:
                    if isinstance(y, tuple) and y and isinstance(y[0], str):
                        scan_term(y)
    if not found:
        return effs
    def rw(t):
        if t[0] == 'indexof' and t[1] in found:
            return found[t[1]]
        return None
    effs = map_effects(effs, rw)          # indexof(b) -> k while b is still intact inside
    def apply(es):
        out = es
        def walk_e(es2):
            for e in es2:
                for name, v in list(e.__dict__.items()):
                    if name in ('func', 'node', 'returns', 'ctrl', 'then', 'orelse', 'body'):
                        continue
                    if name == 'binder':
                        if v in found:
                            e.binder = found[v]
                        continue
                    if isinstance(v, tuple) and v and isinstance(v[0], str):
                        e.__dict__[name] = subst_chain(v)
                    elif isinstance(v, tuple):
                        e.__dict__[name] = tuple(subst_chain(y) if (isinstance(y, tuple) and y and isinstance(y[0], str)) else y for y in v)
                for fld in ('then', 'orelse', 'body'):
                    if isinstance(getattr(e, fld, None), list):
                        walk_e(getattr(e, fld))
        walk_e(out)
        return out
    def subst_chain(t):
        # chain binders become k, every other occurrence of b (a value) becomes X[k]
        t2 = t
        for b, k_ in found.items():
            t2 = replace_values(t2, b, I(b[3], k_))
        return t2
    def replace_values(t, b, new):
        if not isinstance(t, tuple):
            return t
        if t == b:
            return new
        if t and isinstance(t[0], str) and t[0] in ('comp', 'sum', 'dictcomp'):
            ch = tuple((found[bb] if bb == b else replace_values(bb, b, new), replace_values(g, b, new)) for bb, g in t[1])
            return (t[0], ch) + tuple(replace_values(x, b, new) if isinstance(x, tuple) else x for x in t[2:])
        return tuple(replace_values(x, b, new) if isinstance(x, tuple) else x for x in t)
    return apply(effs)


class LPRun:
    def __init__(self, repo, pc, stab, criteria, twopl=S('TWOPL')):
        self.repo, self.pc, self.stab, self.criteria = repo, pc, stab, criteria
        self.it, self.effs = lp.extract(repo, pc, stab, criteria, twopl=twopl)
        self.effs = normalise_agent_loops(self.it, self.effs)
        self.canon = lp.Canon(self.it, self.effs)
        self.events = []
        n = 0
        for e, ctx in iter_effects(self.effs):
            if e.kind in ('declvar', 'addc', 'setobj', 'solve', 'newprob', 'return', 'raise', 'store', 'augstore', 'append', 'break', 'if'):
                ev = Event(e.kind, e, ctx, n)
                n += 1
                if e.kind == 'addc':
                    ev.strict = e.cmp[1] if (e.cmp[0] == 'cmp' and e.cmp[1] in ('Lt', 'Gt', 'NotEq')) else None
                    try:
                        ev.fam = norm_family(self.canon.family(e.cmp, ctx))
                    except Unknown as u:
                        ev.err = str(u)
                    if ev.strict:
                        ev.fam, ev.err = None, 'strict comparison'
                self.events.append(ev)

    def of(self, *kinds):
        return [e for e in self.events if e.kind in kinds]

    def first_solve(self):
        s = self.of('solve')
        return s[0].order if s else None

    def declvars(self, rep=None, rule=None):
        """declared LP variables in closed form; a declaration outside the closed forms raises AnalysisError (callers answer
        inconclusive) instead of being handed on with empty fields"""
        out = self._declvars()
        bad = [d for d in out if 'err' in d]
        if bad:
            raise AnalysisError('LP variable declared at %s is outside the closed forms: %s' % (bad[0]['site'], bad[0]['err']))
        return out

    def _declvars(self):
        out = []
        for ev in self.of('declvar'):
            cn = self.canon
            cn.begin()
            d = {'ev': ev, 'site': ev.loc}
            try:
                for c, _ in ev.ctx:
                    if c.kind == 'for':
                        cn.name_quant(c.binder, [])
                d['name'] = cn.template(ev.eff.name)
                d['low'] = None if ev.eff.low == NONE else cn.poly(ev.eff.low)
                d['up'] = None if ev.eff.up == NONE else cn.poly(ev.eff.up)
                d['cat'] = ev.eff.cat[1] if ev.eff.cat[0] == 'const' else show(ev.eff.cat)
                d['binders'] = [cn.names.get(c.binder[1]) for c, _ in ev.ctx if c.kind == 'for']
            except Unknown as u:
                d['err'] = str(u)
            out.append(d)
        return out


def is_status_cond(c):
    """A condition on the LP problem's solve status (e.g. LpStatus[prob.status] == 'Optimal')."""
    return contains(c, lambda x: x[0] == 'attr' and x[2] == 'status')


def norm_family(f):
    """Drop l(q)=l(p) when pr(q)=pr(p) is present (a project has one lecturer: obligation of C10)."""
    ms = []
    for m in f.monos:
        ps = list(m.preds)
        if 'pr(p) - pr(q) == 0' in ps and 'l(p) - l(q) == 0' in ps:
            ps.remove('l(p) - l(q) == 0')
        ms.append(lp.Mono(m.coef, m.var, m.sumvar, tuple(ps)))
    return lp.Family(f.quants, f.guards, f.op, ms)


def report_unnormalised(rep, rule, e, what, cfg=''):
    """a constraint that has no normal form: inconclusive - unless it is not a constraint at all (`<`, `>`, `!=` between LP
    expressions: PuLP defines only <=, >= and ==, Python then raises TypeError or adds the truth value of a comparison)"""
    if getattr(e, 'strict', None):
        rep.fail(rule, e.where, 'what is added to the problem is a constraint: PuLP builds one from <=, >= and == only %s' % cfg,
                 got='%s between LP expressions' % {'Lt': '<', 'Gt': '>', 'NotEq': '!='}[e.strict], want='<=, >= or ==', construct='strict / != comparison added as a constraint', loc=e.loc)
    else:
        # a per-agent constraint that reads what a variable was LEFT WITH by an earlier loop (its last iteration's value)
        stale = [x for x in walk(e.eff.cmp) if x[0] == 'stale'] if getattr(e.eff, 'cmp', None) else []
        loops_here = [c_.lid for c_, _ in e.ctx if c_.kind == 'for']
        if stale and loops_here and stale[0][2] not in loops_here:
            rep.fail(rule, e.where, 'every quantity of a per-agent constraint belongs to that agent %s' % cfg,
                     got='%s is the value left over from the last iteration of an earlier loop' % show(stale[0][1])[:100], want='the value of the agent the constraint is for',
                     construct='constraint built from a stale loop value', loc=e.loc)
            return
        rep.inconclusive(rule, e.where, what, got=e.err, loc=e.loc)


def get_run(repo, pc, stab, criteria, twopl=S('TWOPL')):
    key = (repo.root, repr(pc), repr(stab), repr(criteria), repr(twopl))
    if key not in _cache:
        _cache[key] = LPRun(repo, pc, stab, criteria, twopl)
    return _cache[key]


def ref_family(entry):
    quants, text = entry[0], entry[1]
    return norm_family(lp.RefParser().family(text, quants))


def crit_config(name, arity=None):
    """One criterion with its extras: scalar flags get None, list flags a tuple of `arity` symbolic arguments."""
    n = spec.CRITERIA[name]['nextras']
    if n == 0:
        return (name, None)
    return (name, n if arity is None else arity)


# ---- objective helpers -------------------------------------------------------------------------------
def obj_vars(fam):
    return sorted({m.var for m in fam.monos if m.var and m.var.startswith('obj:')})


def is_freeze(fam):
    """obj <=/>= val(obj): one objective variable with coefficient +-1 and the constant val(same variable)."""
    ov = obj_vars(fam)
    if len(ov) != 1 or fam.op != '<=':
        return None
    v = ov[0]
    rest = [m for m in fam.monos if m.var != v]
    mine = [m for m in fam.monos if m.var == v]
    if len(mine) != 1 or len(rest) != 1 or rest[0].var is not None or rest[0].sumvar:
        return None
    c = mine[0].coef
    k = rest[0].coef
    valatom = 'val(%s)' % v
    if c == pconst(1) and k == pneg(patom(valatom)):
        return (v, '<=')          # obj - val <= 0
    if c == pconst(-1) and k == patom(valatom):
        return (v, '>=')          # val - obj <= 0
    return None


def rename_obj(fam, new='obj:obj_OBJ'):
    ov = obj_vars(fam)
    if len(ov) != 1:
        return fam
    old = ov[0]
    ms = []
    for m in fam.monos:
        coef = psubst(m.coef, lambda a: patom(a.replace(old, new)) if old in a else None)
        ms.append(lp.Mono(coef, new if m.var == old else m.var, m.sumvar, m.preds))
    return lp.Family([q.replace(old, new) for q in fam.quants], fam.guards, fam.op, ms)


def sense_of(run):
    """'MAX' / 'MIN' sense of the LpProblem as constructed (PuLP default: minimise)."""
    np_ = run.of('newprob')
    if not np_:
        return None
    args = np_[0].eff.value[2]
    s = None
    if len(args) >= 2:
        s = args[1]
    if s is None:
        return 'MIN'
    if s == S('LpMaximize') or s == C(-1):
        return 'MAX'
    if s == S('LpMinimize') or s == C(1):
        return 'MIN'
    return None


def setobj_direction(run, ev):
    """Direction in which the objective variable of setobj event ev is pushed: ('MAX'|'MIN', objvar) or None."""
    sense = sense_of(run)
    cn = run.canon
    cn.begin()
    try:
        for c, _ in ev.ctx:
            if c.kind == 'for':
                cn.name_quant(c.binder, [])
        monos = [m for m in cn.lin(ev.eff.expr) if m.coef]
    except Unknown:
        return None
    if len(monos) != 1 or not (monos[0].var or '').startswith('obj:') or not is_pconst(monos[0].coef):
        return None
    c = pconstval(monos[0].coef)
    if c == 0 or sense is None:
        return None
    up = (sense == 'MAX') == (c > 0)
    return ('MAX' if up else 'MIN', monos[0].var)


# ---- load-balancing agreement (C02.R5 / C03.R3 / C04.R6) ----------------------------------------------------
def lb_agreement(rep, r, rule, cfg):
    """If any constraint/objective of this run mentions the deviation variables d[k], they must be declared in this run
    and both defining families d[k] >= load-t, d[k] >= t-load must be added, unconditionally, before the first solve."""
    first = r.first_solve()
    uses = []
    undeclared = []
    for ev in r.of('addc'):
        if ev.fam is not None and any((m.var or '').startswith('d[') for m in ev.fam.monos) and ev.iters:
            uses.append(ev)
        if ev.fam is None and ev.err and 'abs_lec_diff' in ev.err and 'abs_lec_diff' not in r.canon.var_arrays:
            undeclared.append(ev)          # the criterion reads model.abs_lec_diff and no variable array of that name was declared in this run
    where = r.repo.method('LP_Solver', 'add_constraints', required=False)
    where = where.where if where else r.repo.method('LP_Solver', 'run').where
    for ev in undeclared:
        rep.fail(rule, ev.where, 'the load-deviation variables exist whenever a criterion reads them %s' % cfg, got='abs_lec_diff read but never declared in this run',
                 want='declared in pulp_setup for this criterion list', construct='deviation variables undeclared', loc=ev.loc)
    # an element store  model.X[k] = e  for every k of a sort needs a list that has one slot per k already
    for ev in r.of('store'):
        t = ev.eff.target
        if t[0] != 'idx' or not lp.model_attr(t[1]) or t[2][0] != 'bvar':
            continue
        a = lp.model_attr(t[1])
        fors = [c for c, _ in ev.ctx if c.kind == 'for' and c.binder[1] == t[2][1]]
        sort = r.canon.range_sort(fors[0].binder[3]) if fors else None
        if sort is None or a in lp.ARR or a in lp.ROWS:
            continue
        filled = False
        for e2 in r.of('append', 'store'):
            if e2.order >= ev.order:
                break
            if e2.kind == 'append' and lp.model_attr(e2.eff.target) == a:
                f2 = [c for c, _ in e2.ctx if c.kind == 'for']
                filled = filled or (bool(f2) and r.canon.range_sort(f2[-1].binder[3]) == sort and not e2.sym_ifs)
            if e2.kind == 'store' and lp.model_attr(e2.eff.target) == a and (e2.eff.value[0] in ('comp', 'repeat', 'accum', 'cat') or
                                                                             (e2.eff.value[0] == 'bin' and e2.eff.value[1] == 'Mult') or
                                                                             (e2.eff.value[0] == 'list' and e2.eff.value[1])):
                filled = True          # created with its slots in one go: [x] * n, a comprehension, a filled literal
        rep.check(filled, rule, ev.where, 'model.%s[k] = ... replaces an element that exists: the list has one slot per %s %s' % (a, {'L': 'lecturer', 'P': 'project', 'S': 'student'}.get(sort, sort), cfg),
                  got='no element is ever appended to model.%s in this run' % a, want='one append per index in pulp_setup', construct='element store into unfilled list %s' % a, loc=ev.loc)
    if not uses:
        return
    declared = 'abs_lec_diff' in r.canon.var_arrays or any(l == 'd' for l, _ in r.canon.arr_letter.values())
    for a_, (l_, sort_) in sorted(r.canon.arr_letter.items()):
        if l_ == 'd':
            rep.check(sort_ in ('L', None), rule, uses[0].where, 'one deviation variable is declared per lecturer %s' % cfg, got='one per %s' % {'P': 'project', 'S': 'student', None: 'element of an unrecognised range'}.get(sort_, sort_),
                      want='for lec_index in range(num_lecturers)', construct='deviation variables per %s' % sort_)
    rep.check(declared, rule, uses[0].where, 'the load-deviation variables are declared for this criterion list %s' % cfg,
              got='not declared', construct='deviation variables undeclared', loc=uses[0].loc)
    for k, entry in spec.ABSDIFF.items():
        ref = ref_family(entry)
        hits = [e for e in r.of('addc') if e.fam is not None and e.fam.core() == ref.core()]
        ok = [e for e in hits if first is not None and e.order < first and not e.sym_ifs]
        if ok:
            rep.ok(rule, ok[0].where, 'deviation definition %s is in place before the first solve %s' % (k, cfg), got=ok[0].fam.core(), want=ref.core(), loc=ok[0].loc)
        elif hits:
            e = hits[0]
            rep.fail(rule, e.where, 'deviation definition %s is added unconditionally before the first solve %s' % (k, cfg),
                     got='conditional or late', construct='deviation definition %s conditional/late' % k, loc=e.loc)
        else:
            near = [e for e in r.of('addc') if e.fam is not None and e.fam.quants == ref.quants and any((m.var or '').startswith('d[') for m in e.fam.monos) and not obj_vars(e.fam)]
            near = [e for e in near if e.fam.core() not in {ref_family(x).core() for x in spec.ABSDIFF.values()}]
            if near:
                rep.fail(rule, near[0].where, 'deviation definition %s equals d[k] >= +-(load - target) %s' % (k, cfg), got=near[0].fam.core(), want=ref.core(),
                         construct='deviation definition %s deviates: %s' % (k, near[0].fam.core()), loc=near[0].loc)
            else:
                rep.fail(rule, where, 'deviation definition %s is added when a criterion uses the deviation variables %s' % (k, cfg),
                         got='absent although %s uses d[k]' % uses[0].loc, want=ref.core(), construct='deviation definition %s absent' % k)


# ---- closed classification of the feasible region (C02.R3 / C03.R5) ------------------------------------------
def allowed_families(pc, stab, lb):
    out = {}
    for k, v in spec.VALIDITY.items():
        if v[2] == 'always' or v[2] == ('pc' if pc else 'nopc'):
            out['validity ' + k] = ref_family(v)
    if stab:
        for k, v in spec.STABILITY.items():
            out['stability ' + k] = ref_family(v)
    if lb:
        for k, v in spec.ABSDIFF.items():
            out['deviation ' + k] = ref_family(v)
    return out


def closed_classification(rep, r, rule, cfg):
    """Before the first solve the problem holds exactly the reference families of this configuration: each present
    unconditionally, nothing else.  (Feasible region = valid [stable] matchings, extended by definable auxiliaries.)"""
    first = r.first_solve()
    where = r.repo.method('LP_Solver', 'run').where
    if first is None:
        rep.fail(rule, where, 'a solve is reached %s' % cfg, got='no solve', construct='no solve')
        return
    lb = any(c[0] in spec.LOAD_BALANCING for c in (r.criteria or []))
    allowed = allowed_families(r.pc, r.stab, lb)
    cores = {f.core(): k for k, f in allowed.items()}
    pre = [e for e in r.of('addc') if e.order < first and not e.iters]
    seen = set()
    for e in pre:
        if e.fam is None:
            report_unnormalised(rep, rule, e, 'every constraint added before the first solve is classified %s' % cfg, cfg)
            continue
        k = cores.get(e.fam.core())
        if k is None:
            rep.fail(rule, e.where, 'every constraint added before the first solve is one of the reference families (validity%s%s) %s' % (
                ', stability' if r.stab else '', ', deviation definitions' if lb else '', cfg), got=e.fam.core(), want='one of: ' + ', '.join(sorted(allowed)),
                construct='unclassified constraint: ' + e.fam.core(), loc=e.loc)
            continue
        if e.sym_ifs:
            rep.fail(rule, e.where, '%s is added unconditionally %s' % (k, cfg), got='only under ' + ' and '.join(show(c.cond if br else NOT(c.cond)) for c, br in e.sym_ifs),
                     construct='conditional ' + k, loc=e.loc)
            continue
        seen.add(k)
    for k in allowed:
        if k in seen:
            rep.ok(rule, where, '%s present, unconditional, before the first solve %s' % (k, cfg), got=allowed[k].core())
        elif not any(o.status != 'discharged' and o.rule == rule and cfg in o.desc for o in rep.obs):
            rep.fail(rule, where, '%s is present before the first solve %s' % (k, cfg), got='absent', want=allowed[k].core(), construct=k + ' absent')


def domain_changes(r):
    """stores / calls that change the domain of an LP variable AFTER it was created (x.upBound = 0, x.lowBound = .., x.cat = ..,
    x.bounds(..), x.fixValue()): the rules read variable domains from the creating call only  ->  [(event, text)]"""
    out = []
    for ev in r.events:
        e = ev.eff
        if ev.kind in ('store', 'augstore') and e.target[0] == 'attr' and e.target[2] in ('upBound', 'lowBound', 'cat'):
            out.append((ev, '%s = %s' % (show(e.target)[:60], show(e.value)[:30])))
    for e, ctx in iter_effects(r.effs):
        if e.kind == 'expr' and e.term[0] == 'call' and e.term[1][0] == 'attr' and e.term[1][2] in ('bounds', 'fixValue', 'setInitialValue', 'unfixValue'):
            out.append((e, show(e.term)[:80]))
    return out


def check_domains_fixed(rep, r, rule, cfg):
    ch = domain_changes(r)
    if ch:
        ev, txt = ch[0]
        rep.fail(rule, ev.where, 'the domain of an LP variable is the one it is created with %s' % cfg, got=txt, want='bounds and category given to LpVariable(...) only',
                 construct='LP variable domain changed after creation: ' + txt.split(' = ')[0].split('.')[-1], loc=ev.loc)
    return not ch
