"""E4: statement-level CFG per function, dominators, reaching definitions.

Nodes are simple statements and branch/loop tests.  `parser.error(...)`, `sys.exit(...)`, `exit(...)` and `raise`
do not return (edge to EXIT_ERR).  Pure ast; no third-party graph library."""
import ast

NORETURN_ATTRS = {'error', 'exit'}       # parser.error / sys.exit
NORETURN_NAMES = {'exit', 'quit'}


def is_noreturn_call(n):
    if isinstance(n, ast.Expr):
        n = n.value
    if isinstance(n, ast.Call):
        f = n.func
        if isinstance(f, ast.Attribute) and f.attr in NORETURN_ATTRS:
            return True
        if isinstance(f, ast.Name) and f.id in NORETURN_NAMES:
            return True
    return False


class Node:
    __slots__ = ('id', 'kind', 'ast', 'succ', 'pred', 'loop', 'line')

    def __init__(self, id, kind, a):
        self.id, self.kind, self.ast = id, kind, a
        self.succ, self.pred = [], []
        self.loop = None
        self.line = getattr(a, 'lineno', 0) if a is not None else 0

    def __repr__(self):
        return 'N%d:%s@%d' % (self.id, self.kind, self.line)


class CFG:
    def __init__(self, fnode):
        self.fn = fnode
        self.nodes = []
        self.entry = self.new('entry', None)
        self.exit = self.new('exit', None)
        self.exit_err = self.new('exit_err', None)
        self.loops = []      # (loop ast, head node, body node ids set)
        outs = self.seq(fnode.body, [self.entry], [])
        for o, lab in outs:
            self.edge(o, self.exit, lab)
        self._dom = None
        self._pdom = None

    def new(self, kind, a):
        n = Node(len(self.nodes), kind, a)
        self.nodes.append(n)
        return n

    def edge(self, a, b, label=None):
        a.succ.append((b, label))
        b.pred.append((a, label))

    def seq(self, stmts, ins, loopstack):
        """ins: list of (node, label) or nodes whose fall-through goes to the first statement. Returns list of out nodes."""
        cur = [(x, None) if isinstance(x, Node) else x for x in ins]
        for s in stmts:
            if not cur:
                break      # unreachable
            cur = self.stmt(s, cur, loopstack)
        return cur

    def link(self, ins, n):
        for a, lab in ins:
            self.edge(a, n, lab)

    def stmt(self, s, ins, loopstack):
        if isinstance(s, ast.If):
            t = self.new('test', s.test)
            self.link(ins, t)
            o1 = self.seq(s.body, [(t, True)], loopstack)
            o2 = self.seq(s.orelse, [(t, False)], loopstack) if s.orelse else [(t, False)]
            return o1 + o2
        if isinstance(s, (ast.For, ast.While)):
            h = self.new('loop', s)
            self.link(ins, h)
            brk = []
            first = len(self.nodes)
            ob = self.seq(s.body, [(h, True)], loopstack + [(h, brk)])
            for a, lab in ob:
                self.edge(a, h, lab)
            body_ids = set(range(first, len(self.nodes)))
            self.loops.append((s, h, body_ids))
            for i in body_ids:
                if self.nodes[i].loop is None:
                    self.nodes[i].loop = h
            outs = [(h, False)] + brk
            if s.orelse:
                oe = self.seq(s.orelse, [(h, False)], loopstack)
                outs = oe + brk
            return outs
        if isinstance(s, ast.Return):
            n = self.new('return', s)
            self.link(ins, n)
            self.edge(n, self.exit)
            return []
        if isinstance(s, ast.Raise):
            n = self.new('raise', s)
            self.link(ins, n)
            self.edge(n, self.exit_err)
            return []
        if isinstance(s, ast.Break):
            n = self.new('break', s)
            self.link(ins, n)
            if loopstack:
                loopstack[-1][1].append((n, None))
            return []
        if isinstance(s, ast.Continue):
            n = self.new('continue', s)
            self.link(ins, n)
            if loopstack:
                self.edge(n, loopstack[-1][0])
            return []
        if isinstance(s, ast.With):
            n = self.new('stmt', s)
            self.link(ins, n)
            return self.seq(s.body, [(n, None)], loopstack)
        if isinstance(s, ast.Try):
            n = self.new('stmt', s)
            self.link(ins, n)
            o = self.seq(s.body, [(n, None)], loopstack)
            for h in s.handlers:
                o += self.seq(h.body, [(n, 'except')], loopstack)
            if s.orelse:
                o = self.seq(s.orelse, o, loopstack)
            if s.finalbody:
                o = self.seq(s.finalbody, o, loopstack)
            return o
        n = self.new('stmt', s)
        self.link(ins, n)
        if is_noreturn_call(s):
            self.edge(n, self.exit_err)
            return []
        return [(n, None)]

    # ---- dominators -----------------------------------------------------------------
    def dominators(self):
        if self._dom is None:
            self._dom = self._domsets(self.entry, lambda n: [p for p, _ in n.pred])
        return self._dom

    def _domsets(self, root, preds):
        reach = self.reachable(root, forward=(preds.__name__ != 'succs'))
        allids = {n.id for n in self.nodes if n.id in reach}
        dom = {i: set(allids) for i in allids}
        dom[root.id] = {root.id}
        changed = True
        order = sorted(allids)
        while changed:
            changed = False
            for i in order:
                if i == root.id:
                    continue
                ps = [p.id for p in preds(self.nodes[i]) if p.id in allids]
                new = set.intersection(*[dom[p] for p in ps]) if ps else set()
                new = new | {i}
                if new != dom[i]:
                    dom[i] = new
                    changed = True
        return dom

    def reachable(self, root, forward=True):
        seen = {root.id}
        st = [root]
        while st:
            n = st.pop()
            for m, _ in (n.succ if forward else n.pred):
                if m.id not in seen:
                    seen.add(m.id)
                    st.append(m)
        return seen

    def dominates(self, a, b):
        """Every path from entry to b passes a."""
        d = self.dominators()
        return b.id in d and a.id in d[b.id]

    def node_of(self, astnode):
        """CFG node whose statement contains astnode."""
        best = None
        for n in self.nodes:
            if n.ast is None:
                continue
            if n.kind == 'loop':
                parts = [n.ast.iter] if isinstance(n.ast, ast.For) else [n.ast.test]
                if isinstance(n.ast, ast.For):
                    parts.append(n.ast.target)
            elif n.kind == 'stmt' and isinstance(n.ast, ast.With):
                parts = [i.context_expr for i in n.ast.items]
            elif n.kind == 'stmt' and isinstance(n.ast, ast.Try):
                parts = []
            else:
                parts = [n.ast]
            for p in parts:
                for x in ast.walk(p):
                    if x is astnode:
                        best = n
        return best

    def paths_avoiding(self, src, dst, avoid):
        """Is there a path src -> dst that avoids every node in `avoid` (ids)?"""
        seen = {src.id}
        st = [src]
        while st:
            n = st.pop()
            if n.id == dst.id:
                return True
            for m, _ in n.succ:
                if m.id not in seen and m.id not in avoid:
                    seen.add(m.id)
                    st.append(m)
        return False

    # ---- reaching definitions (local names) -----------------------------------------------
    def defs_of(self, n):
        """Names (re)defined at node n -> kind ('assign' | 'aug' | 'loopvar' | 'with')."""
        out = {}
        a = n.ast
        if a is None:
            return out
        if n.kind == 'loop' and isinstance(a, ast.For):
            for x in ast.walk(a.target):
                if isinstance(x, ast.Name):
                    out[x.id] = 'loopvar'
            return out
        if n.kind in ('test', 'loop'):
            return out
        if isinstance(a, ast.Assign):
            for t in a.targets:
                for x in ([t] if isinstance(t, ast.Name) else (t.elts if isinstance(t, (ast.Tuple, ast.List)) else [])):
                    if isinstance(x, ast.Name):
                        out[x.id] = 'assign'
        elif isinstance(a, ast.AnnAssign) and isinstance(a.target, ast.Name) and a.value is not None:
            out[a.target.id] = 'assign'
        elif isinstance(a, ast.AugAssign) and isinstance(a.target, ast.Name):
            out[a.target.id] = 'aug'
        elif isinstance(a, ast.With):
            for it in a.items:
                if isinstance(it.optional_vars, ast.Name):
                    out[it.optional_vars.id] = 'with'
        return out

    def uses_of(self, n):
        a = n.ast
        if a is None:
            return []
        if n.kind == 'loop':
            parts = [a.iter] if isinstance(a, ast.For) else [a.test]
        elif isinstance(a, ast.With):
            parts = [i.context_expr for i in a.items]
        elif isinstance(a, ast.Try):
            parts = []
        else:
            parts = [a]
        out = []
        for p in parts:
            for x in ast.walk(p):
                if isinstance(x, ast.Name) and isinstance(x.ctx, ast.Load):
                    out.append(x)
            # an augmented assignment also reads its target
            if isinstance(p, ast.AugAssign) and isinstance(p.target, ast.Name):
                out.append(p.target)
        return out

    def reaching(self):
        """node id -> {name: set of def node ids} at node entry ('param' = -1 for parameters)."""
        params = {a.arg for a in self.fn.args.args}
        IN = {n.id: {} for n in self.nodes}
        OUT = {n.id: {} for n in self.nodes}
        OUT[self.entry.id] = {p: {-1} for p in params}
        changed = True
        while changed:
            changed = False
            for n in self.nodes:
                if n is self.entry:
                    continue
                inn = {}
                for p, _ in n.pred:
                    for k, v in OUT[p.id].items():
                        inn.setdefault(k, set()).update(v)
                out = {k: set(v) for k, v in inn.items()}
                for name, kind in self.defs_of(n).items():
                    if kind == 'aug':
                        out.setdefault(name, set()).add(n.id)   # keeps earlier defs too (accumulator)
                    else:
                        out[name] = {n.id}
                if inn != IN[n.id] or out != OUT[n.id]:
                    IN[n.id], OUT[n.id] = inn, out
                    changed = True
        return IN
