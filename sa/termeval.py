"""E5b: finite evaluation of *terms* and *effect trees* (the output of absint) under one valuation of their atoms.
The rule supplies `atom(term)` (returns NOATOM to decline) and `cmp(op, a, b)` for comparisons between abstract values;
everything else is evaluated structurally with Python's short-circuit order.  Arithmetic on abstract values is refused
(Unknown): a rule built on this evaluator is only as strong as "the code touches these values through comparisons",
and it says so by failing closed when that is not the case.  No repository code is executed."""
from .terms import *

NOATOM = object()


class Raises(Exception):
    pass


class Leave(Exception):
    def __init__(self, kind, value=None):
        self.kind, self.value = kind, value


class Abs:
    """an abstract value: tag + payload, compared only through the rule's cmp hook"""
    __slots__ = ('tag', 'data')

    def __init__(self, tag, data=None):
        self.tag, self.data = tag, data

    def __repr__(self):
        return '<%s %s>' % (self.tag, self.data)

    def __eq__(self, o):
        return isinstance(o, Abs) and (self.tag, self.data) == (o.tag, o.data)

    def __hash__(self):
        return hash((self.tag, self.data))


PLAIN = (bool, int, float, str, type(None))
FLIP = {'Lt': 'Gt', 'Gt': 'Lt', 'LtE': 'GtE', 'GtE': 'LtE', 'Eq': 'Eq', 'NotEq': 'NotEq', 'Is': 'Is', 'IsNot': 'IsNot'}


def order_cmp(op, rel):
    """rel in {'lt','eq','gt'} (left vs right) -> truth of `left op right`"""
    return {'Lt': rel == 'lt', 'LtE': rel in ('lt', 'eq'), 'Gt': rel == 'gt', 'GtE': rel in ('gt', 'eq'),
            'Eq': rel == 'eq', 'NotEq': rel != 'eq', 'Is': rel == 'eq', 'IsNot': rel != 'eq'}[op]


class TermEval:
    def __init__(self, atom=None, cmp=None, call=None):
        self.atom = atom or (lambda t: NOATOM)
        self.cmp = cmp or (lambda op, a, b: NOATOM)
        self.call = call or (lambda t, args: NOATOM)

    def truth(self, v):
        if isinstance(v, Abs):
            if v.tag == 'obj':
                return True
            raise Unknown('truth value of abstract value %r' % (v,))
        return bool(v)

    def ev(self, t):
        r = self.atom(t)
        if r is not NOATOM:
            return r
        k = t[0]
        if k == 'const':
            return t[1]
        if k == 'not':
            return not self.truth(self.ev(t[1]))
        if k == 'bool':
            # (the value of the LAST operand is returned whatever its truth value: Python does not test it)
            if t[1] == 'and':
                v = True
                for n_, x in enumerate(t[2]):
                    v = self.ev(x)
                    if n_ < len(t[2]) - 1 and not self.truth(v):
                        return v
                return v
            v = False
            for n_, x in enumerate(t[2]):
                v = self.ev(x)
                if n_ < len(t[2]) - 1 and self.truth(v):
                    return v
            return v
        if k == 'ite':
            return self.ev(t[2]) if self.truth(self.ev(t[1])) else self.ev(t[3])
        if k == 'cmp':
            a, b = self.ev(t[2]), self.ev(t[3])
            return self.compare(t[1], a, b)
        if k == 'bin':
            a, b = self.ev(t[2]), self.ev(t[3])
            if isinstance(a, int) and isinstance(b, int) and not isinstance(a, bool) and not isinstance(b, bool) and t[1] in BINF:
                return BINF[t[1]](a, b)
            if isinstance(a, int) and isinstance(b, int) and not isinstance(a, bool) and not isinstance(b, bool) and t[1] in ('FloorDiv', 'Mod'):
                if b == 0:
                    raise Raises('ZeroDivisionError: integer division or modulo by zero')
                return a // b if t[1] == 'FloorDiv' else a % b
            raise Unknown('arithmetic %s on %r, %r' % (t[1], a, b))
        if k == 'un' and t[1] == 'USub':
            a = self.ev(t[2])
            if isinstance(a, int):
                return -a
            raise Unknown('negation of %r' % (a,))
        if k == 'call':
            args = [self.ev(x) for x in t[2]]
            r = self.call(t, args)
            if r is not NOATOM:
                return r
            if t[1] == S('bool') and len(args) == 1:
                return self.truth(args[0])
            if t[1] in (S('min'), S('max')) and len(args) == 2 and not t[3]:
                lt = self.compare('Lt', args[0], args[1])
                if t[1] == S('min'):
                    return args[0] if lt else args[1]
                return args[1] if lt else args[0]
            raise Unknown('call %s' % show(t)[:80])
        if k in ('tuple', 'list'):
            return Abs(k, tuple(self.ev(x) for x in t[1]))
        raise Unknown('term outside the finite evaluator: %s' % show(t)[:100])

    def compare(self, op, a, b):
        r = self.cmp(op, a, b)
        if r is not NOATOM:
            return r
        if isinstance(a, PLAIN) and isinstance(b, PLAIN):
            if op in ('Eq', 'Is'):
                return a == b if op == 'Eq' else (a is b or a == b)
            if op in ('NotEq', 'IsNot'):
                return a != b
            if a is None or b is None:
                raise Raises("TypeError: '%s' not supported between %s and %s" % (OPS[op], type(a).__name__, type(b).__name__))
            return CMPF[op](a, b)
        if isinstance(a, Abs) and isinstance(b, Abs) and a == b:
            return order_cmp(op, 'eq')
        for x, y in ((a, b), (b, a)):
            if isinstance(x, Abs) and x.tag == 'obj' and y is None:
                if op in ('Eq', 'Is'):
                    return False
                if op in ('NotEq', 'IsNot'):
                    return True
        raise Unknown('comparison %s between %r and %r' % (op, a, b))

    # ---- effect trees ------------------------------------------------------------------
    def run(self, effs, on=None):
        """Execute effects; `on(eff)` handles store-like effects (returns True when handled).  Raises Leave for
        return / continue / break.  Inlined calls resume after the callee's return."""
        for e in effs:
            k = e.kind
            if k == 'if':
                if self.truth(self.ev(e.cond)):
                    self.run(e.then, on)
                else:
                    self.run(e.orelse, on)
            elif k == 'return':
                raise Leave('return', self.ev(e.value) if e.value is not None else None)
            elif k in ('continue', 'break'):
                raise Leave(k)
            elif k == 'raise':
                raise Raises('explicit raise')
            elif k == 'call':
                try:
                    self.run(e.body, on)
                except Leave as lv:
                    if lv.kind != 'return':
                        raise
            elif k in ('callo', 'expr'):
                if on is not None:
                    on(e)
            else:
                if on is None or not on(e):
                    raise Unknown('effect %s outside the finite evaluator' % e.kind)


class PyEval(TermEval):
    """Finite evaluation over plain Python values (None, bool, int, str, list, tuple, dict) for *configuration* terms:
    argument namespaces, literal option tables, comprehensions over them.  The rule supplies the values of the leaves
    through `atom`; everything else is computed structurally.  Used to tabulate guards (e.g. "is this option set
    refused?") on a finite set of representative argument values, independent of how the guard is written."""

    def __init__(self, atom=None, cmp=None, call=None):
        super().__init__(atom, cmp, call)
        self.benv = {}

    def ev(self, t):
        r = self.atom(t)
        if r is not NOATOM:
            return r
        k = t[0]
        if k == 'pyval':
            return t[1]
        if k == 'bvar':
            if t[1] in self.benv:
                return self.benv[t[1]]
            raise Unknown('unbound variable %s' % show(t))
        if k == 'indexof':
            key = ('ix', t[1][1])
            if key in self.benv:
                return self.benv[key]
            raise Unknown('position of an unbound variable')
        if k in ('list', 'tuple'):
            vals = [self.ev(x) for x in t[1]]
            return vals if k == 'list' else tuple(vals)
        if k == 'dict':
            return {self.key(self.ev(a)): self.ev(b) for a, b in t[1]}
        if k == 'upd':
            base = self.ev(t[1])
            base = dict(base) if isinstance(base, dict) else list(base)
            try:
                i = self.ev(t[3]) if t[3] is not None and t[3] != NONE else None
                key = self.key(i) if isinstance(base, dict) else i
                v = self.ev(t[4])
                if t[2] == 'setidx':
                    base[key] = v
                elif t[2] == 'addidx':
                    base[key] = base[key] + v
                elif t[2] == 'append':
                    base.append(v)
                elif t[2] == 'extend':
                    base.extend(v)
                elif t[2] == 'appendidx':
                    base[key] = list(base[key]) + [v]
                else:
                    raise Unknown('update ' + t[2])
            except (IndexError, KeyError, TypeError) as e:
                raise Raises('%s in update' % type(e).__name__)
            return base
        if k == 'attr' and t[1][0] == 'sym' and t[1][1][:1].isupper():
            return Abs('enum', (t[1][1], t[2]))
        if k == 'idx':
            b, i = self.ev(t[1]), self.ev(t[2])
            try:
                if isinstance(b, dict):
                    return b[self.key(i)]
                return b[i]
            except (IndexError, KeyError, TypeError) as e:
                raise Raises('%s: %s' % (type(e).__name__, show(t)[:60]))
        if k == 'slice':
            b = self.ev(t[1])
            lo, hi = self.ev(t[2]), self.ev(t[3])
            try:
                return b[lo:hi]
            except TypeError as e:
                raise Raises('TypeError: ' + show(t)[:60])
        if k in ('comp', 'sum'):
            out = []
            self._chain(list(t[1]), 0, t[2], out)
            if k == 'sum':
                tot = 0
                for v in out:
                    tot = tot + v
                return tot
            return out
        if k == 'cat':
            out = []
            for p in t[1]:
                out += list(self.ev(p))
            return out
        if k == 'fstr':
            return ''.join(str(self.ev(x)) for x in t[1])
        if k == 'bin' and t[1] in ('Mult', 'Add'):
            a, b = self.ev(t[2]), self.ev(t[3])
            if t[1] == 'Mult' and isinstance(a, list) and isinstance(b, int):
                return a * b
            if t[1] == 'Mult' and isinstance(b, list) and isinstance(a, int):
                return b * a
            if t[1] == 'Add' and isinstance(a, list) and isinstance(b, list):
                return a + b
            if t[1] == 'Add' and isinstance(a, tuple) and isinstance(b, tuple):
                return a + b
            if t[1] == 'Add' and isinstance(a, str) and isinstance(b, str):
                return a + b
            if isinstance(a, int) and isinstance(b, int):
                return BINF[t[1]](int(a), int(b))          # Python: bool is an int
            if a is None or b is None:
                raise Raises('TypeError: unsupported operand None for %s' % t[1])
            raise Unknown('arithmetic %s on %r, %r' % (t[1], a, b))
        if k == 'bin' and t[1] == 'Sub':
            a, b = self.ev(t[2]), self.ev(t[3])
            if isinstance(a, int) and isinstance(b, int):
                return int(a) - int(b)
            if a is None or b is None:
                raise Raises('TypeError: unsupported operand None for -')
            raise Unknown('arithmetic Sub on %r, %r' % (a, b))
        if k == 'accum':
            cur = self.ev(t[1])
            cur = list(cur) if isinstance(cur, (list, tuple)) else (dict(cur) if isinstance(cur, dict) else cur)
            box = [cur]
            for op, idx, val, ch in t[2]:
                self._accum_entry(box, op, idx, val, list(ch), 0)
            return box[0]
        if k == 'cmp' and t[1] in ('In', 'NotIn'):
            a, b = self.ev(t[2]), self.ev(t[3])
            try:
                r = (self.key(a) in [self.key(x) for x in b]) if not isinstance(b, dict) else (self.key(a) in b)
            except TypeError:
                raise Raises('TypeError: argument of type is not iterable')
            return r if t[1] == 'In' else not r
        if k == 'call' and t[1] == S('next') and len(t[2]) in (1, 2) and t[2][0][0] in ('accum', 'comp', 'cat', 'list', 'ite'):
            # next(generator, default): LAZY -- nothing after the first produced element is evaluated
            found = self._first(t[2][0])
            if found is not None:
                return found[0]
            if len(t[2]) == 2:
                return self.ev(t[2][1])
            raise Raises('StopIteration')
        if k == 'call':
            f = t[1]
            if f[0] == 'sym' and f[1] in ('isinstance',) and len(t[2]) == 2:
                v = self.ev(t[2][0])
                ty = t[2][1]
                names = [ty[1]] if ty[0] == 'sym' else [x[1] for x in ty[1]] if ty[0] == 'tuple' else []
                pyt = {'list': list, 'tuple': tuple, 'int': int, 'str': str, 'dict': dict, 'float': float, 'bool': bool}
                return any(isinstance(v, pyt[n]) and not (n == 'int' and isinstance(v, bool)) for n in names if n in pyt)
            if f == S('map') and len(t[2]) == 2 and not t[3] and t[2][0][0] == 'sym' and t[2][0][1] in ('tuple', 'list', 'int', 'str', 'len', 'abs', 'bool'):
                # map(<builtin>, X): the list of converted elements (consumed by len / set / sorted / a loop: laziness is not observable)
                g = t[2][0]
                return [self.ev(CALL(g, [('pyval', x)])) for x in self.ev(t[2][1])]
            if f[0] == 'sym' and f[1] in ('len', 'all', 'any', 'sorted', 'list', 'tuple', 'max', 'min', 'sum', 'range', 'set', 'abs', 'int', 'str', 'bool') and not t[3]:
                args = [self.ev(x) for x in t[2]]
                if not args and f[1] in ('set', 'list', 'tuple'):
                    return [] if f[1] != 'tuple' else ()
                try:
                    if f[1] == 'all':
                        return all(self.truth(x) for x in args[0])
                    if f[1] == 'any':
                        return any(self.truth(x) for x in args[0])
                    if f[1] == 'range':
                        return list(range(*args))
                    if f[1] == 'set':
                        out = []
                        for x in args[0]:
                            if self.key(x) not in [self.key(y) for y in out]:
                                out.append(x)
                        return out
                    if f[1] == 'bool':
                        return self.truth(args[0])
                    return {'len': len, 'sorted': sorted, 'list': list, 'tuple': tuple, 'max': max, 'min': min, 'sum': sum, 'abs': abs, 'int': int, 'str': str}[f[1]](*args)
                except TypeError as e:
                    raise Raises('TypeError: %s' % e)
                except ValueError as e:
                    raise Raises('ValueError: %s' % e)
            if f[0] == 'attr' and f[2] in ('keys', 'values', 'items', 'get', 'count', 'index') :
                recv = self.ev(f[1])
                args = [self.ev(x) for x in t[2]]
                if isinstance(recv, dict):
                    if f[2] == 'keys':
                        return list(recv.keys())
                    if f[2] == 'values':
                        return list(recv.values())
                    if f[2] == 'items':
                        return [tuple(x) for x in recv.items()]
                    if f[2] == 'get':
                        return recv.get(self.key(args[0]), args[1] if len(args) > 1 else None)
                if isinstance(recv, (list, tuple)) and f[2] == 'count':
                    return sum(1 for x in recv if self.key(x) == self.key(args[0]))
        return super().ev(t)

    @staticmethod
    def key(v):
        if isinstance(v, list):
            return ('L',) + tuple(PyEval.key(x) for x in v)
        if isinstance(v, Abs):
            return ('A', v.tag, v.data)
        return v

    def truth(self, v):
        if isinstance(v, (list, tuple, dict)):
            return bool(v)
        return super().truth(v)

    def compare(self, op, a, b):
        if isinstance(a, (list, tuple, dict)) or isinstance(b, (list, tuple, dict)):
            if op in ('Eq', 'Is'):
                return self.key(a) == self.key(b) if op == 'Eq' else (a is b)
            if op in ('NotEq', 'IsNot'):
                return self.key(a) != self.key(b) if op == 'NotEq' else (a is not b)
            if a is None or b is None or type(a) != type(b):
                raise Raises("TypeError: '%s' not supported between %s and %s" % (OPS[op], type(a).__name__, type(b).__name__))
        if isinstance(a, bool) or isinstance(b, bool):
            pass
        return super().compare(op, a, b)

    def _first(self, t):
        """first element of a lazily produced sequence -> (value,) or None"""
        if t[0] == 'list':
            return (self.ev(t[1][0]),) if t[1] else None
        if t[0] == 'cat':
            for p in t[1]:
                r = self._first(p)
                if r is not None:
                    return r
            return None
        if t[0] == 'ite':
            # sequences grown under successive `if`s:  ite(c, prev ++ more, prev)  -- prev is produced BEFORE c is evaluated
            c, a, b = t[1], t[2], t[3]
            def parts(x):
                return list(x[1]) if x[0] == 'cat' else ([] if x == ('list', ()) else [x])
            pa, pb = parts(a), parts(b)
            n = 0
            while n < len(pa) and n < len(pb) and pa[n] == pb[n]:
                n += 1
            for p in pa[:n]:
                r = self._first(p)
                if r is not None:
                    return r
            rest = pa[n:] if self.truth(self.ev(c)) else pb[n:]
            for p in rest:
                r = self._first(p)
                if r is not None:
                    return r
            return None
        if t[0] == 'comp':
            return self._first_chain(list(t[1]), 0, t[2])
        if t[0] == 'accum':
            r = self._first(t[1]) if t[1][0] in ('list', 'cat', 'comp', 'accum') else None
            if r is not None:
                return r
            for op, idx, val, ch in t[2]:
                if op not in ('append',):
                    raise Unknown('lazy sequence built with ' + op)
                r = self._first_chain(list(ch), 0, val)
                if r is not None:
                    return r
            return None
        raise Unknown('lazy sequence ' + show(t)[:60])

    def _first_chain(self, chain, k, val):
        if k == len(chain):
            return (self.ev(val),)
        b, g = chain[k]
        dom = self.ev(b[3])
        if isinstance(dom, dict):
            dom = list(dom.keys())
        for pos, el in enumerate(dom):
            self.benv[b[1]] = el
            self.benv[('ix', b[1])] = pos
            if g == TRUE or self.truth(self.ev(g)):
                r = self._first_chain(chain, k + 1, val)
                if r is not None:
                    return r
        return None

    def _accum_entry(self, box, op, idx, val, chain, k):
        if k == len(chain):
            v = self.ev(val)
            try:
                if op == 'append':
                    box[0].append(v)
                elif op == 'extend':
                    box[0].extend(v)
                elif op == 'assign':
                    box[0] = v
                elif op == 'add':
                    box[0] = box[0] + v
                elif op == 'sub':
                    box[0] = box[0] - v
                elif op in ('setidx', 'addidx', 'appendidx', 'extendidx'):
                    i = self.ev(idx)
                    key = self.key(i) if isinstance(box[0], dict) else i
                    if op == 'setidx':
                        box[0][key] = v
                    elif op == 'addidx':
                        box[0][key] = box[0][key] + v
                    elif op == 'appendidx':
                        box[0][key].append(v)
                    else:
                        box[0][key].extend(v)
                elif op == 'setadd':
                    if self.key(v) not in [self.key(x) for x in box[0]]:
                        box[0].append(v)
                else:
                    raise Unknown('accumulation ' + op)
            except (IndexError, KeyError, TypeError) as e:
                raise Raises('%s in accumulation' % type(e).__name__)
            return
        b, g = chain[k]
        dom = self.ev(b[3])
        if isinstance(dom, dict):
            dom = list(dom.keys())
        for pos, el in enumerate(dom):
            self.benv[b[1]] = el
            self.benv[('ix', b[1])] = pos
            if g == TRUE or self.truth(self.ev(g)):
                self._accum_entry(box, op, idx, val, chain, k + 1)

    def _chain(self, chain, k, val, out):
        if k == len(chain):
            out.append(self.ev(val))
            return
        b, g = chain[k]
        dom = self.ev(b[3])
        if isinstance(dom, dict):
            dom = list(dom.keys())
        for pos, el in enumerate(dom):
            self.benv[b[1]] = el
            self.benv[('ix', b[1])] = pos
            if g == TRUE or self.truth(self.ev(g)):
                self._chain(chain, k + 1, val, out)
        self.benv.pop(b[1], None)
        self.benv.pop(('ix', b[1]), None)


def reached(pe, ctx, k=0):
    """Is the effect with this context reached under the evaluator's valuation?  `if` entries must take the recorded
    branch; `for` entries over an evaluable (configuration) domain are reached when SOME element reaches the rest."""
    if k == len(ctx):
        return True
    c, br = ctx[k]
    if c.kind == 'if':
        v = pe.truth(pe.ev(c.cond))
        if v != bool(br):
            return False
        return reached(pe, ctx, k + 1)
    if c.kind == 'for':
        b = c.binder
        dom = pe.ev(b[3])
        if isinstance(dom, dict):
            dom = list(dom.keys())
        for pos, el in enumerate(dom):
            pe.benv[b[1]] = el
            pe.benv[('ix', b[1])] = pos
            if reached(pe, ctx, k + 1):
                return True
        pe.benv.pop(b[1], None)
        return False
    return reached(pe, ctx, k + 1)


class Refused(Exception):
    def __init__(self, eff):
        self.eff = eff


def simulate(pe, effs, is_error):
    """Walk an effect tree in program order under the evaluator's valuation: conditions are evaluated (an exception they
    would raise propagates as Raises), loops over evaluable configuration domains are iterated, the first effect for
    which is_error() holds ends the walk with Refused.  Returns normally when the end is reached."""
    left_loops = set()
    for e in effs:
        k = e.kind
        if k == 'if':
            if pe.truth(pe.ev(e.cond)):
                simulate(pe, e.then, is_error)
            else:
                simulate(pe, e.orelse, is_error)
        elif k == 'for':
            b = e.binder
            dom = pe.ev(b[3])
            if isinstance(dom, dict):
                dom = list(dom.keys())
            for pos, el in enumerate(dom):
                pe.benv[b[1]] = el
                pe.benv[('ix', b[1])] = pos
                try:
                    simulate(pe, e.body, is_error)
                except Leave as lv:
                    if lv.kind == 'break':
                        break
                    if lv.kind == 'continue':
                        continue
                    raise
        elif k == 'iter':
            # one unrolled iteration of a loop over a literal: `continue` ends this iteration, `break` this and the remaining ones
            if left_loops and getattr(e, 'line', None) in left_loops:
                continue
            try:
                simulate(pe, e.body, is_error)
            except Leave as lv:
                if lv.kind == 'continue':
                    continue
                if lv.kind == 'break':
                    left_loops.add(getattr(e, 'line', None))
                    continue
                raise
        elif k == 'call':
            if getattr(e, 'target', None) is not None and _is_generator(e.target):
                continue          # a generator body runs lazily, driven by its consumer: its conditions are evaluated through the consuming term
            try:
                simulate(pe, e.body, is_error)
            except Leave as lv:
                if lv.kind != 'return':
                    raise
        elif k == 'return':
            raise Leave('return')
        elif k in ('break', 'continue'):
            raise Leave(k)
        elif k == 'raise':
            raise Raises('explicit raise at %s' % e.loc)
        elif is_error(e):
            raise Refused(e)


def _is_generator(func):
    import ast as _ast
    for n in _ast.walk(func.node):
        if isinstance(n, (_ast.Yield, _ast.YieldFrom)):
            return True
    return False
