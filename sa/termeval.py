"""E5b: finite evaluation of *terms* and *effect trees* (the output of absint) under one valuation of their atoms.
The rule supplies `atom(term)` (returns NOATOM to decline) and `cmp(op, a, b)` for comparisons between abstract values;
everything else is evaluated structurally with Python's short-circuit order.  Arithmetic on abstract values is refused
(Unknown): a rule built on this evaluator is only as strong as "the code touches these values through comparisons",
and it says so by failing closed when that is not the case.  No repository code is executed."""
from .terms import *

NOATOM = object()


class Raises(Exception):
    pass


class Leave(Exception):
    def __init__(self, kind, value=None):
        self.kind, self.value = kind, value


class Abs:
    """an abstract value: tag + payload, compared only through the rule's cmp hook"""
    __slots__ = ('tag', 'data')

    def __init__(self, tag, data=None):
        self.tag, self.data = tag, data

    def __repr__(self):
        return '<%s %s>' % (self.tag, self.data)

    def __eq__(self, o):
        return isinstance(o, Abs) and (self.tag, self.data) == (o.tag, o.data)

    def __hash__(self):
        return hash((self.tag, self.data))


PLAIN = (bool, int, str, type(None))
FLIP = {'Lt': 'Gt', 'Gt': 'Lt', 'LtE': 'GtE', 'GtE': 'LtE', 'Eq': 'Eq', 'NotEq': 'NotEq', 'Is': 'Is', 'IsNot': 'IsNot'}


def order_cmp(op, rel):
    """rel in {'lt','eq','gt'} (left vs right) -> truth of `left op right`"""
    return {'Lt': rel == 'lt', 'LtE': rel in ('lt', 'eq'), 'Gt': rel == 'gt', 'GtE': rel in ('gt', 'eq'),
            'Eq': rel == 'eq', 'NotEq': rel != 'eq', 'Is': rel == 'eq', 'IsNot': rel != 'eq'}[op]


class TermEval:
    def __init__(self, atom=None, cmp=None, call=None):
        self.atom = atom or (lambda t: NOATOM)
        self.cmp = cmp or (lambda op, a, b: NOATOM)
        self.call = call or (lambda t, args: NOATOM)

    def truth(self, v):
        if isinstance(v, Abs):
            if v.tag == 'obj':
                return True
            raise Unknown('truth value of abstract value %r' % (v,))
        return bool(v)

    def ev(self, t):
        r = self.atom(t)
        if r is not NOATOM:
            return r
        k = t[0]
        if k == 'const':
            return t[1]
        if k == 'not':
            return not self.truth(self.ev(t[1]))
        if k == 'bool':
            if t[1] == 'and':
                v = True
                for x in t[2]:
                    v = self.ev(x)
                    if not self.truth(v):
                        return v
                return v
            v = False
            for x in t[2]:
                v = self.ev(x)
                if self.truth(v):
                    return v
            return v
        if k == 'ite':
            return self.ev(t[2]) if self.truth(self.ev(t[1])) else self.ev(t[3])
        if k == 'cmp':
            a, b = self.ev(t[2]), self.ev(t[3])
            return self.compare(t[1], a, b)
        if k == 'bin':
            a, b = self.ev(t[2]), self.ev(t[3])
            if isinstance(a, int) and isinstance(b, int) and not isinstance(a, bool) and not isinstance(b, bool) and t[1] in BINF:
                return BINF[t[1]](a, b)
            raise Unknown('arithmetic %s on %r, %r' % (t[1], a, b))
        if k == 'un' and t[1] == 'USub':
            a = self.ev(t[2])
            if isinstance(a, int):
                return -a
            raise Unknown('negation of %r' % (a,))
        if k == 'call':
            args = [self.ev(x) for x in t[2]]
            r = self.call(t, args)
            if r is not NOATOM:
                return r
            if t[1] == S('bool') and len(args) == 1:
                return self.truth(args[0])
            if t[1] in (S('min'), S('max')) and len(args) == 2 and not t[3]:
                lt = self.compare('Lt', args[0], args[1])
                if t[1] == S('min'):
                    return args[0] if lt else args[1]
                return args[1] if lt else args[0]
            raise Unknown('call %s' % show(t)[:80])
        if k in ('tuple', 'list'):
            return Abs(k, tuple(self.ev(x) for x in t[1]))
        raise Unknown('term outside the finite evaluator: %s' % show(t)[:100])

    def compare(self, op, a, b):
        r = self.cmp(op, a, b)
        if r is not NOATOM:
            return r
        if isinstance(a, PLAIN) and isinstance(b, PLAIN):
            if op in ('Eq', 'Is'):
                return a == b if op == 'Eq' else (a is b or a == b)
            if op in ('NotEq', 'IsNot'):
                return a != b
            if a is None or b is None:
                raise Raises("TypeError: '%s' not supported between %s and %s" % (OPS[op], type(a).__name__, type(b).__name__))
            return CMPF[op](a, b)
        if isinstance(a, Abs) and isinstance(b, Abs) and a == b:
            return order_cmp(op, 'eq')
        for x, y in ((a, b), (b, a)):
            if isinstance(x, Abs) and x.tag == 'obj' and y is None:
                if op in ('Eq', 'Is'):
                    return False
                if op in ('NotEq', 'IsNot'):
                    return True
        raise Unknown('comparison %s between %r and %r' % (op, a, b))

    # ---- effect trees ------------------------------------------------------------------
    def run(self, effs, on=None):
        """Execute effects; `on(eff)` handles store-like effects (returns True when handled).  Raises Leave for
        return / continue / break.  Inlined calls resume after the callee's return."""
        for e in effs:
            k = e.kind
            if k == 'if':
                if self.truth(self.ev(e.cond)):
                    self.run(e.then, on)
                else:
                    self.run(e.orelse, on)
            elif k == 'return':
                raise Leave('return', self.ev(e.value) if e.value is not None else None)
            elif k in ('continue', 'break'):
                raise Leave(k)
            elif k == 'raise':
                raise Raises('explicit raise')
            elif k == 'call':
                try:
                    self.run(e.body, on)
                except Leave as lv:
                    if lv.kind != 'return':
                        raise
            elif k in ('callo', 'expr'):
                if on is not None:
                    on(e)
            else:
                if on is None or not on(e):
                    raise Unknown('effect %s outside the finite evaluator' % e.kind)
