"""E11: canonical forms of aggregate computations (sums, maxima, per-agent arrays, scatter counts) and equivalence modulo
bound-variable names and commutativity.  Loops, comprehensions, sum()/max()/abs() built-ins, accumulate-if-greater folds,
enumerate-style index loops and helper-extracted pieces of the same computation all arrive at one form:

   ('sum',  chain, value)              sum of value over the binder chain           (absint's own node)
   ('max0', chain, value)              max(0, max of value over the chain)
   ('max2', a, b)                      max(a, b)      (also |a - b| = max2(a-b, b-a))
   ('array', N, i, value)              list of length N whose i-th entry is value(i), i a binder over range(N)
   ('accum', array, scatter entries)   in-place scatter into an array: entries keyed by a function of the element

Used by C11 to compare each statistic helper with a reference written in this algebra (sa/spec.py)."""
import itertools

from .terms import *

_fresh = itertools.count(10 ** 6)

PURE_BUILTINS = {'len', 'str', 'sum', 'max', 'min', 'abs', 'hasattr', 'range', 'int', 'sorted', 'list', 'tuple', 'enumerate', 'zip', 'reversed', 'pow', 'bool'}
PURE_METHODS = {'count', 'join', 'index', 'format', 'split', 'strip'}


def BV(name, dom):
    return ('bvar', next(_fresh), name, dom)


_bv_memo = {}


def BVK(key, name, dom):
    """a fresh binder that is the SAME binder whenever the same construct is normalised again (rewriting is not
    memoised per occurrence, and rules compare sub-terms with ==)"""
    k = (key, name, dom)
    if k not in _bv_memo:
        _bv_memo[k] = BV(name, dom)
    return _bv_memo[k]


def RANGE(n):
    return CALL(S('range'), [n])


def is_range1(d):
    return d[0] == 'call' and d[1] == S('range') and len(d[2]) == 1 and not d[3]


def replace(t, old, new):
    """substitute every occurrence of term `old` (by equality) with `new`"""
    if t == old:
        return new
    if not isinstance(t, tuple):
        return t
    return tuple(replace(x, old, new) if isinstance(x, tuple) else x for x in t)


def replace_bvar(t, b, new):
    """substitute the bound variable with b's id (whatever domain its occurrences carry) by `new`"""
    if not isinstance(t, tuple):
        return t
    if t and t[0] == 'bvar' and t[1] == b[1]:
        return new
    return tuple(replace_bvar(x, b, new) if isinstance(x, tuple) else x for x in t)


def array_len(t):
    """length of a list-valued canonical term, or None"""
    if t[0] == 'array':
        return t[1]
    if t[0] == 'accum' and all(op in ('setidx', 'addidx', 'subidx', 'appendidx', 'extendidx') for op, _, _, _ in t[2]):
        return array_len(t[1])
    if t[0] == 'list':
        return C(len(t[1]))
    return None


def elem(arr, j):
    """canonical j-th element of a canonical array-like term"""
    if arr[0] == 'array':
        return replace(arr[3], arr[2], j)
    return I(arr, j)


def rewrite(t, f):
    """bottom-up rewrite that treats bound variables as leaves (their identity must survive)"""
    if not isinstance(t, tuple):
        return t
    if t and isinstance(t[0], str):
        if t[0] in ('const', 'bvar', 'sym'):
            return t
        new = (t[0],) + tuple(rewrite(x, f) if isinstance(x, tuple) else x for x in t[1:])
        r = f(new)
        return new if r is None else r
    return tuple(rewrite(x, f) if isinstance(x, tuple) else x for x in t)


_canon_memo = {}


def dget_in_chain(t):
    """inside an aggregate over i in range(N):  D.get(i, d) / (D[i] if i in D else d)  with D a dict comprehension  ->
    element i of the scatter of D's values over array(N, ., d)"""
    chain = t[1]
    for b, g in chain:
        if not is_range1(b[3]):
            continue
        n = b[3][2][0]
        hits = []
        for x in walk(t):
            if x[0] == 'call' and x[1][0] == 'attr' and x[1][2] == 'get' and x[1][1][0] == 'dictcomp' and len(x[2]) in (1, 2) and x[2][0] == b:
                hits.append(x)
        if not hits:
            continue
        out = t
        for x in hits:
            dc = x[1][1]
            dflt = x[2][1] if len(x[2]) == 2 else NONE
            j = BVK(('dget', x), 'i', RANGE(n))
            arr = ('accum', ('array', n, j, dflt), (('setidx', dc[2], dc[3], tuple(dc[1])),), 'dict', 0)
            out = replace(out, x, I(arr, b))
        if out != t:
            return out
    return None


def dict_scatter(t):
    """array(N, i, D.get(i, default)) with D = {key(b): val(b) for chain}  ->  scatter of val at key over array(N, i, default)"""
    if t[0] != 'array':
        return None
    n, i, v = t[1], t[2], t[3]
    if v[0] == 'call' and v[1][0] == 'attr' and v[1][2] == 'get' and v[1][1][0] == 'dictcomp' and len(v[2]) == 2 and v[2][0] == i:
        dc = v[1][1]
        return ('accum', ('array', n, i, v[2][1]), (('setidx', dc[2], dc[3], tuple(dc[1])),), 'dict', 0)
    if v[0] == 'ite' and v[1][0] == 'cmp' and v[1][1] == 'In' and v[1][2] == i and v[1][3][0] == 'dictcomp' and v[2] == I(v[1][3], i):
        dc = v[1][3]                       # D[i] if i in D else default
        return ('accum', ('array', n, i, v[3]), (('setidx', dc[2], dc[3], tuple(dc[1])),), 'dict', 0)
    return None


def canon(t):
    if t in _canon_memo:
        return _canon_memo[t]
    t0 = t
    prev = None
    n = 0
    while t != prev and n < 12:
        prev = t
        t = rewrite(t, step)
        n += 1
    _canon_memo[t0] = t
    return t


_arr_memo = {}


def as_array(t):
    if t not in _arr_memo:
        _arr_memo[t] = _as_array(t)
    return _arr_memo[t]


LIST_LEN = {'lec_targets': 'num_lecturers', 'lec_upper_quotas': 'num_lecturers', 'lec_lower_quotas': 'num_lecturers',
            'proj_upper_quotas': 'num_projects', 'proj_lower_quotas': 'num_projects', 'proj_lecturers': 'num_projects', 'pairs': 'num_students'}


def attr_list_copy(t):
    """X[:N], X[:], list(X) of a per-agent list attribute X of the model (N its length) -> [X[i] for i in range(N)]"""
    x = t
    if x[0] == 'slice' and x[2] in (NONE, C(0)):
        base, hi = x[1], x[3]
    elif x[0] == 'call' and x[1] in (S('list'), S('tuple')) and len(x[2]) == 1 and x[2][0][0] == 'attr':
        base, hi = x[2][0], NONE
    elif x[0] == 'call' and x[1][0] == 'attr' and x[1][2] == 'copy' and not x[2]:
        base, hi = x[1][1], NONE
    else:
        return None
    if base[0] != 'attr' or base[2] not in LIST_LEN:
        return None
    n = A(base[1], LIST_LEN[base[2]])
    if hi != NONE and hi != n:
        return None
    i = BVK(('copy', t), 'i', RANGE(n))
    return ('array', n, i, I(base, i))


def _as_array(t):
    """[c] * N  -> array form"""
    r = attr_list_copy(t)
    if r is not None:
        return r
    if t[0] == 'bin' and t[1] == 'Mult':
        for lst, n in ((t[2], t[3]), (t[3], t[2])):
            if lst[0] == 'list' and len(lst[1]) == 1:
                i = BV('i', RANGE(n))
                return ('array', n, i, lst[1][0])
    if t[0] == 'comp' and len(t[1]) == 1 and t[1][0][1] == TRUE and is_range1(t[1][0][0][3]):
        b = t[1][0][0]
        return ('array', b[3][2][0], b, t[2])
    if t[0] == 'comp' and len(t[1]) == 1 and t[1][0][1] == TRUE:
        b = t[1][0][0]
        d = b[3]
        if d[0] == 'call' and d[1] == S('range') and len(d[2]) == 2 and not d[3] and d[2][0][0] == 'const' and isinstance(d[2][0][1], int):
            # [v(k) for k in range(c, H)] == [v(i + c) for i in range(H - c)]
            lo, hi = d[2]
            n = lin_const(BIN('Sub', hi, lo)) or BIN('Sub', hi, lo)
            i = BVK(('shift', b[1]), 'i', RANGE(n))
            return ('array', n, i, replace(t[2], b, lin_const(BIN('Add', i, lo)) or BIN('Add', i, lo)))
    return None


def lin_parts(t):
    """t as (list of (sign, atom)), integer constant) over + and - ; atoms are arbitrary terms"""
    if t[0] == 'const' and isinstance(t[1], int) and not isinstance(t[1], bool):
        return [], t[1]
    if t[0] == 'bin' and t[1] in ('Add', 'Sub'):
        a, ca = lin_parts(t[2])
        b, cb = lin_parts(t[3])
        if t[1] == 'Add':
            return a + b, ca + cb
        return a + [(-s_, x) for s_, x in b], ca - cb
    if t[0] == 'un' and t[1] == 'USub':
        a, ca = lin_parts(t[2])
        return [(-s_, x) for s_, x in a], -ca
    if t[0] == 'bin' and t[1] == 'Mult' and C(-1) in (t[2], t[3]):
        a, ca = lin_parts(t[3] if t[2] == C(-1) else t[2])
        return [(-s_, x) for s_, x in a], -ca
    return [(1, t)], 0


def lin_build(atoms, c):
    out = None
    for s_, x in [a for a in atoms if a[0] > 0] + [a for a in atoms if a[0] < 0]:
        if out is None:
            out = x if s_ > 0 else ('un', 'USub', x)
        else:
            out = BIN('Add' if s_ > 0 else 'Sub', out, x)
    if out is None:
        return C(c)
    if c > 0:
        return BIN('Add', out, C(c))
    if c < 0:
        return BIN('Sub', out, C(-c))
    return out


def lin_const(t):
    """fold the integer constants of a +/- expression into one trailing constant; cancels x - x.  None when unchanged"""
    atoms, c = lin_parts(t)
    pos = [x for s_, x in atoms if s_ > 0]
    neg = [x for s_, x in atoms if s_ < 0]
    for x in list(pos):
        if x in neg:
            pos.remove(x)
            neg.remove(x)
    r = lin_build([(1, x) for x in pos] + [(-1, x) for x in neg], c)
    return None if r == t else r


def norm_eq(t):
    """a - 1 == i   ->   a == i + 1 : integer constants of an (in)equation gathered on one side, positive"""
    la, ca = lin_parts(t[2])
    lb, cb = lin_parts(t[3])
    if ca == 0 and cb >= 0:
        return None
    if ca == 0 and cb < 0 and not (t[3][0] == 'const'):
        pass
    d = cb - ca                  # A + ca == B + cb   <=>   A == B + d
    if t[3][0] == 'const' and ca == 0:
        return None
    if not la or (not lb and d < 0):
        return None
    if d >= 0:
        r = ('cmp', t[1], lin_build(la, 0), lin_build(lb, d))
    else:
        r = ('cmp', t[1], lin_build(la, -d), lin_build(lb, 0))
    return None if r == t else r


def norm_chain(chain, *vals):
    """binders ranging over an array become binders over range(N); returns (chain, vals) or None when nothing changed"""
    changed = False
    out = []
    vals = list(vals)
    for k, (b, g) in enumerate(chain):
        dom = canon(b[3])
        while dom[0] == 'call' and dom[1] in (S('list'), S('tuple'), S('iter'), S('sorted')) and len(dom[2]) == 1 and not dom[3] and (dom[1] != S('sorted') or True) and dom[2][0][0] in ('call', 'comp', 'array', 'accum', 'attr', 'sym', 'bvar'):
            if dom[1] == S('sorted'):
                break
            dom = dom[2][0]
        if dom[0] == 'call' and show(dom[1]).endswith('chain.from_iterable') and len(dom[2]) == 1:
            # for b in chain.from_iterable(X)  ==  for r in X for b in r
            r = BVK(('cfi', b[1]), 'r', dom[2][0])
            nb = ('bvar', b[1], b[2], r)
            def rw(x, b=b, nb=nb):
                return replace_bvar(x, b, nb)
            rest = [(rw_b(bb, rw), rw(gg)) for bb, gg in chain[k + 1:]]
            vals = [rw(v) for v in vals]
            return tuple(out) + ((r, TRUE), (nb, rw(g))) + tuple(rest), vals
        if dom[0] == 'call' and dom[1] == S('range') and len(dom[2]) == 2 and not dom[3] and dom[2][0][0] == 'const' and isinstance(dom[2][0][1], int) and dom[2][0][1] != 0:
            # for k in range(c, H)  ==  for i in range(H - c) with k := i + c
            lo, hi = dom[2]
            n_ = lin_const(BIN('Sub', hi, lo)) or BIN('Sub', hi, lo)
            i = BVK(('shift', b[1]), 'i', RANGE(n_))
            k_ = lin_const(BIN('Add', i, lo)) or BIN('Add', i, lo)
            def rw(x, b=b, k_=k_):
                return replace(x, b, k_)
            rest = [(rw_b(bb, rw), rw(gg)) for bb, gg in chain[k + 1:]]
            vals = [rw(v) for v in vals]
            return tuple(out) + ((i, rw(g)),) + tuple(rest), vals
        conj = list(g[2]) if (g[0] == 'bool' and g[1] == 'and') else [g]
        from .shapes import drop_placeholders, notnone_forms
        nn = [c for c in conj if c in notnone_forms(b)]
        if nn and b[3][0] == 'accum':
            # for b in PER_ROW if b is not None, PER_ROW = per row `chosen or [None]`: the placeholders vanish
            flat = drop_placeholders(('comp', ((b, nn[0]),), b))
            if flat[1] != ((b, nn[0]),):
                def rw(x, v2=flat[2]):
                    return replace(x, b, v2)
                inner = list(flat[1])
                restg = [c for c in conj if c not in nn]
                inner[-1] = (inner[-1][0], AND(inner[-1][1], *[rw(c) for c in restg]))
                rest = [(rw_b(bb, rw), rw(gg)) for bb, gg in chain[k + 1:]]
                vals = [rw(v) for v in vals]
                return tuple(out) + tuple(inner) + tuple(rest), vals
        ge = group_elem(dom)
        if ge is not None:
            # for b in GROUPS[j]  ==  for the scattered elements whose key is j, in scatter order
            ch2, key, val, j = ge
            def rw(x, val=val):
                return replace(x, b, val)
            inner = list(ch2)
            inner[-1] = (inner[-1][0], AND(inner[-1][1], CMP('Eq', key, j), rw(g)))
            rest = [(rw_b(bb, rw), rw(gg)) for bb, gg in chain[k + 1:]]
            vals = [rw(v) for v in vals]
            return tuple(out) + tuple(inner) + tuple(rest), vals
        n = array_len(dom) if dom[0] in ('array', 'accum') else None
        if n is not None:
            i = BVK(('arr', b[1]), 'i', RANGE(n))
            el = elem(dom, i)
            def rw(x):
                x = replace(x, ('indexof', b), i)
                return replace(x, b, el)
            g = rw(g)
            rest = [(rw_b(bb, rw), rw(gg)) for bb, gg in chain[k + 1:]]
            vals = [rw(v) for v in vals]
            out.append((i, g))
            out += rest
            return tuple(out), vals
        if dom[0] == 'comp':
            # fuse: for b in [v2 for chain2]  ==  for chain2 with b := v2
            def rw(x, v2=dom[2]):
                return replace(x, b, v2)
            inner = list(dom[1])
            inner[-1] = (inner[-1][0], AND(inner[-1][1], rw(g)))
            rest = [(rw_b(bb, rw), rw(gg)) for bb, gg in chain[k + 1:]]
            vals = [rw(v) for v in vals]
            return tuple(out) + tuple(inner) + tuple(rest), vals
        out.append((b, g))
    return None


def group_elem(t):
    """GROUPS[j] with GROUPS = [[] for i in range(N)] filled by one GROUPS[key].append(val) per element of a chain
    -> (chain, key, val, j)"""
    if t[0] == 'idx' and t[1][0] == 'accum' and t[1][1][0] == 'array' and t[1][1][3] == ('list', ()) and len(t[1][2]) == 1 and t[1][2][0][0] == 'appendidx' \
            and not contains(t[1], lambda x: x[0] in ('carried', 'prefix')):
        op, key, val, ch = t[1][2][0]
        return ch, key, val, t[2]
    return None


def rw_b(b, rw):
    return ('bvar', b[1], b[2], rw(b[3]))


def max_guard(g, v):
    """guard `v > carried` / `carried < v` (or >=) -> True"""
    if g[0] == 'cmp':
        if g[1] in ('Gt', 'GtE') and g[2] == v and g[3][0] == 'carried':
            return True
        if g[1] in ('Lt', 'LtE') and g[3] == v and g[2][0] == 'carried':
            return True
    return False


def doc_term(items):
    """document items -> canonical string term ('fstr', parts): literals merged, holes without their str() wrapper,
    repetitions as ('srep', chain, inner, sep), alternatives as ite"""
    from . import doc
    parts = []
    for it_ in items:
        if isinstance(it_, doc.Lit):
            parts.append(C(it_.text))
        elif isinstance(it_, doc.Hole):
            parts.append(it_.term if it_.sep is None else ('sjoin', C(it_.sep), it_.term))
        elif isinstance(it_, doc.Rep):
            parts.append(('srep', tuple(it_.chain), doc_term(it_.items), C(it_.sep)))
        elif isinstance(it_, doc.Alt):
            parts.append(('ite', it_.cond, doc_term(it_.a), doc_term(it_.b)))
    if len(parts) == 1 and parts[0][0] in ('ite', 'fstr'):
        return parts[0]
    flat = []
    for p_ in parts:
        if p_[0] == 'fstr':
            flat += list(p_[1])
        else:
            flat.append(p_)
    merged = []
    for p_ in flat:
        if p_[0] == 'const' and isinstance(p_[1], str) and merged and merged[-1][0] == 'const' and isinstance(merged[-1][1], str):
            merged[-1] = C(merged[-1][1] + p_[1])
        elif p_ == C(''):
            continue
        else:
            merged.append(p_)
    return ('fstr', tuple(merged))


def string_step(t):
    from . import doc
    k = t[0]
    is_str = (k == 'bin' and t[1] == 'Add' and doc.stringy(t)) or (k == 'sum' and doc.stringy(t[2])) \
        or (k == 'call' and t[1][0] == 'attr' and t[1][2] == 'join' and t[1][1][0] == 'const' and isinstance(t[1][1][1], str) and len(t[2]) == 1) \
        or (k == 'fstr' and any(x[0] == 'fstr' or (x[0] == 'call' and x[1] == S('str')) or x == C('') for x in t[1])) \
        or (k == 'fstr' and any(a[0] == 'const' and isinstance(a[1], str) and b[0] == 'const' and isinstance(b[1], str) for a, b in zip(t[1], t[1][1:])))
    if not is_str:
        return None
    r = doc_term(doc.doc_of(t))
    return None if r == t else r


def rotate_rep(t):
    """A (c X)* c S  ==  A c (X c)* S : a repeated item that starts with the literal the following text starts with is
    rewritten to END with that literal (canonical form of separator-like literals)"""
    parts = list(t[1])
    for k, p_ in enumerate(parts):
        if p_[0] != 'srep' or p_[3] not in (C(None), C('')) or k + 1 >= len(parts):
            continue
        inner = p_[2]
        if inner[0] != 'fstr' or not inner[1] or inner[1][0][0] != 'const' or not isinstance(inner[1][0][1], str):
            continue
        nxt = parts[k + 1]
        if nxt[0] != 'const' or not isinstance(nxt[1], str):
            continue
        head = inner[1][0][1]
        # the whole leading literal of the item must be a prefix of the text that follows the repetition
        if not head or not nxt[1].startswith(head) or len(inner[1]) < 2:
            continue
        body = list(inner[1][1:])
        if body[-1][0] == 'const' and isinstance(body[-1][1], str):
            body[-1] = C(body[-1][1] + head)
        else:
            body.append(C(head))
        new_parts = parts[:k]
        if new_parts and new_parts[-1][0] == 'const' and isinstance(new_parts[-1][1], str):
            new_parts[-1] = C(new_parts[-1][1] + head)
        else:
            new_parts.append(C(head))
        new_parts.append(('srep', p_[1], ('fstr', tuple(body)), p_[3]))
        rest = nxt[1][len(head):]
        if rest:
            new_parts.append(C(rest))
        new_parts += parts[k + 2:]
        return ('fstr', tuple(new_parts))
    return None


NEG_CMP = {'Eq': 'NotEq', 'NotEq': 'Eq', 'Is': 'IsNot', 'IsNot': 'Is', 'In': 'NotIn', 'NotIn': 'In'}


def is_str_valued(t):
    if t[0] == 'const':
        return isinstance(t[1], str)
    if t[0] in ('fstr', 'sjoin', 'srep'):
        return True
    if t[0] == 'idx':
        return is_str_valued(t[1])
    if t[0] == 'array':
        return is_str_valued(t[3])
    if t[0] == 'accum':
        return is_str_valued(t[1]) and all(is_str_valued(e[2]) for e in t[2])
    if t[0] == 'ite':
        return is_str_valued(t[2]) and is_str_valued(t[3])
    return False


def step(t):
    if t[0] == 'accum' and t[1][0] == 'array' and t[1][3] == ('tuple', ()) and t[2] and all(op == 'addidx' and v[0] == 'tuple' and len(v[1]) == 1 for op, _, v, _ in t[2]):
        # slots[k] += (x,) on a table of empty tuples: the group of the x filed under k, like slots[k].append(x) on lists
        return ('accum', ('array', t[1][1], t[1][2], ('list', ())), tuple(('appendidx', k_, v_[1][0], ch_) for _, k_, v_, ch_ in t[2])) + tuple(t[3:])
    if t[0] == 'not' and t[1][0] == 'cmp' and t[1][1] in NEG_CMP:
        return ('cmp', NEG_CMP[t[1][1]], t[1][2], t[1][3])
    if t[0] == 'fstr' and len(t[1]) == 1 and t[1][0][0] in ('idx', 'ite') and is_str_valued(t[1][0]):
        return t[1][0]                      # str() of a string
    if t[0] == 'array' and t[3][0] == 'idx' and t[3][2] == t[2] and array_len(t[3][1]) == t[1] and not contains(t[3][1], lambda x: x == t[2]):
        return t[3][1]                      # [X[i] for i in range(len(X))] == X
    if t[0] == 'bool' and t[1] == 'and':
        # `x.attr ... and x is not None`: an operand evaluated after x was dereferenced cannot find x to be None
        ops = list(t[2])
        for i_, o in enumerate(ops):
            if o[0] == 'cmp' and o[1] in ('NotEq', 'IsNot') and o[3] == NONE and o[2][0] == 'bvar' \
                    and any(contains(p_, lambda y: y[0] == 'attr' and y[1] == o[2]) and not contains(p_, lambda y: y[0] in ('ite', 'bool')) for p_ in ops[:i_]):
                return AND(*(ops[:i_] + ops[i_ + 1:]))
    if t[0] == 'fstr' and t[1] and all(x[0] == 'const' and isinstance(x[1], (str, int)) and not isinstance(x[1], bool) for x in t[1]):
        return C(''.join(str(x[1]) for x in t[1]))          # str(0) is '0'
    if t[0] == 'array' and t[3][0] != 'idx':
        # [f(X[i]) for i in range(N)] with X an overwrite-scatter into an array of N defaults: f moves into the scatter
        # (the last value written to a slot, or the default, is what f is applied to)
        hits = [x for x in walk(t[3]) if x[0] == 'idx' and x[2] == t[2] and x[1][0] == 'accum' and x[1][1][0] == 'array']
        if len(hits) == 1 and sum(1 for x in walk(t[3]) if x == t[2]) == 1:
            acc = hits[0][1]
            if acc[1][1] == t[1] and acc[2] and all(e[0] == 'setidx' for e in acc[2]) and not contains(acc, lambda x: x == t[2]) \
                    and not contains(acc, lambda x: x[0] in ('carried', 'prefix')):
                f = lambda v: replace(t[3], hits[0], v)
                return ('accum', ('array', acc[1][1], acc[1][2], f(acc[1][3])), tuple((op, k_, f(v_), ch_) for op, k_, v_, ch_ in acc[2])) + tuple(acc[3:])
    r = string_step(t)
    if r is not None:
        return r
    if t[0] == 'fstr':
        r = rotate_rep(t)
        if r is not None:
            return r
    r = dict_scatter(t)
    if r is not None:
        return r
    k = t[0]
    if k == 'bin':
        op, a, b = t[1], t[2], t[3]
        if op == 'Add' and a == C(0) and b[0] in ('sum', 'max0'):
            return b
        if op == 'Add' and b == C(0) and a[0] in ('sum', 'max0'):
            return a
        if op == 'Pow' and a[0] == 'ite' and a[3] == C(0) and b[0] == 'const' and isinstance(b[1], int) and b[1] >= 1:
            return ('ite', a[1], BIN('Pow', a[2], b), C(0))          # (x if c else 0) ** e
        if op == 'Pow' and b == C(2):
            return BIN('Mult', a, a)
        if op == 'Pow' and b == C(1):
            return a
        if op in ('Add', 'Sub'):
            r = lin_const(t)
            if r is not None:
                return r
        ar = as_array(t)
        if ar is not None:
            return ar
        return None
    if k in ('slice', 'call'):
        r = attr_list_copy(t)
        if r is not None:
            return r
    if k == 'comp':
        from .shapes import drop_placeholders
        dp = drop_placeholders(t)
        if dp is not t and dp != t:
            return dp
        nc = norm_chain(t[1], t[2])
        if nc is not None:
            return ('comp', nc[0], nc[1][0])
        return as_array(t)
    if k == 'cat':
        parts = [p for p in t[1] if p != ('list', ())]
        if len(parts) == 1:
            return parts[0]
        return None
    if k == 'sum':
        nc = norm_chain(t[1], t[2])
        if nc is not None:
            return ('sum', nc[0], nc[1][0])
        if t[2][0] == 'ite' and t[2][3] == C(0):
            # sum(x if c else 0 for ...) == sum(x for ... if c)
            return ('sum', t[1][:-1] + ((t[1][-1][0], AND(t[1][-1][1], t[2][1])),), t[2][2])
        return dget_in_chain(t)
    if k == 'distinct':
        nc = norm_chain(t[1], t[2])
        if nc is not None:
            return ('distinct', nc[0], nc[1][0])
        return None
    if k == 'srep':
        nc = norm_chain(t[1], t[2])
        if nc is not None:
            return ('srep', nc[0], nc[1][0], t[3])
        r = dget_in_chain(t)
        if r is not None:
            return r
        ch, inner, sep = t[1], t[2], t[3]
        if sep != C(None) and len(ch) == 1 and ch[0][1] == TRUE and is_range1(ch[0][0][3]) and ((inner[0] == 'fstr' and len(inner[1]) == 1) or (inner[0] != 'fstr' and is_str_valued(inner))):
            # sep.join(str(v(i)) for i in range(N))  ==  sep.join(array)
            return ('sjoin', sep, ('array', ch[0][0][3][2][0], ch[0][0], inner))
        return None
    if k == 'sjoin':
        ge = group_elem(t[2])
        if ge is not None and is_str_valued(ge[2]):
            # sep.join(GROUPS[j]) with GROUPS filled by appending string pieces: the pieces of j, in order
            ch2, key, val, j = ge
            ch3 = ch2[:-1] + ((ch2[-1][0], AND(ch2[-1][1], CMP('Eq', key, j))),)
            return ('fstr', (('srep', ch3, val if val[0] == 'fstr' else ('fstr', (val,)), t[1]),))
        return None
    if k == 'max0':
        nc = norm_chain(t[1], t[2])
        if nc is not None:
            return ('max0', nc[0], nc[1][0])
        return None
    if k == 'idx' and t[1][0] == 'array':
        return elem(t[1], t[2])
    if k == 'idx' and t[1][0] == 'call' and t[1][1] in (S('Counter'), A(S('collections'), 'Counter')) and len(t[1][2]) == 1 and t[1][2][0][0] == 'comp':
        x = t[1][2][0]                     # Counter(v for chain)[k] == number of chain elements with v == k
        ch = x[1][:-1] + ((x[1][-1][0], AND(x[1][-1][1], CMP('Eq', x[2], t[2]))),)
        return ('sum', ch, C(1))
    if k == 'idx' and t[1][0] == 'accum' and t[1][1][0] == 'array' and t[1][1][3] in (C(''), ('fstr', ())) and len(t[1][2]) == 1 and t[1][2][0][0] == 'addidx' \
            and is_str_valued(t[1][2][0][2]) and not contains(t[1], lambda x: x[0] in ('carried', 'prefix')):
        # element j of a scatter of string pieces: the pieces scattered to j, concatenated in scatter order
        op, idx, val, ch = t[1][2][0]
        ch2 = ch[:-1] + ((ch[-1][0], AND(ch[-1][1], CMP('Eq', idx, t[2]))),)
        return ('fstr', (('srep', ch2, val if val[0] == 'fstr' else ('fstr', (val,)), C(None)),))
    if k == 'idx' and t[1][0] == 'accum' and t[1][1][0] == 'array' and t[1][2] and all(e[0] in ('addidx', 'subidx') for e in t[1][2]) \
            and not contains(t[1], lambda x: x[0] in ('carried', 'prefix')):
        # element j of an additive scatter: the base element plus the sum of the values scattered to j
        base = elem(t[1][1], t[2])
        out = None if base == C(0) else base
        for op, idx, val, ch in t[1][2]:
            ch2 = ch[:-1] + ((ch[-1][0], AND(ch[-1][1], CMP('Eq', idx, t[2]))),)
            term = ('sum', ch2, val)
            if op == 'addidx':
                out = term if out is None else BIN('Add', out, term)
            else:
                out = BIN('Sub', C(0) if out is None else out, term)
        return out
    if k == 'cmp' and t[1] in ('Eq', 'NotEq'):
        r = norm_eq(t)
        if r is not None:
            return r
    if k == 'ite':
        c, a, b = t[1], t[2], t[3]
        if c[0] == 'cmp' and c[1] in ('Gt', 'GtE') and ((c[2] == a and c[3] == b)):
            return ('max2', a, b)
        if c[0] == 'cmp' and c[1] in ('Lt', 'LtE') and ((c[2] == b and c[3] == a)):
            return ('max2', a, b)
        if c[0] == 'cmp' and c[1] in ('Lt', 'LtE') and c[2] == a and c[3] == b:
            return ('min2', a, b)
        return None
    if k == 'call':
        f, args, kw = t[1], t[2], dict(t[3])
        if f in (S('chain'), A(S('itertools'), 'chain')) and args and not kw and all(a[0] in ('list', 'tuple', 'comp', 'cat', 'accum', 'array') for a in args):
            return ('cat', tuple(('list', a[1]) if a[0] == 'tuple' else a for a in args))
        if f == S('map') and len(args) == 2 and not kw:
            # map(g, X) = [g(x) for x in X]   (g an attrgetter / itemgetter / function value: applied as a call term, which
            # the term simplifier turns into the attribute or item)
            b = BVK(('map', t), 'x', args[1])
            return ('comp', ((b, TRUE),), simp(CALL(args[0], [b])) or CALL(args[0], [b]))
        if f in (A(S('chain'), 'from_iterable'), A(A(S('itertools'), 'chain'), 'from_iterable')) and len(args) == 1 and not kw:
            # chain.from_iterable(rows) = [x for row in rows for x in row]
            x = args[0]
            if x[0] == 'comp':
                inner = BVK(('flat', t), 'x', x[2])
                return ('comp', tuple(x[1]) + ((inner, TRUE),), inner)
            row = BVK(('flatrow', t), 'row', x)
            inner = BVK(('flat', t), 'x', row)
            return ('comp', ((row, TRUE), (inner, TRUE)), inner)
        if f == S('str') and len(args) == 1 and not kw:
            return ('fstr', (args[0],))
        if f == S('pow') and len(args) == 2 and args[1] == C(2):
            return BIN('Mult', args[0], args[0])
        if f == S('pow') and len(args) == 2 and args[1] == C(1):
            return args[0]
        if f[0] == 'attr' and f[2] == 'split' and not kw and (not args or args == (C(' '),)):
            # ' '.join(X).split(): X again, when every element of X is a non-empty token without blanks ('0', str(<number>))
            x = f[1]
            while x[0] == 'fstr' and len(x[1]) == 1:
                x = x[1][0]
            if x[0] == 'sjoin' and x[1] == C(' '):
                def atomic(e):
                    if e[0] == 'const':
                        return isinstance(e[1], str) and e[1] != '' and not any(ch.isspace() for ch in e[1])
                    if e[0] == 'fstr':
                        return bool(e[1]) and all((p_[0] == 'const' and isinstance(p_[1], str) and not any(ch.isspace() for ch in p_[1])) or
                                                  (p_[0] == 'attr' and p_[2] in ('projectID', 'studentID', 'lecturerID')) for p_ in e[1]) \
                            and any(p_[0] == 'attr' or (p_[0] == 'const' and p_[1] != '') for p_ in e[1])
                    return False
                arr = x[2]
                elems = []
                if arr[0] == 'accum' and arr[1][0] == 'array':
                    elems = [arr[1][3]] + [v_ for _, _, v_, _ in arr[2]]
                elif arr[0] == 'array':
                    elems = [arr[3]]
                if elems and all(atomic(e) for e in elems):
                    return arr
        if f[0] == 'attr' and f[2] == 'count' and len(args) == 1 and not kw and f[1][0] in ('comp', 'array', 'accum'):
            # X.count(k) == number of elements of X equal to k
            x = f[1]
            if x[0] == 'comp':
                ch = x[1][:-1] + ((x[1][-1][0], AND(x[1][-1][1], CMP('Eq', x[2], args[0]))),)
                return ('sum', ch, C(1))
            b = BVK(('count', t), 'e', x)
            return ('sum', ((b, CMP('Eq', b, args[0])),), C(1))
        if f in (S('Counter'), A(S('collections'), 'Counter')):
            return None
        if f[0] == 'attr' and f[2] == 'get' and len(args) == 2 and args[1] == C(0) and f[1][0] == 'call' and f[1][1] in (S('Counter'), A(S('collections'), 'Counter')) \
                and len(f[1][2]) == 1 and f[1][2][0][0] == 'comp':
            x = f[1][2][0]
            ch = x[1][:-1] + ((x[1][-1][0], AND(x[1][-1][1], CMP('Eq', x[2], args[0]))),)
            return ('sum', ch, C(1))
        if f == S('abs') and len(args) == 1 and args[0][0] == 'bin' and args[0][1] == 'Sub':
            a, b = args[0][2], args[0][3]
            return ('max2', BIN('Sub', a, b), BIN('Sub', b, a))
        if f == S('abs') and len(args) == 1 and args[0][0] == 'bin' and args[0][1] in ('Add', 'Mult'):
            atoms, c_ = lin_parts(args[0])
            pos = [x for s_, x in atoms if s_ > 0]
            neg = [x for s_, x in atoms if s_ < 0]
            if c_ == 0 and len(pos) == 1 and len(neg) == 1:
                return ('max2', BIN('Sub', pos[0], neg[0]), BIN('Sub', neg[0], pos[0]))
        if f == S('max') and len(args) == 2 and not kw:
            return ('max2', args[0], args[1])
        if f == S('getattr') and len(args) == 3 and args[1][0] == 'const' and isinstance(args[1][1], str) and not kw:
            return ('ite', CALL(S('hasattr'), [args[0], args[1]]), A(args[0], args[1][1]), args[2])
        if f == S('len') and len(args) == 1:
            x = args[0]
            # number of distinct keys: len(set(key for chain)) / len of a set filled by add()
            if x[0] == 'call' and x[1] in (S('set'), S('frozenset')) and len(x[2]) == 1 and x[2][0][0] == 'comp':
                return ('distinct', x[2][0][1], x[2][0][2])
            if x[0] == 'setcomp':
                return ('distinct', x[1], x[2])
            if x[0] == 'accum' and x[1] in (CALL(S('set'), []), ('set', ())) and len(x[2]) == 1 and x[2][0][0] == 'setadd' \
                    and not contains(x, lambda y: y[0] in ('carried', 'prefix')):
                return ('distinct', x[2][0][3], x[2][0][2])
            n = array_len(args[0])
            if n is not None:
                return n
            if x[0] == 'comp':
                return ('sum', x[1], C(1))          # the length of a comprehension does not depend on what it collects
            ge = group_elem(args[0])
            if ge is not None:
                ch2, key, val, j = ge
                return ('sum', ch2[:-1] + ((ch2[-1][0], AND(ch2[-1][1], CMP('Eq', key, j))),), C(1))
        if f in (S('list'), S('tuple')) and len(args) == 1 and args[0][0] in ('array', 'comp', 'accum', 'list'):
            return args[0]
        if f == S('sum') and len(args) == 1 and not kw:
            x = args[0]
            if x[0] == 'comp':
                return ('sum', x[1], x[2])
            if x[0] in ('array', 'accum'):
                b = BVK('sum', 'e', x)
                return ('sum', ((b, TRUE),), b)
        if f == S('max') and len(args) == 1:
            x = args[0]
            zero_first = False
            if x[0] == 'bin' and x[1] == 'Add' and x[2] == ('list', (C(0),)):
                x, zero_first = x[3], True
            elif x[0] == 'cat' and len(x[1]) == 2 and x[1][0] == ('list', (C(0),)):
                x, zero_first = x[1][1], True
            elif kw.get('default') == C(0):
                zero_first = True
            if zero_first:
                if x[0] == 'comp':
                    return ('max0', x[1], x[2])
                if x[0] in ('array', 'accum'):
                    b = BVK('max', 'e', x)
                    return ('max0', ((b, TRUE),), b)
        return None
    if k == 'accum':
        pre, entries = t[1], t[2]
        # max fold
        if pre == C(0) and len(entries) == 1:
            op, idx, val, ch = entries[0]
            if op == 'assign' and ch:
                b, g = ch[-1]
                conj = list(g[2]) if (g[0] == 'bool' and g[1] == 'and') else [g]
                mg = [c for c in conj if max_guard(c, val)]
                if mg:
                    rest = [c for c in conj if c not in mg]
                    return ('max0', ch[:-1] + ((b, AND(*rest) if rest else TRUE),), val)
                if g == TRUE and val[0] == 'max2' and any(x[0] == 'carried' for x in val[1:]):
                    v = [x for x in val[1:] if x[0] != 'carried'][0]
                    return ('max0', ch, v)
        n = array_len(pre) if pre[0] in ('array', 'accum') else None
        if n is None:
            return None
        # binders over arrays -> range binders
        new_entries = []
        changed = False
        for op, idx, val, ch in entries:
            nc = norm_chain(ch, idx, val)
            if nc is not None:
                ch, (idx, val) = nc[0], nc[1]
                changed = True
            new_entries.append((op, idx, val, ch))
        if changed:
            return ('accum', pre, tuple(new_entries)) + tuple(t[3:])
        # leading scatter entries stay; trailing pointwise entries (index == own range binder over range(N)) fold into an array
        def pointwise(en):
            op, idx, val, ch = en
            return len(ch) == 1 and is_range1(ch[0][0][3]) and ch[0][0][3][2][0] == n and idx == ch[0][0] and op in ('setidx', 'addidx')
        cut = len(entries)
        while cut > 0 and pointwise(entries[cut - 1]):
            cut -= 1
        if cut == len(entries):
            return None
        base = pre if cut == 0 else ('accum', pre, tuple(entries[:cut])) + tuple(t[3:])
        i = BVK(('pw', t), 'i', RANGE(n))
        cur = elem(base, i)
        for op, idx, val, ch in entries[cut:]:
            b, g = ch[0]
            v = replace(val, b, i)
            gg = replace(g, b, i)
            new = v if op == 'setidx' else BIN('Add', cur, v)
            cur = new if gg == TRUE else ('ite', gg, new, cur)
        return ('array', n, i, simp_ite(cur))
    return None


def simp_ite(t):
    """ite(g, a, ite(not g, b, c)) -> ite(g, a, b);  ite(not g, b, ite(g, a, c)) -> ite(g, a, b)"""
    def f(x):
        if x[0] == 'ite' and x[2][0] == 'ite' and x[2][1] == x[1]:
            return ('ite', x[1], x[2][2], x[3])
        if x[0] == 'ite' and x[3][0] == 'ite' and x[3][1] == x[1]:
            return ('ite', x[1], x[2], x[3][3])
        if x[0] == 'ite' and x[3][0] == 'ite':
            g, a, inner = x[1], x[2], x[3]
            if inner[1] == NOT(g) or g == NOT(inner[1]):
                return ('ite', g, a, inner[2])
        if x[0] == 'ite' and x[2][0] == 'ite':
            # built in program order: ite(g2, new2, ite(g1, new1, cur)) with g2 == not g1
            pass
        if x[0] == 'ite' and x[1][0] == 'not':
            return ('ite', x[1][1], x[3], x[2])
        return None
    prev = None
    while prev != t:
        prev = t
        t = rewrite(t, f)
    return t


# ---- equivalence modulo alpha and commutativity ----------------------------------------------------------------------
COMMUT_BIN = {'Add', 'Mult'}
SYM_CMP = {'Eq', 'NotEq'}
FLIP_CMP = {'Lt': 'Gt', 'Gt': 'Lt', 'LtE': 'GtE', 'GtE': 'LtE'}


def equiv(a, b, env=None):
    """structural equality up to renaming of bound variables / loop ids and commutativity of + * max2 and or == !="""
    env = {} if env is None else env
    r = _eq(a, b, env)
    return r is not None


def _eq(a, b, env):
    """returns the extended env or None"""
    if not isinstance(a, tuple) or not isinstance(b, tuple):
        return env if a == b else None
    if not a or not b:
        return env if a == b else None
    if not isinstance(a[0], str) or not isinstance(b[0], str):
        if isinstance(a[0], str) or isinstance(b[0], str) or len(a) != len(b):
            return None
        for x, y in zip(a, b):
            env = _eq(x, y, env)
            if env is None:
                return None
        return env
    if a[0] != b[0]:
        return None
    k = a[0]
    if k == 'bvar':
        key = ('b', a[1])
        if key in env:
            return env if env[key] == b[1] else None
        if b[1] in {v for kk, v in env.items() if kk[0] == 'b'}:
            return None
        e2 = _eq(a[3], b[3], env)
        if e2 is None:
            return None
        e2 = dict(e2)
        e2[key] = b[1]
        return e2
    if k in ('carried', 'prefix'):
        key = ('l', a[2])
        if key in env:
            return env if env[key] == b[2] else None
        e2 = dict(env)
        e2[key] = b[2]
        return e2
    if k == 'const':
        return env if (a[1] == b[1] and type(a[1]) == type(b[1])) else None
    if k == 'accum':
        e = _eq(a[1], b[1], env)
        if e is None or len(a[2]) != len(b[2]):
            return None
        outer = e
        for x, y in zip(a[2], b[2]):
            if x[0] != y[0]:
                return None
            e = _eq_chain(x[3], y[3], outer)
            if e is None:
                return None
            e = _eq(x[1], y[1], e)
            if e is None:
                return None
            e = _eq(x[2], y[2], e)
            if e is None:
                return None
        return outer
    if k in ('sum', 'max0', 'comp', 'srep', 'dictcomp', 'distinct'):
        # binders are local to the aggregate: bindings made inside do not leak (the same reference binder may serve
        # several aggregates while the candidate has fresh ones in each)
        e = _eq_chain(a[1], b[1], env)
        if e is None:
            return None
        if k == 'srep' and a[3] in (C(''), C(None)) and b[3] in (C(''), C(None)):
            a, b = a[:3], b[:3]              # ''.join(pieces) is plain concatenation
        for x, y in zip(a[2:], b[2:]):
            e = _eq(x, y, e)
            if e is None:
                return None
        return env
    if k == 'array':
        e = _eq(a[1], b[1], env)
        if e is None:
            return None
        e = _eq(a[2], b[2], e)
        if e is None:
            return None
        return env if _eq(a[3], b[3], e) is not None else None
    if (k == 'bin' and a[1] == b[1] and a[1] in COMMUT_BIN) or (k == 'cmp' and a[1] == b[1] and a[1] in SYM_CMP):
        for x, y in (((a[2], a[3]), (b[2], b[3])), ((a[2], a[3]), (b[3], b[2]))):
            e = _eq(x[0], y[0], env)
            if e is not None:
                e = _eq(x[1], y[1], e)
                if e is not None:
                    return e
        return None
    if k == 'cmp' and a[1] != b[1]:
        if FLIP_CMP.get(a[1]) == b[1]:
            e = _eq(a[2], b[3], env)
            return None if e is None else _eq(a[3], b[2], e)
        return None
    if k in ('max2', 'min2'):
        for y in ((b[1], b[2]), (b[2], b[1])):
            e = _eq(a[1], y[0], env)
            if e is not None:
                e = _eq(a[2], y[1], e)
                if e is not None:
                    return e
        return None
    if k == 'bool':
        if a[1] != b[1] or len(a[2]) != len(b[2]):
            return None
        for perm in itertools.permutations(b[2]):
            e = env
            for x, y in zip(a[2], perm):
                e = _eq(x, y, e)
                if e is None:
                    break
            if e is not None:
                return e
        return None
    if len(a) != len(b):
        return None
    e = env
    for x, y in zip(a[1:], b[1:]):
        if isinstance(x, tuple) or isinstance(y, tuple):
            e = _eq(x, y, e)
            if e is None:
                return None
        elif x != y:
            return None
    return e


def _eq_chain(ca, cb, env):
    if len(ca) != len(cb):
        return None
    e = env
    for (ba, ga), (bb, gb) in zip(ca, cb):
        e = _eq(ba, bb, e)
        if e is None:
            return None
        e = _eq(ga, gb, e)
        if e is None:
            return None
    return e


def closed(t, params=()):
    """None when the term is built only from the algebra above over the given parameter symbols, model data and pure
    built-ins; otherwise a description of the first foreign sub-term."""
    for x in walk(t):
        k = x[0]
        if k == 'top':
            return 'unknown value (%s)' % (x[1],)
        if k == 'call':
            f = x[1]
            if f[0] == 'sym' and f[1] in PURE_BUILTINS:
                continue
            if f[0] == 'attr' and f[2] in PURE_METHODS:
                continue
            return 'call of %s' % show(f)[:60]
        if k in ('stale', 'obj', 'lpvar', 'lpproblem', 'upd', 'fold', 'wsum'):
            return k
        if k == 'accum' and any(e[0] not in ('setidx', 'addidx') for e in x[2]):
            return 'sequential accumulation (%s) without a normal form' % ', '.join(sorted({e[0] for e in x[2]}))
        if k in ('carried', 'prefix'):
            return 'loop-carried value'
    return None
