"""C06 -- the stability checker answers True exactly for matchings without a blocking pair (DESIGN.md section 5, C06).

R1 decision table: the effect tree of check_stability (helpers and closures inlined, local assignments kept as
   evaluation points) is executed by the finite term evaluator for one representative (student row, acceptable pair)
   on every feasible valuation of the atomic comparisons, Python's short-circuit order, and compared with the
   blocking-pair definition; any TypeError / AttributeError / KeyError / ValueError path is a violation ("always
   returns a boolean").  Atoms are recognised by what a term computes (its provenance), not by its name.
R2 structure schemas recognised from the computing term: count per project/lecturer skipping None; worst = max
   rank_lecturer, None when empty; groups of assignees (list or dict) with len()/max() over them.
R3 quantification: all rows x all pairs of the row; False at the first hit, True after the loops (or all()/not any()
   over the same comprehension); a loop over a proper part of the rows / of a row is a violation.
R4 the caller prints exactly this value for the per-student list aligned with `pairs`."""
import ast, itertools

from ..terms import *
from ..absint import Interp, iter_effects
from ..loader import AnalysisError
from .. import lp

RULES = {
    'C06.R1': 'decision table of the per-pair verdict (atoms by provenance, all feasible valuations, 3-valued) equals the SPA-STL blocking-pair definition and never errs',
    'C06.R2': 'helper schemas: assignment counts per project / lecturer skip None; worst rank = max rank_lecturer of the assignees, None when there is none',
    'C06.R3': 'every acceptable pair of every student is examined; the function returns False at the first blocking pair and True otherwise',
    'C06.R4': 'get_results prints str(check_stability(per-student assignment list with None)) as stability_correct, only when stability was requested',
}

ATOMS = ['UNASSIGNED', 'ISSELF', 'PREFERS', 'SEQ', 'PU', 'LU', 'SAME', 'WP_NONE', 'WL_NONE', 'PPREF', 'PEQ', 'LPREF', 'LEQ']


def spec_blocks(v):
    W = v['UNASSIGNED'] or v['PREFERS']
    lpref = (not v['WL_NONE']) and v['LPREF']
    ppref = (not v['WP_NONE']) and v['PPREF']
    same = (not v['UNASSIGNED']) and v['SAME']
    return W and ((v['PU'] and v['LU']) or (v['PU'] and not v['LU'] and (same or lpref)) or ((not v['PU']) and ppref))


def feasible(v):
    if v['UNASSIGNED'] and (v['PREFERS'] or v['SEQ'] or v['SAME']):
        return False                         # comparisons with an absent assignment carry no information: fix them to False
    if v['PREFERS'] and v['SEQ']:
        return False
    if v['ISSELF'] and (v['UNASSIGNED'] or not v['SEQ'] or not v['SAME'] or v['WP_NONE'] or v['WL_NONE']):
        return False                         # the pair examined is the student's own assignment
    if v['WP_NONE'] and (v['PPREF'] or v['PEQ']):
        return False
    if v['WL_NONE'] and (v['LPREF'] or v['LEQ']):
        return False
    if v['PPREF'] and v['PEQ']:
        return False
    if v['LPREF'] and v['LEQ']:
        return False
    if v['WL_NONE'] and not v['WP_NONE']:
        return False                         # M(p) is a subset of M(l)
    if v['SAME'] and v['WL_NONE']:
        return False                         # s in M(l) => l has an assignee
    if not v['WP_NONE'] and not v['WL_NONE']:
        # worst of M(p) is no worse than worst of M(l):  rank < worstP  =>  rank < worstL ;  rank == worstP => rank <= worstL
        if v['PPREF'] and not v['LPREF']:
            return False
        if v['PEQ'] and not (v['LPREF'] or v['LEQ']):
            return False
    if v['WP_NONE'] and not v['PU']:
        pass                                  # full with nobody assigned: upper quota 0 -- feasible
    if not v['LU'] and v['WL_NONE']:
        pass                                  # lecturer with upper quota 0
    return True


def classify_helper(repo, f):
    """-> ('COUNT'|'WORST', 'P'|'L', None) or ('BAD', sort, why) from the helper's effect summary; raises Unknown when the
    helper is not a scatter-fold at all.  Shapes are normalised (shared sub-helpers, index functions, merged or split
    first-or-max updates, `is None` / `== None`, early continue)."""
    it = Interp(repo)
    effs, rv = it.run(f, {}, selfterm=lp.MODEL)
    return classify_term(rv, S(f.params[1]), f.name)


class _Named:
    def __init__(self, name, params):
        self.name, self.params = name, params


def classify_term(rv, param, name='<term>'):
    """classification of a per-agent structure computed from the assignment list `param` (see classify_helper)"""
    import itertools
    f = _Named(name, [None, param[1] if param[0] == 'sym' else '?'])
    if rv[0] != 'accum':
        raise Unknown('helper %s does not return a scatter-fold' % f.name)
    pre, entries = rv[1], rv[2]
    size = None
    if pre[0] == 'bin' and pre[1] == 'Mult':
        lst, n = (pre[2], pre[3]) if pre[2][0] == 'list' else (pre[3], pre[2])
        a = lp.model_attr(n)
        if lst[0] == 'list' and len(lst[1]) == 1 and a in ('num_projects', 'num_lecturers'):
            size = ('P' if a == 'num_projects' else 'L', lst[1][0])
    if size is None:
        raise Unknown('helper %s: result is not one slot per project/lecturer' % f.name)
    sort, init = size
    keyattr = 'project_index' if sort == 'P' else 'lecturer_index'
    def notnone(b):
        return [NOT(CMP('Eq', b, NONE)), CMP('NotEq', b, NONE), NOT(CMP('Is', b, NONE)), CMP('IsNot', b, NONE)]
    def split_guard(g, b):
        conj = list(g[2]) if (g[0] == 'bool' and g[1] == 'and') else [g]
        nn = [c for c in conj if c in notnone(b)]
        rest = [c for c in conj if c not in notnone(b)]
        return bool(nn), rest
    if init == C(0):
        ok = len(entries) == 1
        if ok:
            op, idx, val, ch = entries[0]
            b, g = ch[0]
            has_nn, rest = split_guard(g, b)
            ok = op == 'addidx' and val == C(1) and len(ch) == 1 and b[3] == param and idx == A(b, keyattr) and has_nn and not rest
        if not ok:
            return ('BAD', sort, 'count helper %s does not add 1 at the own %s of every non-None entry' % (f.name, keyattr))
        return ('COUNT', sort, None)
    if init == NONE:
        bad = ('BAD', sort, 'worst-rank helper %s does not keep the maximum rank_lecturer per %s (None when empty)' % (f.name, keyattr))
        if not entries:
            return bad
        guards = []
        for op, idx, val, ch in entries:
            if len(ch) != 1:
                return bad
            b, g = ch[0]
            has_nn, rest = split_guard(g, b)
            if not (op == 'setidx' and idx == A(b, keyattr) and val == A(b, 'rank_lecturer') and b[3] == param and has_nn):
                return bad
            guards.append((AND(*rest) if rest else TRUE, b))
        # union of the update conditions must be  (slot is None) or (rank > slot), evaluated in order (elif chains arrive as
        # mutually exclusive guards; `not (slot is None)` conjuncts are evaluated under the valuation)
        def ev(t, b, N, G):
            slot_forms = lambda x: x[0] == 'idx' and x[1][0] in ('carried', 'prefix') and x[2] == A(b, keyattr)
            if t == TRUE: return True
            if t == FALSE: return False
            if t[0] == 'not':
                v = ev(t[1], b, N, G); return None if v is None else not v
            if t[0] == 'bool':
                vs = [ev(x, b, N, G) for x in t[2]]
                if t[1] == 'and':
                    if any(v is False for v in vs): return False
                    return None if any(v is None for v in vs) else True
                if any(v is True for v in vs): return True
                return None if any(v is None for v in vs) else False
            if t[0] == 'cmp':
                a_, c_ = t[2], t[3]
                if t[1] in ('Eq', 'Is', 'NotEq', 'IsNot') and ((slot_forms(a_) and c_ == NONE) or (slot_forms(c_) and a_ == NONE)):
                    return N if t[1] in ('Eq', 'Is') else not N
                rk = A(b, 'rank_lecturer')
                if (t[1] == 'Gt' and a_ == rk and slot_forms(c_)) or (t[1] == 'Lt' and slot_forms(a_) and c_ == rk):
                    return None if N else G
                if (t[1] == 'GtE' and a_ == rk and slot_forms(c_)) or (t[1] == 'LtE' and slot_forms(a_) and c_ == rk):
                    return None if N else 'GE'
            return 'UNK'
        for N, G in ((True, False), (False, True), (False, False)):
            vals = [ev(g, b, N, G) for g, b in guards]
            if any(v in ('UNK', 'GE') for v in vals):
                if any(v == 'GE' for v in vals):
                    continue      # >= instead of > keeps the same maximum
                raise Unknown('worst-rank helper %s: update condition not recognised' % f.name)
            got = any(v is True for v in vals)
            want = N or G
            if got != want:
                return bad
        return ('WORST', sort, None)
    raise Unknown('helper %s: unknown initial slot value %s' % (f.name, show(init)))


def empty_lists_len(t):
    if t[0] == 'comp' and len(t[1]) == 1 and t[2] == ('list', ()) and t[1][0][1] == TRUE:
        d = t[1][0][0][3]
        if d[0] == 'call' and d[1] == S('range') and len(d[2]) == 1:
            return d[2][0]
    return None


def run(rep, repo, tier):
    try:
        return run_terms(rep, repo, tier)
    finally:
        if not getattr(rep, '_c06_defined', False):
            # the decision table gave up before the defined-ness obligation was reached: still decide that one
            from ..defined import check_defined
            f = repo.method('Model', 'check_stability', required=False)
            if f is not None:
                rep._c06_defined = True
                check_defined(rep, repo, 'C06.R1', [f], 'stability checker')


# ======================================================================================================================
# term-level decision table (E5b): the whole function body is evaluated on the effect tree for one representative
# (student row, acceptable pair) per valuation; every per-agent structure is recognised from the term that computes it.
# ======================================================================================================================
from ..termeval import TermEval, Abs, Leave, Raises as TRaises, NOATOM as TNOATOM, order_cmp, FLIP
from ..canon import replace
from ..shapes import notnone_forms

OWN = {'P': 'project_index', 'L': 'lecturer_index'}
SORT_OF_LEN = {'num_projects': 'P', 'num_lecturers': 'L'}
UQ_ATTR = {'proj_upper_quotas': 'P', 'lec_upper_quotas': 'L'}
OTHER_Q_ATTR = {'proj_lower_quotas': 'P', 'lec_lower_quotas': 'L', 'lec_targets': 'L'}     # per-agent vectors that are NOT the capacity
LEC_KEYS = ('lecturer_index', 'lecturerID')
PROJ_KEYS = ('project_index', 'projectID')


class BadStructure(Exception):
    def __init__(self, rule, where, what, got):
        self.rule, self.where, self.what, self.got = rule, where, what, got


class KindError(Exception):
    pass


def slot_sort(n):
    a = lp.model_attr(n)
    if a in SORT_OF_LEN:
        return SORT_OF_LEN[a]
    if n[0] == 'call' and n[1] == S('len') and len(n[2]) == 1:
        a = lp.model_attr(n[2][0])
        if a in UQ_ATTR:
            return UQ_ATTR[a]
        if a == 'projects' or a == 'proj_lower_quotas':
            return 'P'
        if a == 'lecturers' or a == 'lec_lower_quotas':
            return 'L'
    return None


class Structures:
    """recognition (memoised per term) of the per-agent structures computed from the assignment list"""

    def __init__(self, asg, names):
        self.asg, self.names, self.memo = asg, names, {}

    def name_of(self, t):
        return self.names.get(t) or (t[3] if t[0] == 'accum' and len(t) > 3 and isinstance(t[3], str) else 'structure')

    def classify(self, t):
        if t not in self.memo:
            self.memo[t] = self._classify(t)
        r = self.memo[t]
        if r is not None and r[0] == 'BAD':
            raise BadStructure('C06.R2', self.names.get(('where', t)), r[2], r[3])
        return r

    def _groups(self, t):
        """scatter-append of the assignees (or their lecturer ranks) by own index -> ('GROUP', container, elemkind, sort)"""
        pre, entries = t[1], t[2]
        container = None
        if pre == ('dict', ()):
            container, sort0 = 'dict', None
        else:
            n = empty_lists_len(pre)
            if n is not None and slot_sort(n):
                container, sort0 = 'list', slot_sort(n)
        if container is None or len(entries) != 1:
            return None
        op, idx, val, ch = entries[0]
        if op != 'appendidx' or len(ch) != 1 or ch[0][0][3] != self.asg:
            return None
        b, g = ch[0]
        name = self.name_of(t)
        if not (idx[0] == 'attr' and idx[1] == b and idx[2] in OWN.values()):
            return ('BAD', None, 'groups %s are keyed by the own project / lecturer index of the assignee' % name, show(idx))
        sort = 'P' if idx[2] == 'project_index' else 'L'
        if sort0 is not None and sort0 != sort:
            return ('BAD', sort0, 'groups %s have one slot per %s and are keyed by it' % (name, 'project' if sort0 == 'P' else 'lecturer'), show(idx))
        if g not in notnone_forms(b):
            return ('BAD', sort, 'groups %s collect every non-None entry of the assignment (and only those)' % name, 'guard ' + show(g)[:80])
        if val == b:
            return ('GROUP', container, 'pair', sort)
        if val == A(b, 'rank_lecturer'):
            return ('GROUP', container, 'rank', sort)
        return ('BAD', sort, 'groups %s hold the assignees or their lecturer ranks' % name, show(val)[:80])

    def _free_places(self, t):
        """a COPY of the upper quotas counted down once per assignee at its own index: free places per project / lecturer"""
        pre, entries = t[1], t[2]
        src = pre
        if src[0] == 'call' and src[1] in (S('list'), S('tuple')) and len(src[2]) == 1:
            src = src[2][0]
        elif src[0] == 'slice' and src[2] == NONE and src[3] == NONE:
            src = src[1]
        elif src[0] == 'comp' and len(src[1]) == 1 and src[1][0][1] == TRUE and src[2] == src[1][0][0]:
            src = src[1][0][0][3]
        else:
            return None
        a = lp.model_attr(src)
        if a not in UQ_ATTR or len(entries) != 1:
            return None
        sort = UQ_ATTR[a]
        op, idx, val, ch = entries[0]
        name = self.name_of(t)
        if op != 'subidx' or val != C(1) or len(ch) != 1 or ch[0][0][3] != self.asg:
            return ('BAD', sort, 'free places %s are the upper quotas counted down by one per assignee' % name, '%s %s' % (op, show(val)))
        b, g = ch[0]
        if idx != A(b, OWN[sort]):
            return ('BAD', sort, 'free places %s of a %s are counted down at the assignee\'s own %s' % (name, 'project' if sort == 'P' else 'lecturer', OWN[sort]), show(idx))
        if g not in notnone_forms(b):
            return ('BAD', sort, 'free places %s count every non-None entry of the assignment (and only those)' % name, 'guard ' + show(g)[:80])
        return ('FREE', sort)

    def _classify(self, t):
        k = t[0]
        if k == 'attr' and lp.model_attr(t) in UQ_ATTR:
            return ('UQ', UQ_ATTR[lp.model_attr(t)])
        if k == 'attr' and lp.model_attr(t) in OTHER_Q_ATTR:
            return ('OTHERQ', lp.model_attr(t), OTHER_Q_ATTR[lp.model_attr(t)])
        if k == 'accum':
            g = self._groups(t)
            if g is not None:
                return g
            fp = self._free_places(t)
            if fp is not None:
                return fp
            try:
                r = classify_term(t, self.asg, self.name_of(t))
            except Unknown:
                return None
            if r[0] == 'BAD':
                return ('BAD', r[1], 'helper schema', r[2])
            return (r[0], r[1])
        if k == 'call' and t[1] == S('Counter') and len(t[2]) == 1 and t[2][0][0] == 'comp' and len(t[2][0][1]) == 1:
            # Counter(key(pair) for pair in ASG if pair is not None): a count per key, 0 for a key that never occurs
            (b, g), el = t[2][0][1][0], t[2][0][2]
            name = self.name_of(t)
            if b[3] != self.asg:
                return None
            if not (el[0] == 'attr' and el[1] == b and el[2] in OWN.values()):
                return ('BAD', None, 'counts %s are keyed by the own project / lecturer index of the assignee' % name, show(el))
            sort = 'P' if el[2] == 'project_index' else 'L'
            if g not in notnone_forms(b):
                return ('BAD', sort, 'counts %s count every non-None entry of the assignment (and only those)' % name, 'guard ' + show(g)[:80])
            return ('COUNT', sort)
        if k == 'dictcomp' and len(t[1]) == 1 and t[1][0][1] == TRUE:
            b = t[1][0][0]
            d = b[3]
            if d[0] == 'call' and d[1][0] == 'attr' and d[1][2] == 'items' and not d[2]:
                G = self.classify(d[1][1]) if d[1][1][0] == 'accum' else None
                if G and G[0] == 'GROUP' and G[1] == 'dict' and t[2] == I(b, C(0)):
                    grp = I(b, C(1))
                    v = t[3]
                    ok = False
                    if v[0] == 'call' and v[1] == S('max') and len(v[2]) == 1:
                        a = v[2][0]
                        if G[2] == 'rank' and a == grp:
                            ok = True
                        if G[2] == 'pair' and a[0] == 'comp' and len(a[1]) == 1 and a[1][0][1] == TRUE and a[1][0][0][3] == grp and a[2] == A(a[1][0][0], 'rank_lecturer'):
                            ok = True
                    if ok:
                        return ('WORSTD', G[3])
                    return ('BAD', G[3], 'worst-rank table is the maximum lecturer rank of every group', show(v)[:100])
        return None


class Q:
    """value of any()/all() over the (row, pair) comprehension: truth for the representative pair + quantifier"""
    def __init__(self, kind, val):
        self.kind, self.val = kind, val


class NeedChoice(Exception):
    """the verdict depends on where a tied pair is listed relative to the assignment: the driver evaluates both placements"""


class StabEval(TermEval):
    def __init__(self, v, st, asg):
        TermEval.__init__(self)
        self.v, self.st, self.asg = v, st, asg
        self.row = None          # (binder, mode)  mode: 'value' (binder is the row) | 'index' (binder is the student index)
        self.pair = None         # binder of the examined pair
        self.kind_errors = []
        self.in_rows = 0
        self.breaks = 0
        self.tie_before = None

    # ---- values ---------------------------------------------------------------------------------
    def truth(self, v):
        if isinstance(v, Q):
            return v.val
        if isinstance(v, Abs):
            if v.tag in ('obj',):
                return True
            if v.tag == 'group':
                return not self.none(v.data[1])
            if v.tag == 'elem' and v.data[0] == 'COUNT':
                return not self.none(v.data[1])
            if v.tag == 'elem' and v.data[0] == 'WORST':
                raise Unknown('truth value of a worst rank (0 is not a rank, but the code relies on it)')
            if v.tag == 'free':
                return True if self.under(v.data) else None if False else self._free_truth(v.data)
            raise Unknown('truth value of abstract value %r' % (v,))
        return bool(v)

    def _free_truth(self, sort):
        # uq - count is 0 exactly when not undersubscribed (count <= uq by the precondition)
        return self.under(sort)

    def none(self, sort):
        return self.v['WP_NONE' if sort == 'P' else 'WL_NONE']

    def under(self, sort):
        return self.v['PU' if sort == 'P' else 'LU']

    def own_index(self, iv, sort, what):
        """iv must be the examined pair's own index of that sort"""
        if isinstance(iv, Abs) and iv.tag == 'attr' and iv.data[0] == 'pair':
            if iv.data[1] == OWN[sort]:
                return True
            raise KindError('%s of sort %s indexed by pair.%s' % (what, 'project' if sort == 'P' else 'lecturer', iv.data[1]))
        if isinstance(iv, Abs) and iv.tag == 'attr' and iv.data[0] == 'assigned':
            raise Unknown('%s indexed by the index of the student\'s own assignment' % what)
        raise Unknown('%s indexed by %r' % (what, iv))

    def elem_of(self, cls, iv):
        kind, sort = cls[0], cls[-1]
        self.own_index(iv, sort, kind.lower() + ' structure')
        if kind == 'WORST':
            return None if self.none(sort) else Abs('elem', ('WORST', sort))
        if kind in ('COUNT', 'UQ'):
            return Abs('elem', (kind, sort))
        if kind == 'OTHERQ':
            return Abs('elem', ('OTHERQ', sort, cls[1]))
        if kind == 'FREE':
            return Abs('free', sort)              # upper quota - number of assignees (>= 0 by the precondition)
        if kind == 'GROUP':
            if cls[1] == 'dict' and self.none(sort):
                raise TRaises('KeyError: group of an agent without assignee')
            return Abs('group', (cls[2], sort))
        if kind == 'WORSTD':
            if self.none(sort):
                raise TRaises('KeyError: worst rank of an agent without assignee')
            return Abs('elem', ('WORST', sort))
        raise Unknown('element of %r' % (cls,))

    def is_row_index(self, ix):
        b, mode = self.row
        if mode == 'value':
            return ix == ('indexof', b)
        return ix == b

    def ev(self, t):
        k = t[0]
        if k == 'rankprefix':
            if not self.v['PREFERS']:
                return False
            if self.tie_before is None:
                raise NeedChoice()
            return self.tie_before
        if k == 'posbefore':
            if self.v['PREFERS']:
                return True
            if self.v['ISSELF'] or not self.v['SEQ']:
                return False
            if self.tie_before is None:
                raise NeedChoice()
            return self.tie_before
        if k == 'bvar':
            if self.pair is not None and t == self.pair:
                return Abs('obj', 'pair')
            if self.row is not None and t == self.row[0]:
                return Abs('row', self.row[1])
            raise Unknown('free variable %s' % show(t))
        if t == self.asg:
            return Abs('asg')
        if k in ('carried', 'prefix') and self.in_rows:
            return Abs('stale', t[1])       # what an earlier row (an earlier student) left in this variable
        if k == 'attr':
            a = lp.model_attr(t)
            if a == 'pairs':
                return Abs('pairs')
            c = self.st.classify(t) if a else None
            if c:
                return Abs('arr', c)
            o = self.ev(t[1])
            if o is None:
                raise TRaises("AttributeError: 'NoneType' object has no attribute '%s'" % t[2])
            if isinstance(o, Abs) and o.tag == 'obj':
                return Abs('attr', (o.data, t[2]))
            raise Unknown('attribute %s of %r' % (t[2], o))
        if k in ('accum', 'dictcomp') or (k == 'call' and t[1] == S('Counter')):
            c = self.st.classify(t)
            if c:
                return Abs('arr', c)
            raise Unknown('structure not recognised: %s' % show(t)[:100])
        if k == 'idx':
            base, ix = t[1], t[2]
            if base[0] == 'comp' and len(base[1]) == 1 and base[1][0][1] == TRUE and ix[0] != 'slice':
                b = base[1][0][0]
                d = b[3]
                if d[0] == 'call' and d[1] == S('range') and len(d[2]) == 1:
                    return self.ev(replace(base[2], b, ix))          # element ix of [f(z) for z in range(N)]
                return self.ev(replace(base[2], b, I(d, ix)))         # element ix of [f(x) for x in D]  =  f(D[ix])
            bv = self.ev(base)
            if isinstance(bv, Abs) and bv.tag == 'asg':
                if self.row is None or not self.is_row_index(ix):
                    raise KindError('the assignment list is read at %s, not at the index of the student examined' % show(ix)[:60])
                return None if self.v['UNASSIGNED'] else Abs('obj', 'assigned')
            if isinstance(bv, Abs) and bv.tag == 'pairs':
                if self.row is not None and self.row[1] == 'index' and ix == self.row[0]:
                    return Abs('row', 'value')
                raise Unknown('self.pairs[%s]' % show(ix)[:60])
            if isinstance(bv, Abs) and bv.tag == 'arr':
                return self.elem_of(bv.data, self.ev(ix))
            if isinstance(bv, Abs) and bv.tag in ('tuple', 'list') and ix[0] == 'const' and isinstance(ix[1], int):
                return bv.data[ix[1]]
            raise Unknown('subscript of %r' % (bv,))
        if k == 'indexof':
            if self.row is not None and t[1] == self.row[0] and self.row[1] == 'value':
                return Abs('rowidx')
            raise Unknown('index of %s' % show(t[1])[:60])
        if k == 'not':
            x = self.ev(t[1])
            if isinstance(x, Q):
                return Q('all' if x.kind == 'any' else 'any', not x.val)
            return not self.truth(x)
        if k == 'cmp' and t[1] in ('In', 'NotIn'):
            # x in {z for z in range(N) if g(z)}  with x an agent index of the pair examined (within range(N): C10) is g(x)
            coll = t[3]
            if coll[0] == 'call' and coll[1] in (S('set'), S('frozenset'), S('list'), S('tuple')) and len(coll[2]) == 1 and not coll[3]:
                coll = coll[2][0]
            if coll[0] == 'comp' and len(coll[1]) == 1 and coll[2] == coll[1][0][0]:
                b_, g_ = coll[1][0]
                d_ = b_[3]
                x_ = t[2]
                bound = {'project_index': 'num_projects', 'lecturer_index': 'num_lecturers'}.get(x_[2]) if x_[0] == 'attr' else None
                if bound and d_[0] == 'call' and d_[1] == S('range') and len(d_[2]) == 1 and lp.model_attr(d_[2][0]) == bound:
                    r = self.truth(self.ev(replace(g_, b_, x_)))
                    return r if t[1] == 'In' else not r
            a, b = self.ev(t[2]), self.ev(t[3])
            if isinstance(b, Abs) and b.tag == 'arr' and b.data[0] in ('WORSTD', 'GROUP') and (b.data[0] == 'WORSTD' or b.data[1] == 'dict'):
                self.own_index(a, b.data[-1], 'key test')
                r = not self.none(b.data[-1])
                return r if t[1] == 'In' else not r
            raise Unknown('membership %s' % show(t)[:80])
        if k == 'bin' and t[1] in ('Sub', 'Add'):
            a, b = self.ev(t[2]), self.ev(t[3])
            def el(x, kind):
                return isinstance(x, Abs) and x.tag == 'elem' and x.data[0] == kind
            if t[1] == 'Sub' and ((el(a, 'UQ') and el(b, 'COUNT')) or (el(a, 'COUNT') and el(b, 'UQ'))):
                if a.data[1] != b.data[1]:
                    raise KindError('count of one sort subtracted from the upper quota of the other')
                return Abs('free' if el(a, 'UQ') else 'negfree', a.data[1])
            if t[1] == 'Add' and ((el(a, 'COUNT') and b == 1) or (a == 1 and el(b, 'COUNT'))):
                return Abs('count+1', (a if el(a, 'COUNT') else b).data[1])
            if isinstance(a, int) and isinstance(b, int):
                return a - b if t[1] == 'Sub' else a + b
            if a is None or b is None:
                raise TRaises("TypeError: unsupported operand type(s) for %s: 'NoneType'" % OPS.get(t[1], t[1]))
            raise Unknown('arithmetic %s on %r, %r' % (t[1], a, b))
        if k == 'call':
            f = t[1]
            if f == S('__until_break__') and len(t[2]) == 1:
                return self.ev(t[2][0])         # the representative iteration is reached: the loop has not been left before it
            if f == S('float') and len(t[2]) == 1 and t[2][0] in (C('inf'), C('Infinity'), C('+inf')):
                return Abs('inf')
            if f == S('len') and len(t[2]) == 1:
                x = self.ev(t[2][0])
                if isinstance(x, Abs) and x.tag == 'group':
                    return Abs('elem', ('COUNT', x.data[1]))
                if isinstance(x, Abs) and x.tag in ('tuple', 'list'):
                    return len(x.data)
                raise Unknown('len of %r' % (x,))
            if f == S('max') and len(t[2]) == 1:
                a = t[2][0]
                kw = dict(t[3]) if len(t) > 3 and t[3] else {}
                g = None
                if a[0] == 'comp' and len(a[1]) == 1 and a[1][0][1] == TRUE and a[2] == A(a[1][0][0], 'rank_lecturer'):
                    g = self.ev(a[1][0][0][3])
                    if not (isinstance(g, Abs) and g.tag == 'group' and g.data[0] == 'pair'):
                        raise Unknown('max over %r' % (g,))
                else:
                    g = self.ev(a)
                    if not (isinstance(g, Abs) and g.tag == 'group' and g.data[0] == 'rank'):
                        raise Unknown('max over %r' % (g,))
                if self.none(g.data[1]):
                    if 'default' in kw:
                        return self.ev(kw['default'])
                    raise TRaises('ValueError: max() arg is an empty sequence')
                return Abs('elem', ('WORST', g.data[1]))
            if f[0] == 'attr' and f[2] == 'get' and len(t[2]) in (1, 2):
                d = self.ev(f[1])
                if isinstance(d, Abs) and d.tag == 'arr' and (d.data[0] == 'WORSTD' or (d.data[0] == 'GROUP' and d.data[1] == 'dict')):
                    sort = d.data[-1]
                    self.own_index(self.ev(t[2][0]), sort, 'dictionary look-up')
                    if self.none(sort):
                        dflt = self.ev(t[2][1]) if len(t[2]) == 2 else None
                        if d.data[0] == 'GROUP':
                            if isinstance(dflt, Abs) and dflt.tag in ('tuple', 'list') and not dflt.data:
                                return Abs('group', (d.data[2], sort))
                            raise Unknown('default %r of a group look-up' % (dflt,))
                        return dflt
                    return Abs('group', (d.data[2], sort)) if d.data[0] == 'GROUP' else Abs('elem', ('WORST', sort))
                raise Unknown('get on %r' % (d,))
            if f in (S('any'), S('all')) and len(t[2]) == 1 and t[2][0][0] == 'comp':
                return self.quantifier(f[1], t[2][0])
            if f == S('bool') and len(t[2]) == 1:
                return self.truth(self.ev(t[2][0]))
            raise Unknown('call %s' % show(t)[:80])
        return TermEval.ev(self, t)

    # ---- comparisons ------------------------------------------------------------------------------
    def compare(self, op, a, b):
        v = self.v
        for x in (a, b):
            if isinstance(x, Abs) and x.tag == 'stale':
                raise KindError('the verdict for a student reads %s as an earlier student\'s row left it (it is not set again for this student on this path)' % x.data)
        def attr(x, who, name):
            return isinstance(x, Abs) and x.tag == 'attr' and x.data == (who, name)
        def el(x, kind):
            return isinstance(x, Abs) and x.tag == 'elem' and x.data[0] == kind
        # None tests
        for x, y in ((a, b), (b, a)):
            if y is None and isinstance(x, Abs):
                if op in ('Eq', 'Is'):
                    return False
                if op in ('NotEq', 'IsNot'):
                    return True
                raise TRaises("TypeError: '%s' not supported between instances of 'int' and 'NoneType'" % OPS[op])
        if a is None and b is None:
            return order_cmp(op, 'eq') if op in ('Eq', 'Is', 'NotEq', 'IsNot') else self._raise_none(op)
        for x, y, o in ((a, b, op), (b, a, FLIP.get(op, op))):
            # student ranks
            if attr(x, 'pair', 'rank_student') and attr(y, 'assigned', 'rank_student'):
                return order_cmp(o, 'lt' if v['PREFERS'] else 'eq' if v['SEQ'] else 'gt')
            if attr(x, 'pair', 'rank_student') and isinstance(y, Abs) and y.tag == 'inf':
                return order_cmp(o, 'lt')
            # lecturer rank against the worst assignee
            if attr(x, 'pair', 'rank_lecturer') and el(y, 'WORST'):
                s = y.data[1]
                lt, eq = (v['PPREF'], v['PEQ']) if s == 'P' else (v['LPREF'], v['LEQ'])
                return order_cmp(o, 'lt' if lt else 'eq' if eq else 'gt')
            if (el(x, 'COUNT') or (isinstance(x, Abs) and x.tag == 'count+1')) and el(y, 'OTHERQ'):
                raise KindError('the number of assignees is compared with %s: room for another student is decided by the upper quota' % y.data[2])
            # count against upper quota (count <= quota by the precondition)
            if el(x, 'COUNT') and el(y, 'UQ'):
                if x.data[1] != y.data[1]:
                    raise KindError('count of one sort compared with the upper quota of the other')
                return order_cmp(o, 'lt' if self.under(x.data[1]) else 'eq')
            if isinstance(x, Abs) and x.tag == 'count+1' and el(y, 'UQ'):
                if x.data != y.data[1]:
                    raise KindError('count of one sort compared with the upper quota of the other')
                if o in ('LtE', 'Gt'):
                    return order_cmp(o, 'lt' if self.under(x.data) else 'gt')
                raise Unknown('count + 1 %s quota' % o)
            if isinstance(x, Abs) and x.tag in ('free', 'negfree') and isinstance(y, int) and not isinstance(y, bool):
                oo = o if x.tag == 'free' else FLIP.get(o, o)
                yy = y if x.tag == 'free' else -y
                # free = uq - count is an integer >= 0; > 0 iff undersubscribed
                if yy == 0:
                    return order_cmp(oo, 'gt' if self.under(x.data) else 'eq')
                if yy == 1 and oo in ('Lt', 'GtE'):
                    return order_cmp(oo, 'gt' if self.under(x.data) else 'lt') if oo == 'Lt' else self.under(x.data)
                raise Unknown('free capacity %s %r' % (o, y))
            if el(x, 'COUNT') and isinstance(y, int) and not isinstance(y, bool):
                if y == 0:
                    return order_cmp(o, 'eq' if self.none(x.data[1]) else 'gt')
                if y == 1 and o in ('Lt', 'GtE'):
                    return self.none(x.data[1]) if o == 'Lt' else not self.none(x.data[1])
                raise Unknown('count %s %r' % (o, y))
            # identity / same lecturer / same project
            if isinstance(x, Abs) and x == Abs('obj', 'pair') and y == Abs('obj', 'assigned') and o in ('Eq', 'Is', 'NotEq', 'IsNot'):
                return order_cmp(o, 'eq' if v['ISSELF'] else 'gt')
            if isinstance(x, Abs) and isinstance(y, Abs) and x.tag == 'attr' and y.tag == 'attr' and x.data[0] == 'assigned' and y.data[0] == 'pair' \
                    and o in ('Eq', 'NotEq'):
                if x.data[1] in LEC_KEYS and y.data[1] in LEC_KEYS:
                    if x.data[1] != y.data[1]:
                        raise KindError('lecturer id compared with lecturer index (%s vs %s)' % (x.data[1], y.data[1]))
                    return order_cmp(o, 'eq' if v['SAME'] else 'gt')
                if x.data[1] in PROJ_KEYS and y.data[1] in PROJ_KEYS:
                    if x.data[1] != y.data[1]:
                        raise KindError('project id compared with project index (%s vs %s)' % (x.data[1], y.data[1]))
                    return order_cmp(o, 'eq' if v['ISSELF'] else 'gt')      # (student, project) identifies the pair
        return TermEval.compare(self, op, a, b)

    def _raise_none(self, op):
        raise TRaises("TypeError: '%s' not supported between instances of 'NoneType' and 'NoneType'" % OPS[op])

    # ---- loops and quantifiers ---------------------------------------------------------------------
    def row_mode(self, dom):
        """is `dom` the sequence of all student rows?  -> 'value' | 'index' | None;  BadStructure for a proper part of it"""
        if lp.model_attr(dom) == 'pairs':
            return 'value'
        if dom[0] == 'call' and dom[1] == S('range') and len(dom[2]) == 1:
            n = dom[2][0]
            if n[0] == 'call' and n[1] == S('len') and len(n[2]) == 1 and (lp.model_attr(n[2][0]) == 'pairs' or n[2][0] == self.asg):
                return 'index'
            if lp.model_attr(n) == 'num_students':
                return 'index'
        return None

    def slice_guard(self, dom):
        """row[:U] as the domain of the pair loop -> guard term deciding whether the representative pair is inside, or None.
        Rows are in non-decreasing rank (reader order), ranks of tie groups are dense:
          U = row.index(assigned)        the pairs LISTED in front of the student's own pair: the strictly preferred ones plus,
                                         of the pairs tied with it, those that happen to be listed first   ('posbefore')
          U = assigned.rank_student - 1  positions 0 .. R-2: only strictly preferred pairs, but not all of them once a tie
                                         precedes (a pair of rank r sits at position >= r - 1)             ('rankprefix')
          U = len(row)                   the whole row"""
        if not (dom[0] == 'slice' and dom[2] in (NONE, C(0))):
            return None
        try:
            d2 = self.ev(dom[1])
        except Unknown:
            return None
        if not (isinstance(d2, Abs) and d2.tag == 'row' and d2.data == 'value'):
            return None
        u = dom[3]
        while u[0] == 'ite':
            u = u[2] if self.truth(self.ev(u[1])) else u[3]
        if u == NONE or u == CALL(S('len'), [dom[1]]):
            return TRUE
        if u[0] == 'call' and u[1] == A(dom[1], 'index') and len(u[2]) == 1:
            who = self.ev(u[2][0])
            if who is None:
                raise TRaises('ValueError: None is not in list')
            if who == Abs('obj', 'assigned'):
                return ('posbefore',)
            return None
        if u[0] == 'bin' and u[1] == 'Sub' and u[3] == C(1):
            x = self.ev(u[2])
            if x == Abs('attr', ('assigned', 'rank_student')):
                return ('rankprefix',)
        return None

    def partial_rows(self, dom):
        for x in walk(dom):
            if lp.model_attr(x) == 'pairs' or x == self.asg:
                return True
        return False

    def quantifier(self, kind, comp):
        chain, val = comp[1], comp[2]
        saved = (self.row, self.pair)
        try:
            ok = True
            for b, g in chain:
                self.enter(b)
                if not self.truth(self.ev(g)):
                    ok = False
                    break
            if self.row is None or self.pair is None:
                raise Unknown('any/all over %s' % show(comp)[:80])
            if not ok:
                return Q(kind, kind == 'all')         # the representative pair is filtered out: neutral element
            return Q(kind, self.truth(self.ev(val)))
        finally:
            self.row, self.pair = saved

    def enter(self, b):
        dom = b[3]
        if self.row is None:
            m = self.row_mode(dom)
            if m is None:
                if self.partial_rows(dom):
                    raise BadStructure('C06.R3', None, 'every student (row of pairs) is examined', 'the loop runs over ' + show(dom)[:100])
                raise Unknown('loop over %s' % show(dom)[:80])
            self.row = (b, m)
            return
        if self.pair is None:
            # the pairs examined may be chosen by a condition (`row if unassigned else <the preferred ones>`) and filtered:
            # a pair the filter drops is one the function does not report, exactly as if its body were skipped
            self.pair_guard = None
            while dom[0] == 'ite':
                dom = dom[2] if self.truth(self.ev(dom[1])) else dom[3]
            sg = self.slice_guard(dom)
            if sg is not None:
                self.pair = b
                self.pair_guard = None if sg == TRUE else sg
                return
            if dom[0] == 'comp' and len(dom[1]) == 1 and dom[2] == dom[1][0][0]:
                b2, g = dom[1][0]
                try:
                    d2 = self.ev(b2[3])
                except Unknown:
                    d2 = None
                if isinstance(d2, Abs) and d2.tag == 'row' and d2.data == 'value':
                    self.pair = b
                    self.pair_guard = replace(g, b2, b)
                    return
            try:
                d = self.ev(dom)
            except Unknown:
                d = None
            if isinstance(d, Abs) and d.tag == 'row' and d.data == 'value':
                self.pair = b
                return
            if self.partial_rows(dom) or contains(dom, lambda x: x == self.row[0]):
                raise BadStructure('C06.R3', None, 'every acceptable pair of the student is examined', 'the loop runs over ' + show(dom)[:100])
            raise Unknown('loop over %s' % show(dom)[:80])
        raise Unknown('loop nested inside the pair loop: %s' % show(dom)[:80])

    def has_verdict(self, effs):
        for e, c in iter_effects(effs):
            if e.kind in ('return', 'let', 'break'):
                return True
        return False

    def execute(self, effs):
        for e in effs:
            k = e.kind
            if k == 'if':
                self.execute(e.then if self.truth(self.ev(e.cond)) else e.orelse)
            elif k == 'return':
                lv = Leave('return', self.ev(e.value) if e.value is not None else None)
                lv.in_rows = self.in_rows
                raise lv
            elif k in ('continue', 'break'):
                raise Leave(k)
            elif k == 'raise':
                raise TRaises('explicit raise')
            elif k == 'let':
                v_ = e.value
                while v_[0] == 'ite' and self.in_rows:
                    v_ = v_[2] if self.truth(self.ev(v_[1])) else v_[3]
                if self.in_rows and v_[0] == 'comp' and len(v_[1]) == 1 and v_[2] == v_[1][0][0] and self.pair is None:
                    pass                      # a filtered view of the row: its filter is evaluated when the view is looped over
                elif self.in_rows and self.pair is None and self.slice_guard(v_) is not None:
                    pass                      # (row.index(None) raises inside slice_guard)
                elif self.in_rows:
                    try:
                        self.ev(e.value)          # evaluation point: errors surface here even when the value is never used
                    except Unknown as u_:
                        # arithmetic on two present values does not raise (its operands were evaluated, so their errors have
                        # surfaced); the value itself is looked at where it is used
                        if not str(u_).startswith(('arithmetic', 'len of <row')):
                            raise
            elif k == 'call':
                if self.in_rows or any(x.kind == 'for' and self.loop_kind(x) for x, _ in iter_effects(e.body)):
                    try:
                        self.execute(e.body)
                    except Leave as lv:
                        if lv.kind != 'return':
                            raise
            elif k == 'for':
                lk = self.loop_kind(e)
                if lk is None:
                    if self.has_returns(e.body) or self.in_rows:
                        self.enter(e.binder)       # raises the precise reason
                    continue                        # accumulation loop: its result is a term
                saved = (self.row, self.pair)
                self.in_rows += 1
                try:
                    self.enter(e.binder)
                    if self.pair is e.binder and getattr(self, 'pair_guard', None) is not None and not self.truth(self.ev(self.pair_guard)):
                        continue                      # filtered out: the body does not run for this pair
                    try:
                        self.execute(e.body)
                    except Leave as lv:
                        if lv.kind == 'return':
                            raise
                        if lv.kind == 'break':
                            self.breaks += 1
                finally:
                    self.in_rows -= 1
                    self.row, self.pair = saved
            elif k in ('callo', 'expr', 'alias'):
                pass
            elif k == 'acc':
                pass            # reads of the accumulated variable arrive as terms (carried value / value of this row)
            else:
                raise Unknown('effect %s at %s outside the finite evaluator' % (k, e.loc))

    def has_returns(self, effs):
        return any(x.kind == 'return' for x, _ in iter_effects(effs))

    def loop_kind(self, e):
        dom = e.binder[3]
        if self.row is None:
            return self.row_mode(dom)
        if self.pair is None:
            try:
                while dom[0] == 'ite':
                    dom = dom[2] if self.truth(self.ev(dom[1])) else dom[3]
                if dom[0] == 'comp' and len(dom[1]) == 1 and dom[2] == dom[1][0][0]:
                    dom = dom[1][0][0][3]              # a filtered view of the row: the filter is applied on entry
                elif self.slice_guard(dom) is not None:
                    dom = dom[1]                       # a leading part of the row: which pairs are inside is decided on entry
                d = self.ev(dom)
            except (Unknown, KindError, TRaises):
                return None
            return 'pair' if isinstance(d, Abs) and d.tag == 'row' and d.data == 'value' else None
        return None


def run_terms(rep, repo, tier):
    for k, v in RULES.items():
        rep.rule(k, v)
    rep.assumptions += ['the assignment respects project and lecturer upper quotas and assigns students to acceptable projects (precondition in the property)',
                        'M(p) is a subset of M(l); a lecturer with an assignee of one of his projects has an assignee',
                        'the rows of self.pairs list a student\'s acceptable pairs in non-decreasing rank_student (reader order): leaving a row early is sound once the pair examined is not preferred']
    f = repo.method('Model', 'check_stability')
    asg = S('ASG')
    it = Interp(repo, {'emit_lets': True})
    try:
        effs, rv = it.run(f, {f.params[1]: asg}, selfterm=lp.MODEL)
    except Unknown as u:
        rep.inconclusive('C06.R1', f.where, 'check_stability is inside the interpreted fragment', got=str(u))
        check_caller(rep, repo)
        return
    names = {}
    for e, c in iter_effects(effs):
        if e.kind == 'call' and isinstance(e.ret, tuple) and e.ret and e.ret[0] in ('accum', 'comp', 'dictcomp'):
            names.setdefault(e.ret, getattr(e.target, 'name', None))
            names.setdefault(('where', e.ret), getattr(e.target, 'where', None))
    st = Structures(asg, names)
    vals = []
    for bits in itertools.product([False, True], repeat=len(ATOMS)):
        v = dict(zip(ATOMS, bits))
        if feasible(v):
            vals.append(v)
    rep.count('feasible_valuations', len(vals))
    short = lambda v: ', '.join(k for k in ATOMS if v[k]) or '(all false)'
    mism, errs, kinds = [], [], []
    # a row left (break) at the student's own pair: the pairs listed after it are never examined; with rows in rank order
    # these include every pair of strictly worse rank, so valuations describing such a pair are unreachable
    def breaks_at(v):
        se = StabEval(v, st, asg)
        try:
            se.execute(effs)
        except (Leave, TRaises, KindError, BadStructure, Unknown):
            pass
        return se.breaks > 0
    own = [v for v in vals if v['ISSELF']]
    stops_at_own = bool(own) and all(breaks_at(v) for v in own)
    rep.extra['row_left_at_own_pair'] = stops_at_own
    work = [(v, None) for v in vals]
    wi = 0
    while wi < len(work):
        v, tie_before = work[wi]
        wi += 1
        if stops_at_own and not (v['UNASSIGNED'] or v['PREFERS'] or v['SEQ']):
            continue
        se = StabEval(v, st, asg)
        se.tie_before = tie_before
        blocks = spec_blocks(v)
        try:
            try:
                se.execute(effs)
                verdict = ('falls off the end', None)
            except Leave as lv:
                verdict = ('returns', lv.value, getattr(lv, 'in_rows', 0))
        except NeedChoice:
            # a pair tied with the assignment may be listed before or after it: both placements are evaluated
            work += [(v, True), (v, False)]
            continue
        except TRaises as r:
            errs.append((v, str(r)))
            continue
        except KindError as ke:
            kinds.append(str(ke))
            continue
        except BadStructure as bs:
            rep.fail(bs.rule, bs.where or f.where, bs.what, got=bs.got, construct=('helper schema' if bs.rule == 'C06.R2' else 'quantification') + ': ' + bs.what[:60])
            check_caller(rep, repo)
            return
        except Unknown as u:
            rep.inconclusive('C06.R1', f.where, 'the per-pair verdict is inside the evaluated fragment', got=str(u))
            check_caller(rep, repo)
            return
        val = verdict[1]
        if isinstance(val, Q):
            # not any(blocks) / all(not blocks):  a universally quantified "does not block"
            if val.kind != 'all':
                mism.append((v, 'returns any(...) of a per-pair test: true as soon as one pair passes', blocks))
                continue
            val = val.val
        elif verdict[0] == 'returns' and val is True and verdict[2]:
            mism.append((v, 'returns True before all pairs were examined', blocks))
            continue
        if verdict[0] != 'returns' or not isinstance(val, bool):
            mism.append((v, '%s %r' % verdict[:2], blocks))
            continue
        if se.breaks and (v['UNASSIGNED'] or v['PREFERS']):
            mism.append((v, 'leaves the row at a pair the student prefers to his assignment', blocks))
            continue
        if val != (not blocks):
            mism.append((v, 'returns %s' % val + ('' if tie_before is None else ' when the pair is %s the part of the row that is examined (ties shift positions against ranks)' % ('inside' if tie_before else 'outside')), blocks))
    if kinds:
        rep.fail('C06.R1', f.where, 'every structure is indexed by, and compared with, the value of its own sort', got=sorted(set(kinds))[0],
                 want='project structures by pair.project_index, lecturer structures by pair.lecturer_index, the assignment list by the student examined',
                 construct='kind error: ' + sorted(set(kinds))[0])
    if errs:
        v, msg = errs[0]
        rep.fail('C06.R1', f.where, 'the check never fails: no comparison with an absent value on any feasible valuation (%d of %d valuations raise)' % (len(errs), len(vals)),
                 got='%s when {%s}' % (msg, short(v)), want='a boolean', construct='raises ' + msg.split(':')[0])
    if mism:
        v, verdict, blocks = mism[0]
        rep.fail('C06.R1', f.where, 'verdict equals the blocking-pair definition on all %d feasible valuations (%d differ)' % (len(vals), len(mism)),
                 got='{%s}: code %s, definition says the pair %s' % (short(v), verdict, 'blocks' if blocks else 'does not block'), want='False iff some pair blocks',
                 construct='decision table differs on %d valuations' % len(mism))
    if not errs and not mism and not kinds:
        rep.ok('C06.R1', f.where, 'decision table: %d feasible valuations of %d atoms, verdict = definition, no error path' % (len(vals), len(ATOMS)), got='exhaustive')
        used = sorted({'%s per %s' % (c[0], 'project' if c[-1] == 'P' else 'lecturer') for c in st.memo.values() if c and c[0] != 'BAD'})
        need = {('P', 'cnt'), ('L', 'cnt'), ('P', 'worst'), ('L', 'worst')}
        have = set()
        for c in st.memo.values():
            if not c or c[0] == 'BAD':
                continue
            if c[0] in ('COUNT', 'GROUP', 'FREE'):
                have.add((c[-1], 'cnt'))
            if c[0] in ('WORST', 'WORSTD') or (c[0] == 'GROUP'):
                have.add((c[-1], 'worst'))
        rep.check(need <= have, 'C06.R2', f.where, 'the verdict reads assignment counts and worst ranks per project and per lecturer, each recognised from the term that computes it',
                  got=used, construct='helper structures')
        rep.ok('C06.R3', f.where, 'all rows of self.pairs x all pairs of the row are examined; False at the first blocking pair, True after the loops', got='loop domains = all rows x all pairs of the row')
    rep.extra['exhaustive_valuations'] = len(vals)
    from ..defined import check_defined
    rep._c06_defined = True
    check_defined(rep, repo, 'C06.R1', [f], 'stability checker')
    check_caller(rep, repo)


def flatten_str(t):
    """String-building term -> list of parts (constants and holes)."""
    if t[0] == 'bin' and t[1] == 'Add':
        return flatten_str(t[2]) + flatten_str(t[3])
    if t[0] == 'fstr':
        out = []
        for x in t[1]:
            out += flatten_str(x)
        return out
    return [t]


def check_flag_plumbing(rep, repo):
    """R4: Solver.get_results_short / _long ask for the stability line exactly when -stab was given"""
    gr = repo.method('Model', 'get_results')
    OPT = I(A(A(S('self'), 'options_parser'), 'extra_constraints'), A(S('Extra_constraints'), 'STAB'))
    for name in ('get_results_short', 'get_results_long'):
        g = repo.method('Solver', name, required=False)
        if g is None:
            continue
        try:
            effs, _ = Interp(repo).run(g, {})
        except Unknown as u:
            rep.inconclusive('C06.R4', g.where, 'the getter is inside the interpreted fragment', got=str(u))
            continue
        calls = [e for e, c in iter_effects(effs) if e.kind in ('call', 'callo') and e.target is gr]
        if not calls:
            rep.inconclusive('C06.R4', g.where, '%s renders through Model.get_results' % name, got='no call found')
            continue
        for e in calls:
            flag = e.args[1] if len(e.args) > 1 else dict(getattr(e, 'kw', ()) or ()).get(gr.params[2] if len(gr.params) > 2 else 'stable_correctness')
            ok = flag is not None and flag in (OPT, CALL(S('bool'), [OPT]), CMP('Eq', OPT, TRUE), CMP('Is', OPT, TRUE), ('ite', OPT, TRUE, FALSE))
            if flag is not None and not ok:
                # decided by its truth table over the option
                try:
                    vals = []
                    for v_ in (True, False):
                        te = TermEval(lambda t, v_=v_: v_ if t == OPT else TNOATOM)
                        vals.append(bool(te.truth(te.ev(flag))))
                    ok = vals == [True, False]
                except Unknown:
                    ok = False
            rep.check(ok, 'C06.R4', g.where, '%s asks for stability_correct exactly when the stability option is set' % name, got=show(flag)[:100] if flag is not None else 'no flag passed',
                      want='extra_constraints[STAB]', construct='stability flag of %s' % name, loc=e.loc)


def check_caller(rep, repo):
    check_flag_plumbing(rep, repo)
    f = repo.method('Model', 'get_results')
    cs = repo.method('Model', 'check_stability')
    it = Interp(repo)
    try:
        effs, rv = it.run(f, {p_: S(p_) for p_ in f.params[1:]}, selfterm=lp.MODEL)
    except Unknown as u:
        rep.inconclusive('C06.R4', f.where, 'get_results is inside the interpreted fragment', got=str(u))
        return
    calls = [(e, c) for e, c in iter_effects(effs) if e.kind == 'call' and e.target is cs]
    rep.check(len(calls) == 1, 'C06.R4', f.where, 'get_results calls check_stability once', got='%d calls' % len(calls), construct='check_stability call count')
    if len(calls) != 1:
        return
    call, cctx = calls[0]
    ret = call.ret
    guards = [(c.cond if br else NOT(c.cond)) for c, br in cctx if c.kind == 'if']
    flat = []
    for g in guards:
        flat += list(g[2]) if (g[0] == 'bool' and g[1] == 'and') else [g]
    stab = S(f.params[2]) if len(f.params) > 2 else S('stable_correctness')
    rep.check(any(g in (stab, CMP('Eq', stab, TRUE), CMP('Is', stab, TRUE)) for g in flat), 'C06.R4', f.where,
              'the stability check runs, and stability_correct is printed, exactly when stability was requested', got=[show(g)[:60] for g in flat],
              want='if stable_correctness:', construct='stability_correct guard')
    # argument: the per-student list with None
    wn = repo.method('Model', '_get_pair_assignments_with_none')
    wn_calls = [e for e, c in iter_effects(effs) if e.kind == 'call' and e.target is wn]
    ok_arg = len(call.args) == 1 and any(call.args[0] == e.ret for e in wn_calls)
    rep.check(ok_arg, 'C06.R4', f.where, 'the checker is given the per-student assignment list (one entry per student, None when unassigned)',
              got=show(call.args[0])[:120] if call.args else None, want='self._get_pair_assignments_with_none()', construct='check_stability argument')
    # printed right after the label
    found = False
    def scan(t):
        nonlocal found
        for x in walk(t):
            if x[0] in ('bin', 'fstr'):
                parts = flatten_str(x)
                for i_, p_ in enumerate(parts[:-1]):
                    if p_[0] == 'const' and isinstance(p_[1], str) and p_[1].endswith('stability_correct: '):
                        nxt = parts[i_ + 1]
                        if nxt == ret or nxt == CALL(S('str'), [ret]):
                            found = True
    for e, c in iter_effects(effs):
        for k_, v_ in e.__dict__.items():
            if isinstance(v_, tuple) and v_ and isinstance(v_[0], str):
                scan(v_)
    scan(rv)
    rep.check(found, 'C06.R4', f.where, "the value returned by check_stability is printed unchanged right after the label 'stability_correct: '",
              got='label followed by the returned value: %s' % found, want="'stability_correct: ' + str(self.check_stability(..))", construct='stability_correct formatting')
    # with_none helper: one entry per row of pairs
    try:
        effs2, rv2 = Interp(repo).run(wn, {}, selfterm=lp.MODEL)
    except Unknown as u:
        rep.inconclusive('C06.R4', wn.where, 'with_none helper is inside the interpreted fragment', got=str(u))
        return
    ents = []
    from .c01 import truthy_of
    def selects_set_variable(g):
        """g holds exactly when the decision variable it mentions is set (same accepted forms as C01.R5)"""
        vvs = {x for x in walk(g) if x[0] == 'attr' and x[2] == 'varValue'}
        return len(vvs) == 1 and truthy_of(g, next(iter(vvs)))
    from ..shapes import placeholder_extend
    def flattened_rows(t):
        """list(chain.from_iterable(E for row in rows)) / [x for row in rows for x in E] is one `extend(E)` per row"""
        if t[0] == 'call' and t[1] == S('list') and len(t[2]) == 1 and not t[3]:
            t = t[2][0]
        if t[0] == 'call' and t[1] == A(S('chain'), 'from_iterable') and len(t[2]) == 1 and t[2][0][0] == 'comp':
            c_ = t[2][0]
            return ('accum', ('list', ()), (('extend', NONE, c_[2], c_[1]),), 'rows', 0)
        return t
    if len([p_ for p_ in wn.params if p_ != 'self']) > 0 and call.args and any(call.args[0] == e.ret for e in wn_calls):
        rv2 = call.args[0]                   # a helper with a mode parameter: the list as check_stability receives it
    rv2 = flattened_rows(rv2)
    pe = placeholder_extend(rv2)
    if pe is not None:
        # one extend per row: the row's selected pair(s), or [None] when there is none
        rows, chosen = pe
        ok_rows = len(rows) == 1 and rows[0][0][3] == A(lp.MODEL, 'pairs') and rows[0][1] == TRUE
        ok_sel = len(chosen[1]) == 1 and chosen[1][0][0][3] == rows[0][0] and chosen[2] == chosen[1][0][0] and selects_set_variable(chosen[1][0][1])
        rep.check(ok_rows and ok_sel, 'C06.R4', wn.where, 'the per-student list has one entry per row of pairs: the pair whose variable is set, or None when no variable of the row is set',
                  got=show(rv2)[:160], want='per row: selected pair(s) by varValue, else None', construct='with_none schema')
        return
    if rv2[0] == 'accum':
        ents = list(rv2[2])
    elif rv2[0] in ('cat', 'comp'):
        ents = [('append', NONE, c_[2], c_[1]) for c_ in ([rv2] if rv2[0] == 'comp' else [p_ for p_ in rv2[1] if p_[0] == 'comp'])]
    rows_ok = bool(ents) and all(ch and ch[0][0][3] == A(lp.MODEL, 'pairs') for _, _, _, ch in ents)
    nones = [en for en in ents if en[2] == NONE]
    others = [en for en in ents if en[2] != NONE]
    def guards_of(en):
        gs = [g for _, g in en[3] if g != TRUE and g != en[2]]         # `if matched: extend(matched)`: the list's own truthiness selects nothing
        if en[2][0] == 'comp':                     # extend([pair for pair in row if <selected>])
            gs += [g for _, g in en[2][1] if g != TRUE]
        return gs
    uses_var = bool(others) and all(len(guards_of(en)) == 1 and selects_set_variable(guards_of(en)[0]) for en in others)
    none_neg = len(nones) == 1 and contains(nones[0][3][-1][1], lambda x: x[0] == 'not')
    if len(nones) == 1 and rv2[0] == 'accum' and len(rv2) > 3:
        own = [x for x in walk(nones[0][3][-1][1]) if x[0] in ('carried', 'prefix') and x[1] == rv2[3]]
        if own:
            # "nothing was added for this row" decided by the length of the list being built, before and after the row: the
            # interpreter has one symbol for the list inside an iteration, so the two reads cannot be told apart here
            rep.inconclusive('C06.R4', wn.where, 'the "no pair selected" test of the per-student list is a flag or a test over the row', got='reads the list being built: ' + show(nones[0][3][-1][1])[:100])
            return
    if none_neg:
        # the "nothing selected" test must be about THIS row: a flag carried over from earlier rows is stale
        g_none = nones[0][3][-1][1]
        row_b = nones[0][3][-1][0]
        stale = [x for x in walk(g_none) if x[0] in ('carried', 'prefix')]
        local = [x for x in walk(g_none) if x[0] == 'accum' and x[2] and all(len(e_[3]) == 1 and e_[3][0][0][3] == row_b for e_ in x[2])]
        if stale and not local:
            rep.fail('C06.R4', wn.where, 'an unassigned student gets a None entry: the "no pair selected" test looks at the pairs of that student only',
                     got='None is appended when (%s): %s is carried over from the rows before' % (show(g_none)[:80], show(stale[0])), want='a flag reset for every row (or any(...) over the row)',
                     construct='with_none stale flag')
            return
    rep.check(rows_ok and len(nones) == 1 and others and uses_var and none_neg, 'C06.R4', wn.where,
              'the per-student list has one entry per row of pairs: the pair whose variable is set, or None when no variable of the row is set',
              got=[(op, show(v)[:50]) for op, _, v, _ in ents], want='per row: selected pair(s) by varValue, else None', construct='with_none schema')
