"""C06 -- the stability checker answers True exactly for matchings without a blocking pair (DESIGN.md section 5, C06).

R1 decision table: the per-pair verdict of check_stability is evaluated (finite evaluator, 3-valued, Python's
   short-circuit order) on every feasible valuation of the atomic comparisons and compared with the blocking-pair
   definition; any TypeError/AttributeError path is a violation ("always returns a boolean").
R2 helper schemas (count per project/lecturer skipping None; worst = max rank_lecturer, None when empty).
R3 quantification: all rows x all pairs; False on the first hit, True after the loops.
R4 the caller prints exactly this value for the per-student list aligned with `pairs`."""
import ast, itertools

from ..terms import *
from ..absint import Interp, iter_effects
from ..finite import FiniteEval, NOATOM, Stop, Raises
from ..loader import AnalysisError
from .. import lp

RULES = {
    'C06.R1': 'decision table of the per-pair verdict (atoms by provenance, all feasible valuations, 3-valued) equals the SPA-STL blocking-pair definition and never errs',
    'C06.R2': 'helper schemas: assignment counts per project / lecturer skip None; worst rank = max rank_lecturer of the assignees, None when there is none',
    'C06.R3': 'every acceptable pair of every student is examined; the function returns False at the first blocking pair and True otherwise',
    'C06.R4': 'get_results prints str(check_stability(per-student assignment list with None)) as stability_correct, only when stability was requested',
}

ATOMS = ['UNASSIGNED', 'ISSELF', 'PREFERS', 'SEQ', 'PU', 'LU', 'SAME', 'WP_NONE', 'WL_NONE', 'PPREF', 'PEQ', 'LPREF', 'LEQ']


def spec_blocks(v):
    W = v['UNASSIGNED'] or v['PREFERS']
    lpref = (not v['WL_NONE']) and v['LPREF']
    ppref = (not v['WP_NONE']) and v['PPREF']
    same = (not v['UNASSIGNED']) and v['SAME']
    return W and ((v['PU'] and v['LU']) or (v['PU'] and not v['LU'] and (same or lpref)) or ((not v['PU']) and ppref))


def feasible(v):
    if v['UNASSIGNED'] and (v['PREFERS'] or v['SEQ'] or v['SAME']):
        return False                         # comparisons with an absent assignment carry no information: fix them to False
    if v['PREFERS'] and v['SEQ']:
        return False
    if v['ISSELF'] and (v['UNASSIGNED'] or not v['SEQ'] or not v['SAME'] or v['WP_NONE'] or v['WL_NONE']):
        return False                         # the pair examined is the student's own assignment
    if v['WP_NONE'] and (v['PPREF'] or v['PEQ']):
        return False
    if v['WL_NONE'] and (v['LPREF'] or v['LEQ']):
        return False
    if v['PPREF'] and v['PEQ']:
        return False
    if v['LPREF'] and v['LEQ']:
        return False
    if v['WL_NONE'] and not v['WP_NONE']:
        return False                         # M(p) is a subset of M(l)
    if v['SAME'] and v['WL_NONE']:
        return False                         # s in M(l) => l has an assignee
    if not v['WP_NONE'] and not v['WL_NONE']:
        # worst of M(p) is no worse than worst of M(l):  rank < worstP  =>  rank < worstL ;  rank == worstP => rank <= worstL
        if v['PPREF'] and not v['LPREF']:
            return False
        if v['PEQ'] and not (v['LPREF'] or v['LEQ']):
            return False
    if v['WP_NONE'] and not v['PU']:
        pass                                  # full with nobody assigned: upper quota 0 -- feasible
    if not v['LU'] and v['WL_NONE']:
        pass                                  # lecturer with upper quota 0
    return True


def classify_helper(repo, f):
    """-> ('COUNT'|'WORST', 'P'|'L', None) or ('BAD', sort, why) from the helper's effect summary; raises Unknown when the
    helper is not a scatter-fold at all.  Shapes are normalised (shared sub-helpers, index functions, merged or split
    first-or-max updates, `is None` / `== None`, early continue)."""
    import itertools
    it = Interp(repo)
    effs, rv = it.run(f, {}, selfterm=lp.MODEL)
    if rv[0] != 'accum':
        raise Unknown('helper %s does not return a scatter-fold' % f.name)
    pre, entries = rv[1], rv[2]
    size = None
    if pre[0] == 'bin' and pre[1] == 'Mult':
        lst, n = (pre[2], pre[3]) if pre[2][0] == 'list' else (pre[3], pre[2])
        a = lp.model_attr(n)
        if lst[0] == 'list' and len(lst[1]) == 1 and a in ('num_projects', 'num_lecturers'):
            size = ('P' if a == 'num_projects' else 'L', lst[1][0])
    if size is None:
        raise Unknown('helper %s: result is not one slot per project/lecturer' % f.name)
    sort, init = size
    keyattr = 'project_index' if sort == 'P' else 'lecturer_index'
    param = S(f.params[1])
    def notnone(b):
        return [NOT(CMP('Eq', b, NONE)), CMP('NotEq', b, NONE), NOT(CMP('Is', b, NONE)), CMP('IsNot', b, NONE)]
    def split_guard(g, b):
        conj = list(g[2]) if (g[0] == 'bool' and g[1] == 'and') else [g]
        nn = [c for c in conj if c in notnone(b)]
        rest = [c for c in conj if c not in notnone(b)]
        return bool(nn), rest
    if init == C(0):
        ok = len(entries) == 1
        if ok:
            op, idx, val, ch = entries[0]
            b, g = ch[0]
            has_nn, rest = split_guard(g, b)
            ok = op == 'addidx' and val == C(1) and len(ch) == 1 and b[3] == param and idx == A(b, keyattr) and has_nn and not rest
        if not ok:
            return ('BAD', sort, 'count helper %s does not add 1 at the own %s of every non-None entry' % (f.name, keyattr))
        return ('COUNT', sort, None)
    if init == NONE:
        bad = ('BAD', sort, 'worst-rank helper %s does not keep the maximum rank_lecturer per %s (None when empty)' % (f.name, keyattr))
        if not entries:
            return bad
        guards = []
        for op, idx, val, ch in entries:
            if len(ch) != 1:
                return bad
            b, g = ch[0]
            has_nn, rest = split_guard(g, b)
            if not (op == 'setidx' and idx == A(b, keyattr) and val == A(b, 'rank_lecturer') and b[3] == param and has_nn):
                return bad
            guards.append((AND(*rest) if rest else TRUE, b))
        # union of the update conditions must be  (slot is None) or (rank > slot), evaluated in order (elif chains arrive as
        # mutually exclusive guards; `not (slot is None)` conjuncts are evaluated under the valuation)
        def ev(t, b, N, G):
            slot_forms = lambda x: x[0] == 'idx' and x[1][0] in ('carried', 'prefix') and x[2] == A(b, keyattr)
            if t == TRUE: return True
            if t == FALSE: return False
            if t[0] == 'not':
                v = ev(t[1], b, N, G); return None if v is None else not v
            if t[0] == 'bool':
                vs = [ev(x, b, N, G) for x in t[2]]
                if t[1] == 'and':
                    if any(v is False for v in vs): return False
                    return None if any(v is None for v in vs) else True
                if any(v is True for v in vs): return True
                return None if any(v is None for v in vs) else False
            if t[0] == 'cmp':
                a_, c_ = t[2], t[3]
                if t[1] in ('Eq', 'Is', 'NotEq', 'IsNot') and ((slot_forms(a_) and c_ == NONE) or (slot_forms(c_) and a_ == NONE)):
                    return N if t[1] in ('Eq', 'Is') else not N
                rk = A(b, 'rank_lecturer')
                if (t[1] == 'Gt' and a_ == rk and slot_forms(c_)) or (t[1] == 'Lt' and slot_forms(a_) and c_ == rk):
                    return None if N else G
                if (t[1] == 'GtE' and a_ == rk and slot_forms(c_)) or (t[1] == 'LtE' and slot_forms(a_) and c_ == rk):
                    return None if N else 'GE'
            return 'UNK'
        for N, G in ((True, False), (False, True), (False, False)):
            vals = [ev(g, b, N, G) for g, b in guards]
            if any(v in ('UNK', 'GE') for v in vals):
                if any(v == 'GE' for v in vals):
                    continue      # >= instead of > keeps the same maximum
                raise Unknown('worst-rank helper %s: update condition not recognised' % f.name)
            got = any(v is True for v in vals)
            want = N or G
            if got != want:
                return bad
        return ('WORST', sort, None)
    raise Unknown('helper %s: unknown initial slot value %s' % (f.name, show(init)))


def run(rep, repo, tier):
    for k, v in RULES.items():
        rep.rule(k, v)
    rep.assumptions += ['the assignment respects project and lecturer upper quotas and assigns students to acceptable projects (precondition in the property)',
                        'M(p) is a subset of M(l); a lecturer with an assignee of one of his projects has an assignee']
    f = repo.method('Model', 'check_stability')
    fn = f.node
    param = f.params[1]
    # ---- structure: helper calls, row loop, pair loop ------------------------------------------------------
    kinds = {}
    helper_names = set()
    rowloop = None
    for s in fn.body:
        if isinstance(s, ast.Assign) and len(s.targets) == 1 and isinstance(s.targets[0], ast.Name) and isinstance(s.value, ast.Call) \
                and isinstance(s.value.func, ast.Attribute) and isinstance(s.value.func.value, ast.Name) and s.value.func.value.id == 'self':
            h = repo.classes['Model'].get(s.value.func.attr)
            if h is None:
                continue
            argok = len(s.value.args) == 1 and isinstance(s.value.args[0], ast.Name) and s.value.args[0].id == param
            try:
                k = classify_helper(repo, h)
            except Unknown as u:
                rep.inconclusive('C06.R2', h.where, 'helper is a recognised scatter-fold', got=str(u))
                continue
            if k[0] == 'BAD':
                rep.fail('C06.R2', h.where, 'helper schema', got=k[2], construct='helper %s schema' % h.name)
                continue
            rep.check(argok, 'C06.R2', f.where, '%s is computed from the assignment being checked' % s.targets[0].id, got=ast.unparse(s.value), construct='helper argument %s' % ast.unparse(s.value))
            rep.ok('C06.R2', h.where, '%s = %s per %s' % (h.name, 'assignment count (None skipped)' if k[0] == 'COUNT' else 'worst (max) lecturer rank, None when empty', 'project' if k[1] == 'P' else 'lecturer'))
            kinds[s.targets[0].id] = (k[0], k[1])
            helper_names.add(h.name)
        elif isinstance(s, ast.For):
            rowloop = s
    need = {('COUNT', 'P'), ('COUNT', 'L'), ('WORST', 'P'), ('WORST', 'L')}
    if set(kinds.values()) != need:
        rep.inconclusive('C06.R2', f.where, 'the four helper results (count/worst x project/lecturer) are identified', got=kinds)
        return
    if rowloop is None:
        rep.inconclusive('C06.R3', f.where, 'row loop found', got='no for-loop')
        return
    # row loop: for i, row in enumerate(self.pairs)
    it_ = rowloop.iter
    okrow = (isinstance(it_, ast.Call) and isinstance(it_.func, ast.Name) and it_.func.id == 'enumerate' and ast.unparse(it_.args[0]) == 'self.pairs'
             and isinstance(rowloop.target, ast.Tuple) and len(rowloop.target.elts) == 2)
    if not okrow:
        rep.inconclusive('C06.R3', f.where, 'the outer loop enumerates self.pairs', got=ast.unparse(rowloop.iter))
        return
    ivar, rowvar = rowloop.target.elts[0].id, rowloop.target.elts[1].id
    pairloops = [s for s in rowloop.body if isinstance(s, ast.For)]
    if len(pairloops) != 1 or not (isinstance(pairloops[0].iter, ast.Name) and pairloops[0].iter.id == rowvar and isinstance(pairloops[0].target, ast.Name)):
        rep.inconclusive('C06.R3', f.where, 'the inner loop visits every pair of the row', got=[ast.unparse(s.iter) for s in pairloops])
        return
    pairloop = pairloops[0]
    pvar = pairloop.target.id
    rowpre = [s for s in rowloop.body if s is not pairloop]
    rep.ok('C06.R3', f.where, 'all rows of self.pairs x all pairs of the row are examined', got='for %s, %s in enumerate(self.pairs): for %s in %s' % (ivar, rowvar, pvar, rowvar))
    last = fn.body[-1]
    rep.check(isinstance(last, ast.Return) and isinstance(last.value, ast.Constant) and last.value.value is True, 'C06.R3', f.where,
              'True is returned after all pairs were examined', got=ast.unparse(last), want='return True', construct='final return ' + ast.unparse(last))
    for r in ast.walk(fn):
        if isinstance(r, ast.Return):
            rep.check(isinstance(r.value, ast.Constant) and isinstance(r.value.value, bool), 'C06.R3', f.where, 'every return is a boolean', got=ast.unparse(r),
                      construct='non-boolean return ' + ast.unparse(r), loc='%s:%d' % (f.relpath, r.lineno))
    # ---- decision table --------------------------------------------------------------------------------------
    UQ = {'proj_upper_quotas': 'P', 'lec_upper_quotas': 'L'}
    OWN = {'P': 'project_index', 'L': 'lecturer_index'}
    kind_errors = []

    def make_eval(v):
        def atom(n, env):
            if isinstance(n, ast.Subscript) and isinstance(n.value, ast.Name) and n.value.id == param and isinstance(n.slice, ast.Name) and n.slice.id == ivar:
                return None if v['UNASSIGNED'] else ('obj', 'assigned')
            if isinstance(n, ast.Name) and n.id == pvar:
                return ('obj', 'pair')
            if isinstance(n, ast.Name) and n.id in kinds:
                return ('array', kinds[n.id][0], kinds[n.id][1])
            if isinstance(n, ast.Attribute) and isinstance(n.value, ast.Name) and n.value.id == 'self' and n.attr in UQ:
                return ('array', 'UQ', UQ[n.attr])
            return NOATOM
        fe = FiniteEval(atom)
        fe.resolver = lambda name: (repo.classes['Model'][name].node if name in repo.classes['Model'] and name not in helper_names else None)

        def own(e):
            """('elem', kind, sort, index value) with the pair's own index of that sort?"""
            if not (isinstance(e, tuple) and e and e[0] == 'elem'):
                return None
            ix = e[3]
            if not (isinstance(ix, tuple) and ix and ix[0] == 'attrof' and ix[1] == 'pair'):
                kind_errors.append('array of sort %s indexed by %r' % (e[2], ix))
                return None
            if ix[2] != OWN[e[2]]:
                kind_errors.append('%s array of sort %s indexed by pair.%s' % (e[1], e[2], ix[2]))
                return None
            return (e[1], e[2])

        def hook(op, a, b):
            def is_none_test(x, y):
                return y is None and isinstance(x, tuple) and x and x[0] == 'elem'
            # worst[...] == None
            for x, y in ((a, b), (b, a)):
                if is_none_test(x, y) and isinstance(op, (ast.Eq, ast.NotEq, ast.Is, ast.IsNot)):
                    o = own(x)
                    if o and o[0] == 'WORST':
                        r = v['WP_NONE' if o[1] == 'P' else 'WL_NONE']
                        return r if isinstance(op, (ast.Eq, ast.Is)) else not r
            oa, ob = own(a) if isinstance(a, tuple) and a and a[0] == 'elem' else None, own(b) if isinstance(b, tuple) and b and b[0] == 'elem' else None
            # count vs upper quota
            if oa and ob and {oa[0], ob[0]} == {'COUNT', 'UQ'}:
                if oa[1] != ob[1]:
                    kind_errors.append('count of sort %s compared with upper quota of sort %s' % (oa[1], ob[1]))
                    return NOATOM
                under = v['PU' if oa[1] == 'P' else 'LU']
                cnt_left = oa[0] == 'COUNT'
                t = type(op)
                if not cnt_left:
                    t = {ast.Lt: ast.Gt, ast.Gt: ast.Lt, ast.LtE: ast.GtE, ast.GtE: ast.LtE}.get(t, t)
                # count <= uq always holds (precondition); under <=> count < uq
                return {ast.Lt: under, ast.GtE: not under, ast.Eq: not under, ast.NotEq: under, ast.LtE: True, ast.Gt: False}[t]
            # rank_lecturer vs worst
            def is_rl(x):
                return isinstance(x, tuple) and x and x[0] == 'attrof' and x[1] == 'pair' and x[2] == 'rank_lecturer'
            for x, y, flip in ((a, b, False), (b, a, True)):
                oy = own(y) if isinstance(y, tuple) and y and y[0] == 'elem' else None
                if is_rl(x) and oy and oy[0] == 'WORST':
                    none = v['WP_NONE' if oy[1] == 'P' else 'WL_NONE']
                    t = type(op)
                    if t in (ast.Lt, ast.LtE, ast.Gt, ast.GtE) and none:
                        raise Raises("TypeError: '<' not supported between instances of 'int' and 'NoneType'")
                    if none:
                        return t in (ast.NotEq, ast.IsNot)
                    lt = v['PPREF' if oy[1] == 'P' else 'LPREF']
                    eq = v['PEQ' if oy[1] == 'P' else 'LEQ']
                    if flip:
                        t = {ast.Lt: ast.Gt, ast.Gt: ast.Lt, ast.LtE: ast.GtE, ast.GtE: ast.LtE}.get(t, t)
                    return {ast.Lt: lt, ast.LtE: lt or eq, ast.Gt: not (lt or eq), ast.GtE: not lt, ast.Eq: eq, ast.NotEq: not eq}[t]
            # student ranks: pair.rank_student vs assigned.rank_student
            def attr(x, who, name):
                return isinstance(x, tuple) and x and x[0] == 'attrof' and x[1] == who and x[2] == name
            for x, y, flip in ((a, b, False), (b, a, True)):
                if attr(x, 'pair', 'rank_student') and attr(y, 'assigned', 'rank_student'):
                    t = type(op)
                    if flip:
                        t = {ast.Lt: ast.Gt, ast.Gt: ast.Lt, ast.LtE: ast.GtE, ast.GtE: ast.LtE}.get(t, t)
                    lt, eq = v['PREFERS'], v['SEQ']
                    return {ast.Lt: lt, ast.LtE: lt or eq, ast.Gt: not (lt or eq), ast.GtE: not lt, ast.Eq: eq, ast.NotEq: not eq}[t]
            # identity of the examined pair with the student's assignment
            def isobj(x, who):
                return isinstance(x, tuple) and x and x[0] == 'obj' and x[1] == who
            if (isobj(a, 'pair') and isobj(b, 'assigned')) or (isobj(a, 'assigned') and isobj(b, 'pair')):
                if isinstance(op, (ast.Is, ast.Eq)):
                    return v['ISSELF']
                if isinstance(op, (ast.IsNot, ast.NotEq)):
                    return not v['ISSELF']
            # same lecturer
            LEC = ('lecturer_index', 'lecturerID')
            for x, y in ((a, b), (b, a)):
                if isinstance(x, tuple) and x and x[0] == 'attrof' and x[1] == 'assigned' and x[2] in LEC and isinstance(y, tuple) and y and y[0] == 'attrof' and y[1] == 'pair' and y[2] in LEC:
                    if x[2] != y[2]:
                        kind_errors.append('lecturer id compared with lecturer index (%s vs %s)' % (x[2], y[2]))
                        return NOATOM
                    if isinstance(op, (ast.Eq, ast.NotEq)):
                        return v['SAME'] if isinstance(op, ast.Eq) else not v['SAME']
            return NOATOM
        fe.cmp_hook = hook
        return fe

    vals = []
    for bits in itertools.product([False, True], repeat=len(ATOMS)):
        v = dict(zip(ATOMS, bits))
        if feasible(v):
            vals.append(v)
    rep.count('feasible_valuations', len(vals))
    mism, errs, unknown = [], [], None
    for v in vals:
        fe = make_eval(v)
        env = {'self': ('obj', 'self')}
        verdict = None
        try:
            fe.run(rowpre, env)
            try:
                fe.run(pairloop.body, env)
                verdict = 'continue'
            except Stop as st:
                if st.kind == 'return':
                    verdict = 'returns ' + str(st.value)
                elif st.kind == 'continue':
                    verdict = 'continue'
                elif st.kind == 'break':
                    verdict = 'break'
        except Raises as r:
            errs.append((v, str(r)))
            continue
        except Unknown as u:
            unknown = str(u)
            break
        blocks = spec_blocks(v)
        got_blocks = (verdict == 'returns False')
        if verdict == 'break' and v['ISSELF'] and not blocks:
            pass      # rows are sorted by rank: pairs after the student's own assignment are not preferred, so stopping here is sound
        elif verdict == 'break' or verdict == 'returns True':
            mism.append((v, verdict, blocks))
        elif got_blocks != blocks:
            mism.append((v, verdict, blocks))
    if kind_errors:
        rep.fail('C06.R1', f.where, 'every array is indexed by, and compared with, the value of its own sort', got=sorted(set(kind_errors))[0], want='project arrays by pair.project_index, lecturer arrays by pair.lecturer_index, index with index',
                 construct='kind error: ' + sorted(set(kind_errors))[0])
    if unknown:
        rep.inconclusive('C06.R1', f.where, 'the per-pair verdict is inside the evaluated fragment', got=unknown)
        return
    short = lambda v: ', '.join(k for k in ATOMS if v[k]) or '(all false)'
    if errs:
        v, msg = errs[0]
        rep.fail('C06.R1', f.where, 'the check never fails: no comparison with an absent value on any feasible valuation (%d of %d valuations raise)' % (len(errs), len(vals)),
                 got='%s when {%s}' % (msg, short(v)), want='a boolean', construct='raises ' + msg.split(':')[0])
    if mism:
        v, verdict, blocks = mism[0]
        rep.fail('C06.R1', f.where, 'verdict equals the blocking-pair definition on all %d feasible valuations (%d differ)' % (len(vals), len(mism)),
                 got='{%s}: code %s, definition says the pair %s' % (short(v), verdict, 'blocks' if blocks else 'does not block'), want='return False iff the pair blocks',
                 construct='decision table differs on %d valuations' % len(mism))
    if not errs and not mism and not kind_errors:
        rep.ok('C06.R1', f.where, 'decision table: %d feasible valuations of %d atoms, verdict = definition, no error path' % (len(vals), len(ATOMS)), got='exhaustive')
    rep.extra['exhaustive_valuations'] = len(vals)
    check_caller(rep, repo)


def flatten_str(t):
    """String-building term -> list of parts (constants and holes)."""
    if t[0] == 'bin' and t[1] == 'Add':
        return flatten_str(t[2]) + flatten_str(t[3])
    if t[0] == 'fstr':
        out = []
        for x in t[1]:
            out += flatten_str(x)
        return out
    return [t]


def check_caller(rep, repo):
    f = repo.method('Model', 'get_results')
    cs = repo.method('Model', 'check_stability')
    it = Interp(repo)
    try:
        effs, rv = it.run(f, {p_: S(p_) for p_ in f.params[1:]}, selfterm=lp.MODEL)
    except Unknown as u:
        rep.inconclusive('C06.R4', f.where, 'get_results is inside the interpreted fragment', got=str(u))
        return
    calls = [(e, c) for e, c in iter_effects(effs) if e.kind == 'call' and e.target is cs]
    rep.check(len(calls) == 1, 'C06.R4', f.where, 'get_results calls check_stability once', got='%d calls' % len(calls), construct='check_stability call count')
    if len(calls) != 1:
        return
    call, cctx = calls[0]
    ret = call.ret
    guards = [(c.cond if br else NOT(c.cond)) for c, br in cctx if c.kind == 'if']
    flat = []
    for g in guards:
        flat += list(g[2]) if (g[0] == 'bool' and g[1] == 'and') else [g]
    stab = S(f.params[2]) if len(f.params) > 2 else S('stable_correctness')
    rep.check(any(g in (stab, CMP('Eq', stab, TRUE), CMP('Is', stab, TRUE)) for g in flat), 'C06.R4', f.where,
              'the stability check runs, and stability_correct is printed, exactly when stability was requested', got=[show(g)[:60] for g in flat],
              want='if stable_correctness:', construct='stability_correct guard')
    # argument: the per-student list with None
    wn = repo.method('Model', '_get_pair_assignments_with_none')
    wn_calls = [e for e, c in iter_effects(effs) if e.kind == 'call' and e.target is wn]
    ok_arg = len(call.args) == 1 and any(call.args[0] == e.ret for e in wn_calls)
    rep.check(ok_arg, 'C06.R4', f.where, 'the checker is given the per-student assignment list (one entry per student, None when unassigned)',
              got=show(call.args[0])[:120] if call.args else None, want='self._get_pair_assignments_with_none()', construct='check_stability argument')
    # printed right after the label
    found = False
    def scan(t):
        nonlocal found
        for x in walk(t):
            if x[0] in ('bin', 'fstr'):
                parts = flatten_str(x)
                for i_, p_ in enumerate(parts[:-1]):
                    if p_[0] == 'const' and isinstance(p_[1], str) and p_[1].endswith('stability_correct: '):
                        nxt = parts[i_ + 1]
                        if nxt == ret or nxt == CALL(S('str'), [ret]):
                            found = True
    for e, c in iter_effects(effs):
        for k_, v_ in e.__dict__.items():
            if isinstance(v_, tuple) and v_ and isinstance(v_[0], str):
                scan(v_)
    scan(rv)
    rep.check(found, 'C06.R4', f.where, "the value returned by check_stability is printed unchanged right after the label 'stability_correct: '",
              got='label followed by the returned value: %s' % found, want="'stability_correct: ' + str(self.check_stability(..))", construct='stability_correct formatting')
    # with_none helper: one entry per row of pairs
    try:
        effs2, rv2 = Interp(repo).run(wn, {}, selfterm=lp.MODEL)
    except Unknown as u:
        rep.inconclusive('C06.R4', wn.where, 'with_none helper is inside the interpreted fragment', got=str(u))
        return
    ents = []
    from ..shapes import placeholder_extend
    pe = placeholder_extend(rv2)
    if pe is not None:
        # one extend per row: the row's selected pair(s), or [None] when there is none
        rows, chosen = pe
        ok_rows = len(rows) == 1 and rows[0][0][3] == A(lp.MODEL, 'pairs') and rows[0][1] == TRUE
        ok_sel = len(chosen[1]) == 1 and chosen[1][0][0][3] == rows[0][0] and chosen[2] == chosen[1][0][0] and contains(chosen[1][0][1], lambda x: x[0] == 'attr' and x[2] == 'varValue')
        rep.check(ok_rows and ok_sel, 'C06.R4', wn.where, 'the per-student list has one entry per row of pairs: the pair whose variable is set, or None when no variable of the row is set',
                  got=show(rv2)[:160], want='per row: selected pair(s) by varValue, else None', construct='with_none schema')
        return
    if rv2[0] == 'accum':
        ents = list(rv2[2])
    elif rv2[0] in ('cat', 'comp'):
        ents = [('append', NONE, c_[2], c_[1]) for c_ in ([rv2] if rv2[0] == 'comp' else [p_ for p_ in rv2[1] if p_[0] == 'comp'])]
    rows_ok = bool(ents) and all(ch and ch[0][0][3] == A(lp.MODEL, 'pairs') for _, _, _, ch in ents)
    nones = [en for en in ents if en[2] == NONE]
    others = [en for en in ents if en[2] != NONE]
    uses_var = any(contains(('x', en[2]) + tuple(g for _, g in en[3]), lambda x: x[0] == 'attr' and x[2] == 'varValue') for en in others)
    none_neg = len(nones) == 1 and contains(nones[0][3][-1][1], lambda x: x[0] == 'not')
    if none_neg:
        # the "nothing selected" test must be about THIS row: a flag carried over from earlier rows is stale
        g_none = nones[0][3][-1][1]
        row_b = nones[0][3][-1][0]
        stale = [x for x in walk(g_none) if x[0] in ('carried', 'prefix')]
        local = [x for x in walk(g_none) if x[0] == 'accum' and x[2] and all(len(e_[3]) == 1 and e_[3][0][0][3] == row_b for e_ in x[2])]
        if stale and not local:
            rep.fail('C06.R4', wn.where, 'an unassigned student gets a None entry: the "no pair selected" test looks at the pairs of that student only',
                     got='None is appended when (%s): %s is carried over from the rows before' % (show(g_none)[:80], show(stale[0])), want='a flag reset for every row (or any(...) over the row)',
                     construct='with_none stale flag')
            return
    rep.check(rows_ok and len(nones) == 1 and others and uses_var and none_neg, 'C06.R4', wn.where,
              'the per-student list has one entry per row of pairs: the pair whose variable is set, or None when no variable of the row is set',
              got=[(op, show(v)[:50]) for op, _, v, _ in ents], want='per row: selected pair(s) by varValue, else None', construct='with_none schema')
