"""C03 -- each criterion optimises the documented quantity (DESIGN.md section 5, C03)."""
from ..terms import *
from ..poly import *
from .. import lp, lpfacts, spec
from ..absint import Interp, iter_effects, collect_acc
from .c01 import check_scatter

RULES_EXTRA = {'C03.R6': 'multipliers and cut-offs reach their criterion as given: the parser keeps (criterion, arguments[1:]) unchanged, so the documented defaults are the ones the criterion applies itself'}
RULES = {
    'C03.R1': 'objective schema per criterion and arity: (linear form, link, loop range and order, defaults) equals the documented criterion table',
    'C03.R2': 'sense x sign: the problem sense and the sign handed to the solve give MAX / MIN as documented',
    'C03.R3': 'load-deviation definition: d_k >= load_k - t_k and d_k >= t_k - load_k for every lecturer, in place before the first solve',
    'C03.R5': 'the optimum ranges over exactly the requested feasible region: before the first solve the problem holds exactly the reference validity (+stability, +deviation) families',
    'C03.R4': 'rank-list schema: rank_lists[r-1] = pairs of student rank r, sized by the maximum rank (a max-fold over all pairs)',
}

# link forms accepted per direction (reference syntax; obj_OBJ = the criterion's objective variable, FORM = measured form)
LINKS = {'MIN': ['FORM == obj_OBJ', 'obj_OBJ >= FORM'], 'MAX': ['FORM == obj_OBJ', 'obj_OBJ <= FORM']}


def reference_links(name, arity):
    sp = spec.CRITERIA[name]
    form = sp['form']
    subs = {}
    for i in range(sp['nextras']):
        if i < arity:
            subs['a%d' % i] = 'arg%d' % i
        else:
            d = sp['defaults'][i]
            subs['a%d' % i] = str(d)
    for k, v in subs.items():
        form = form.replace(k, '(%s)' % v)
    quants = []
    if name in ('GENEROUS', 'GREEDY'):
        quants = ['r']
    out = []
    if name == 'LOADMAXBAL':
        out.append((['k:L'], 'obj_OBJ >= d[k]'))
        return out, quants
    for l in LINKS[sp['dir']]:
        out.append(([], l.replace('FORM', '(%s)' % form)))
    return out, quants


class Bound:
    """max/min-normalised integer bound: ('poly', text) or ('max'|'min', frozenset of texts)."""
    def __init__(self, canon, term, shift=0):
        self.kind, self.parts = self.norm(canon, term, shift)

    def norm(self, cn, t, shift):
        if t[0] == 'call' and t[1] in (S('max'), S('min')) and len(t[2]) >= 2:
            def flat(x, sh):
                # max(a, max(b, c)) == max(a, b, c); constants added inside distribute over max / min
                if x[0] == 'call' and x[1] == t[1] and len(x[2]) >= 2:
                    out = []
                    for y in x[2]:
                        out += flat(y, sh)
                    return out
                if x[0] == 'bin' and x[1] in ('Add', 'Sub') and is_num(x[3]) and x[2][0] == 'call' and x[2][1] == t[1]:
                    return flat(x[2], sh + (x[3][1] if x[1] == 'Add' else -x[3][1]))
                return [(x, sh)]
            ps = [padd(cn.poly(a), pconst(shift + sh)) for a, sh in flat(t, 0)]
            keys = {pkey(p): p for p in ps}
            if len(keys) == 1:
                return 'poly', frozenset([pshow(ps[0])])
            if all(is_pconst(p) for p in ps):
                v = (max if t[1][1] == 'max' else min)(pconstval(p) for p in ps)
                return 'poly', frozenset([str(v)])
            return t[1][1], frozenset(pshow(p) for p in keys.values())
        if t[0] == 'bin' and t[1] in ('Add', 'Sub') and is_num(t[3]):
            return self.norm(cn, t[2], shift + (t[3][1] if t[1] == 'Add' else -t[3][1]))
        if t[0] == 'bin' and t[1] == 'Add' and is_num(t[2]):
            return self.norm(cn, t[3], shift + t[2][1])
        return 'poly', frozenset([pshow(padd(cn.poly(t), pconst(shift)))])

    def text(self):
        if self.kind == 'poly':
            return next(iter(self.parts))
        return '%s(%s)' % (self.kind, ', '.join(sorted(self.parts)))


def rank_range(cn, args):
    """range(...) argument terms -> (first, last, 'asc'|'desc') as Bound texts, elements first..last inclusive."""
    if len(args) == 1:
        return '0', Bound(cn, args[0], -1).text(), 'asc'
    if len(args) == 2:
        return Bound(cn, args[0]).text(), Bound(cn, args[1], -1).text(), 'asc'
    if len(args) == 3 and is_num(args[2]) and args[2][1] in (1, -1):
        if args[2][1] == 1:
            return Bound(cn, args[0]).text(), Bound(cn, args[1], -1).text(), 'asc'
        return Bound(cn, args[0]).text(), Bound(cn, args[1], 1).text(), 'desc'
    raise Unknown('rank range step')


CMPF = {'Lt': lambda a, b: a < b, 'LtE': lambda a, b: a <= b, 'Gt': lambda a, b: a > b, 'GtE': lambda a, b: a >= b, 'Eq': lambda a, b: a == b, 'NotEq': lambda a, b: a != b}


def eval_bound(cn, t, R_, k_):
    if is_num(t):
        return t[1]
    if t[0] == 'call' and t[1] in (S('max'), S('min')) and len(t[2]) >= 2 and not (len(t) > 3 and t[3]):
        return (max if t[1][1] == 'max' else min)(eval_bound(cn, x, R_, k_) for x in t[2])
    if t[0] == 'bin' and t[1] in ('Add', 'Sub'):
        a, b = eval_bound(cn, t[2], R_, k_), eval_bound(cn, t[3], R_, k_)
        return a + b if t[1] == 'Add' else a - b
    if t[0] == 'bool' and t[1] in ('or', 'and'):
        v = None
        for x in t[2]:                      # Python's value semantics on integers (0 is falsy)
            v = eval_bound(cn, x, R_, k_)
            if bool(v) == (t[1] == 'or'):
                return v
        return v
    if t[0] == 'ite':
        c = t[1]
        if c[0] == 'cmp' and c[1] in CMPF:
            return eval_bound(cn, t[2] if CMPF[c[1]](eval_bound(cn, c[2], R_, k_), eval_bound(cn, c[3], R_, k_)) else t[3], R_, k_)
        if c[0] == 'not':
            return eval_bound(cn, ('ite', c[1], t[3], t[2]), R_, k_)
        return eval_bound(cn, t[2] if eval_bound(cn, c, R_, k_) else t[3], R_, k_)
    txt = cn.pstr(t)
    if txt == 'R':
        return R_
    if txt == 'arg0':
        return k_
    raise Unknown('bound atom ' + txt)


def range_elems(cn, args, flip, R_, k_):
    vals = [eval_bound(cn, a, R_, k_) for a in args]
    out = list(range(*vals))
    return out[::-1] if flip else out


def want_elems(name, arity, R_, k_):
    if name == 'GENEROUS':
        return list(range(R_, (max(1, k_) if arity >= 1 else 1) - 1, -1))
    return list(range(1, (min(R_, k_) if arity >= 1 else R_) + 1))


def want_range(name, arity):
    if name == 'GENEROUS':
        last = 'max(1, arg0)' if arity >= 1 else '1'
        return 'R', last, 'desc'
    last = 'min(R, arg0)' if arity >= 1 else 'R'
    return '1', last, 'asc'


def run(rep, repo, tier):
    for k, v in RULES.items():
        rep.rule(k, v)
    from ..defined import check_defined
    check_defined(rep, repo, 'C03.R5', [repo.method('Solver', '__init__'), repo.method('Solver', 'solve'), repo.method('Solver', 'get_results_short'), repo.method('Solver', 'get_results_long')], 'solver path')
    rep.assumptions += ['A1/A2 (admissible options: cut-offs are positive integers - one beyond the last rank leaves generous nothing to optimise, C02.R6 decides that the model is still solved -, multipliers non-negative integers)', 'A3 PuLP', 'A6 CBC returns a true optimum',
                        'row facts: q in rank_lists[r-1] <=> rs(q)=r is itself obligation C03.R4']
    for name, sp in spec.CRITERIA.items():
        for arity in range(sp['nextras'] + 1):
            for pc, stab in ([(False, False)] if tier == 'quick' else [(False, False), (True, True)]):
                r = lpfacts.get_run(repo, pc, stab, [lpfacts.crit_config(name, arity)])
                check_criterion(rep, r, name, arity)
                rep.count('specialisations')
    check_rank_lists(rep, repo)
    for k_, v_ in RULES_EXTRA.items():
        rep.rule(k_, v_)
    # the per-rank criteria optimise EVERY rank of their range: the rank loop is left early only after a failed solve
    from .c14 import typestate_check
    typestate_check(rep, repo, 'C03.R1', [(False, False, [lpfacts.crit_config(n_, a_)]) for n_ in ('GENEROUS', 'GREEDY') for a_ in range(spec.CRITERIA[n_]['nextras'] + 1)])
    from .c16 import check_helper
    check_helper(rep, repo, repo.method('Options_parser', '_get_ordered_optimisations'), len(spec.CRITERIA), r1='C03.R6', r3='C03.R6', r6='C03.R6')
    # ... and they are still there, and still the criterion's own, when it runs: nothing on the solve path consumes the
    # parsed arguments (a second solve would fall back to the defaults), none leaks into the next criterion
    from .c16 import check_extras_not_consumed, check_extras_isolation
    check_extras_not_consumed(rep, repo, 'C03.R6')
    check_extras_isolation(rep, repo, tier, 'C03.R6')
    from .c16 import check_parse_keeps_pairs
    check_parse_keeps_pairs(rep, repo, 'C03.R6')
    for pc in (False, True):
        for stab in (False, True):
            for crit in ([lpfacts.crit_config('MINCOST', 2)], [lpfacts.crit_config('LOADSUMBAL')]):
                r = lpfacts.get_run(repo, pc, stab, crit)
                lpfacts.closed_classification(rep, r, 'C03.R5', '[pc=%s stab=%s %s]' % (pc, stab, crit[0][0]))


def check_criterion(rep, r, name, arity):
    sp = spec.CRITERIA[name]
    cfg = '[%s/%d extras]' % (name, arity)
    disp = r.repo.method('LP_Solver', 'run_optimisations').where
    solves = r.of('solve')
    if not solves:
        rep.fail('C03.R1', disp, 'criterion %s performs a solve' % cfg, got='no solve', construct='%s no solve' % name)
        return
    for ev in r.events:
        for t in ([ev.eff.value] if ev.kind in ('store', 'augstore') else []) + ([ev.eff.cmp] if ev.kind == 'addc' else []) + ([ev.eff.up, ev.eff.low] if ev.kind == 'declvar' else []):
            tops = [x for x in walk(t) if x[0] == 'top' and 'Error' in str(x[1])]
            if tops and ev.iters:
                rep.fail('C03.R1', ev.where, 'the optional arguments of %s are read safely' % cfg, got=str(tops[0][1]), want='no exception', construct='%s raises %s' % (name, tops[0][1]), loc=ev.loc)
                return
    # --- R2 direction
    dirs = set()
    for s in solves:
        before = [e for e in r.events if e.order < s.order and e.kind == 'setobj']
        d = lpfacts.setobj_direction(r, before[-1]) if before else None
        if d is None:
            rep.inconclusive('C03.R2', s.where, 'objective of %s is +-(objective variable)' % cfg, got=show(before[-1].eff.expr)[:100] if before else 'none', loc=s.loc)
            return
        dirs.add(d)
    dset = {d for d, _ in dirs}
    rep.check(dset == {sp['dir']}, 'C03.R2', solves[0].where, 'criterion %s is %s' % (cfg, 'maximised' if sp['dir'] == 'MAX' else 'minimised'),
              got=sorted(dset), want=sp['dir'], construct='%s direction %s' % (name, sorted(dset)), loc=solves[0].loc)
    # --- R1 link family
    objvars = {v for _, v in dirs}
    links = [e for e in r.of('addc') if e.fam is not None and e.iters and set(lpfacts.obj_vars(e.fam)) & objvars and lpfacts.is_freeze(e.fam) is None]
    bad = [e for e in r.of('addc') if e.fam is None and e.iters]
    if bad:
        lpfacts.report_unnormalised(rep, 'C03.R1', bad[0], 'the constraint linking the objective of %s is inside the recognised fragment' % cfg, cfg)
        return
    refs, rq = reference_links(name, arity)
    refp = lp.RefParser()
    ref_cores = []
    for quants, text in refs:
        ref_cores.append(lpfacts.norm_family(refp.family(text, quants)).core())
    if not links:
        rep.fail('C03.R1', solves[0].where, 'the objective variable of %s is linked to the measured quantity' % cfg, got='no linking constraint', want=ref_cores[0],
                 construct='%s link absent' % name, loc=solves[0].loc)
        return
    for e in links:
        fam = lpfacts.rename_obj(e.fam)
        qs = [q for q in fam.quants if not q.startswith('r:')]
        rq_got = [q for q in fam.quants if q.startswith('r:')]
        core = lp.Family(qs, (), fam.op, fam.monos).core()
        ok = core in ref_cores
        rep.check(ok, 'C03.R1', e.where, 'measured quantity of %s equals the documented one' % cfg, got=core, want=' | '.join(ref_cores),
                  construct='%s form: %s' % (name, core), loc=e.loc)
        rep.check(not e.sym_ifs, 'C03.R1', e.where, 'the link of %s is unconditional' % cfg, got=[show(c.cond) for c, _ in e.sym_ifs], construct='%s link conditional' % name, loc=e.loc)
        # must be added before the solve that optimises it
        s_after = [s for s in solves if s.order > e.order and s.loops == e.loops[:len(s.loops)]]
        rep.check(bool(s_after), 'C03.R1', e.where, 'the link of %s is in place before its solve' % cfg, got='no solve after the link in the same step', construct='%s link after solve' % name, loc=e.loc)
        if name in ('GENEROUS', 'GREEDY'):
            if len(rq_got) != 1:
                rep.fail('C03.R1', e.where, '%s solves once per rank' % cfg, got=fam.quants, want='one rank loop', construct='%s rank loop' % name, loc=e.loc)
                continue
            check_rank_loop(rep, r, e, name, arity, 'C03.R1', cfg)
        elif rq_got:
            rep.fail('C03.R1', e.where, '%s is a single solve' % cfg, got=fam.quants, construct='%s inside a rank loop' % name, loc=e.loc)
    # --- R3
    if name in spec.LOAD_BALANCING:
        lpfacts.lb_agreement(rep, r, 'C03.R3', cfg)


def check_rank_loop(rep, r, e, name, arity, rule, cfg):
    """The per-rank loop enclosing event e covers exactly the documented ranks, in the documented order."""
    loops = [c for c in e.loops if c.kind == 'for']
    if not loops:
        rep.fail(rule, e.where, '%s solves once per rank' % cfg, got='no rank loop', construct='%s rank loop absent' % name, loc=e.loc)
        return
    dom = loops[-1].binder[3]
    try:
        flip = False
        if dom[0] == 'call' and dom[1] == S('reversed') and len(dom[2]) == 1:
            dom, flip = dom[2][0], True
        if not (dom[0] == 'call' and dom[1] == S('range')):
            raise Unknown('rank loop domain ' + show(dom))
        r.canon.begin()
        first, last, order = rank_range(r.canon, dom[2])
        if flip:
            first, last, order = last, first, ('desc' if order == 'asc' else 'asc')
    except Unknown as u:
        rep.inconclusive(rule, e.where, 'rank range of %s is in closed form' % cfg, got=str(u), loc=e.loc)
        return
    w = want_range(name, arity)
    if (first, last, order) != w and order == w[2]:
        # nested max / min that the textual normal form does not flatten (min(R, max(0, min(R, k)))): the bounds are lattice
        # terms over {R, k, small constants}; two such terms are equal iff they agree on every order type of their atoms,
        # and every order type occurs on the grid below (R >= 0 ranks, admissible cut-off k >= 1)
        try:
            same = all(range_elems(r.canon, dom[2], flip, R_, k_) == want_elems(name, arity, R_, k_) for R_ in range(0, 9) for k_ in range(1, 10))
        except Unknown:
            same = False
        if same:
            first, last, order = w
    rep.check((first, last, order) == w, rule, e.where, 'rank range and order of %s (non-empty for every admissible cut-off)' % cfg, got='%s .. %s %s' % (first, last, order),
              want='%s .. %s %s' % w, construct='%s ranks %s..%s %s' % (name, first, last, order), loc=e.loc)


def check_rank_lists(rep, repo, rule='C03.R4'):
    f = repo.method('Model', 'set_rank_lists')
    it = Interp(repo)
    try:
        effs, _ = it.run(f, {}, selfterm=lp.MODEL)
    except Unknown as u:
        rep.inconclusive(rule, f.where, 'set_rank_lists is inside the interpreted fragment', got=str(u))
        return
    from ..shapes import is_max_fold
    check_scatter(rep, rule, f, effs, 'rank_lists', 'maximum rank', 'rank_student', 1, size_ok=lambda t: is_max_fold(t, 'rank_student', 0))
    # users index with r - 1
    for crit in ('GENEROUS', 'GREEDY'):
        r = lpfacts.get_run(repo, False, False, [lpfacts.crit_config(crit, 0)])
        for e in r.of('addc'):
            if e.fam is not None and e.iters and any(q.startswith('r:') for q in e.fam.quants) and lpfacts.is_freeze(e.fam) is None:
                preds = [p for m in e.fam.monos for p in m.preds]
                rep.check('r - rs(q) == 0' in preds, rule, e.where, '%s reads the pairs of rank r from slot r-1' % crit, got=preds, want='rs(q) == r',
                          construct='%s rank slot %s' % (crit, preds), loc=e.loc)


def is_max_rank_fold(t):
    """ACCUM(0; assign value rs(pair) under guard rs(pair) > carried) over all pairs."""
    if t[0] != 'accum' or t[1] != C(0) or len(t[2]) != 1:
        return False
    op, idx, val, ch = t[2][0]
    if op != 'assign' or len(ch) != 2:
        return False
    rows, elem = ch[0][0], ch[1][0]
    if rows[3] != A(lp.MODEL, 'pairs') or elem[3] != rows or ch[0][1] != TRUE:
        return False
    if val != A(elem, 'rank_student'):
        return False
    g = ch[1][1]
    return g[0] == 'cmp' and ((g[1] == 'Gt' and g[2] == val and g[3][0] == 'carried') or (g[1] == 'Lt' and g[3] == val and g[2][0] == 'carried'))
