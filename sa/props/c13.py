"""C13 -- ties written by the generator are read back as the same ties (DESIGN.md section 5, C13)."""
import ast

from ..terms import *
from ..loader import AnalysisError
from ..absint import Interp, iter_effects
from .. import transducer as T

RULES = {
    'C13.R1': 'writer table (in_tie, t, last) -> (decoration, in_tie\') extracted from the loop body; balanced, non-nested, runs >= 2, maximal runs, last decision has no effect',
    'C13.R2': 'reader table (in_tie, decoration) -> (rank actions, in_tie\'); every token yields one element and one rank; decoration stripped before int()',
    'C13.R3': 'product automaton explored completely: adjacent entries share a rank iff the writer tied them; ranks start at 1 and rise by one per run or single entry (=> every list length, every tie vector)',
    'C13.R4': 'one tie indicator is drawn per list element (vector length = own list length)',
    'C13.R5': 'all call sites (first side, second side; 2- and 3-agent files) use the same writer on a list and the indicator vector created for it; the solver reads both sides with the same reader',
}


def find_writer(repo):
    """The tie writer = the one generator function that decorates list entries with '(' and ')' in a loop; its call sites
    in both create_instance methods (directly or through a pass-through wrapper)."""
    gen = repo.rel('generator')
    def paren_strings(f, seen):
        strs = {n.value for n in ast.walk(f.node) if isinstance(n, ast.Constant) and isinstance(n.value, str) and len(n.value) <= 4}
        for n in ast.walk(f.node):
            if isinstance(n, ast.Call) and isinstance(n.func, ast.Name) and n.func.id not in seen:
                for g in repo.funcs_by_name.get(n.func.id, []):
                    if g.relpath.startswith(gen):
                        seen.add(n.func.id)
                        strs |= paren_strings(g, seen)
        return strs
    cands = []
    for f in repo.all_funcs():
        if not f.relpath.startswith(gen):
            continue
        strs = paren_strings(f, {f.name})
        has_paren = any('(' in x for x in strs) and any(')' in x for x in strs)
        loops = [n for n in f.node.body if isinstance(n, ast.For)]
        appends = any(isinstance(n, ast.Call) and isinstance(n.func, ast.Attribute) and n.func.attr == 'append' for n in ast.walk(f.node))
        if has_paren and loops and appends and not f.cls:
            cands.append(f)
    if len(cands) != 1:
        raise AnalysisError('anchor vanished: tie writer (functions decorating entries with parentheses in a loop: %s)' % [c.qualname for c in cands])
    W = cands[0]
    wp = W.params
    wrappers = {W.name: (0, 1)}
    changed = True
    while changed:
        changed = False
        for f in repo.all_funcs():
            if not f.relpath.startswith(gen) or f.name in wrappers:
                continue
            ps = f.params[1:] if f.cls else f.params
            for n in ast.walk(f.node):
                if isinstance(n, ast.Call) and (getattr(n.func, 'id', None) in wrappers or getattr(n.func, 'attr', None) in wrappers) and len(n.args) >= 2:
                    nm = getattr(n.func, 'id', None) or n.func.attr
                    ia, ib = wrappers[nm]
                    a, b = n.args[ia], n.args[ib]
                    if isinstance(a, ast.Name) and isinstance(b, ast.Name) and a.id in ps and b.id in ps:
                        wrappers[f.name] = (ps.index(a.id), ps.index(b.id))
                        changed = True
    found = {}
    for cls in ('Generator_ha_sm_hr', 'Generator_spa'):
        f = repo.method(cls, 'create_instance')
        sites = []
        for n in ast.walk(f.node):
            if isinstance(n, ast.Call):
                nm = getattr(n.func, 'id', None) or getattr(n.func, 'attr', None)
                if nm in wrappers and len(n.args) > max(wrappers[nm]):
                    sites.append((n, wrappers[nm]))
        found[cls] = (f, sites)
    return W, found, wrappers


def helper_resolver(repo, pkg):
    def res(name):
        c = [f for f in repo.funcs_by_name.get(name, []) if f.relpath.startswith(pkg)]
        return c[0].node if len(c) == 1 else None
    return res


def find_reader(repo):
    """The tokeniser called by both row builders of the file reader."""
    callers = ['_create_pairs_row', '_create_student_ranks']
    cands = None
    for c in callers:
        f = repo.function(c, repo.rel('solver', 'fileIO.py'))
        names = {n.func.id for n in ast.walk(f.node) if isinstance(n, ast.Call) and isinstance(n.func, ast.Name) and len(repo.funcs_by_name.get(n.func.id, [])) == 1}
        names = {x for x in names if repo.funcs_by_name[x][0].relpath == f.relpath}
        cands = names if cands is None else cands & names
    if not cands or len(cands) != 1:
        raise AnalysisError('anchor vanished: the tie-aware tokeniser shared by %s (candidates %s)' % (callers, sorted(cands or [])))
    return repo.funcs_by_name[cands.pop()][0]


def fmt_trace(tr):
    return ' ; '.join('in_tie=%s t=%d %s -> %s' % (w, t, 'LAST' if last else 'mid', c) for w, t, last, c in tr[-4:])


def run(rep, repo, tier):
    for k, v in RULES.items():
        rep.rule(k, v)
    rep.assumptions += ['tokens are separated by whitespace and a number token consists of digits (A4/A5-level facts of str() on ints)']
    wf, fw, wrappers = find_writer(repo)
    for cls, (f, sites) in fw.items():
        rep.check(len(sites) >= 1, 'C13.R5', f.where, 'every preference-list line of %s is produced by the tie writer %s' % (cls, wf.name), got='%d call sites' % len(sites),
                  want='>= 1', construct='writer call sites in %s' % cls)
    # no other function of the generator emits parentheses
    rf = find_reader(repo)
    check_indicators(rep, repo)
    check_call_sites(rep, repo, fw, wf, rf)
    try:
        wt = T.WriterTable(wf, resolver=helper_resolver(repo, repo.rel('generator')))
    except Unknown as u:
        rep.inconclusive('C13.R1', wf.where, 'tie writer loop is inside the recognised fragment', got=str(u))
        return
    rep.count('writer_table_rows', len(wt.table))
    decs = sorted({v[1] for v in wt.table.values() if v[0] != 'BAD'})
    try:
        rt = T.ReaderTable(rf, decs, resolver=helper_resolver(repo, repo.rel('solver')))
    except Unknown as u:
        rep.inconclusive('C13.R2', rf.where, 'tie reader loop is inside the recognised fragment', got=str(u))
        return
    rep.count('reader_table_rows', len(rt.table))
    viol, stats = T.explore(wt.table, wt.init, rt)
    rep.extra['states'] = stats['product_states']
    rep.extra['transitions'] = stats['transitions']
    rep.extra['writer_table'] = {str(k): str(v) for k, v in sorted(wt.table.items())}
    rep.extra['reader_table'] = {str(k): str(v) for k, v in sorted(rt.table.items())}
    seen = set()
    for kind, msg, tr in viol:
        key = (kind, msg)
        if key in seen:
            continue
        seen.add(key)
        rule = {'writer': 'C13.R1', 'reader': 'C13.R2', 'agree': 'C13.R3'}[kind]
        where = wf.where if kind == 'writer' else rf.where
        rep.fail(rule, where, {'writer': 'writer emits balanced, non-nested, maximal runs', 'reader': 'reader consumes every token', 'agree': 'reader ranks agree with the writer\'s tie decisions'}[kind],
                 got='%s  [after: %s]' % (msg, fmt_trace(tr)), want='see rule', construct='%s: %s' % (kind, msg))
    if not any(k == 'writer' for k, _, _ in viol):
        rep.ok('C13.R1', wf.where, 'writer table satisfies the run discipline on all %d rows' % len(wt.table), got=rep.extra['writer_table'])
    if not any(k == 'reader' for k, _, _ in viol):
        rep.ok('C13.R2', rf.where, 'reader table: one element and one rank per token, decoration stripped', got=rep.extra['reader_table'])
    if not any(k == 'agree' for k, _, _ in viol):
        rep.ok('C13.R3', rf.where, 'product automaton: %d reachable states, %d transitions, ranks agree with tie decisions everywhere' % (stats['product_states'], stats['transitions']))


def check_indicators(rep, repo):
    f = repo.function('create_ties_indicators')
    it = Interp(repo)
    try:
        effs, rv = it.run(f, {})
    except Unknown as u:
        rep.inconclusive('C13.R4', f.where, 'indicator generator is inside the interpreted fragment', got=str(u))
        return
    params = f.params
    ok = False
    got = show(rv)
    comp = rv
    if rv[0] == 'cat':
        parts = [p for p in rv[1] if p != ('list', ())]
        comp = parts[0] if len(parts) == 1 else rv
    if comp[0] == 'comp' and len(comp[1]) == 1:
        b, g = comp[1][0]
        v = comp[2]
        if b[3] == S(params[0]) and g == TRUE and v[0] == 'call' and show(v[1]).endswith('random.choice') and len(v[2]) >= 1:
            size = v[2][1] if len(v[2]) >= 2 else dict(v[3]).get('size')
            ok = size == CALL(S('len'), [b])
    rep.check(ok, 'C13.R4', f.where, 'each list gets exactly len(list) tie indicators', got=got[:200], want='[choice(choices, len(pl), p=..) for pl in pref_lists]',
              construct='indicator vector length')


def check_call_sites(rep, repo, fw, wf, rf):
    for cls, (f, sites) in fw.items():
        for n, (ia, ib) in sites:
            a, b = n.args[ia], n.args[ib]
            ok = (isinstance(a, ast.Subscript) and isinstance(b, ast.Subscript) and isinstance(a.value, ast.Name) and isinstance(b.value, ast.Name)
                  and ast.dump(a.slice) == ast.dump(b.slice))
            rep.check(ok, 'C13.R5', f.where, 'writer is applied to (list[x], indicators[x]) of the same agent', got=ast.unparse(n), want='%s(lists[x], ties[x])' % wf.name,
                      construct='writer call ' + ast.unparse(n), loc='%s:%d' % (f.relpath, n.lineno))
            if not ok:
                continue
            gi = repo.method(cls, 'generate_instances')
            params = f.params[1:]
            la, ta = a.value.id, b.value.id
            call = None
            for m in ast.walk(gi.node):
                if isinstance(m, ast.Call) and isinstance(m.func, ast.Attribute) and m.func.attr == 'create_instance':
                    call = m
            if call is None or la not in params or ta not in params:
                rep.inconclusive('C13.R5', gi.where, 'create_instance call found', got='call or parameter not found')
                continue
            actual = {}
            for p_, a_ in zip(params, call.args):
                actual[p_] = a_
            for k in call.keywords:
                actual[k.arg] = k.value
            A1, A2 = actual.get(la), actual.get(ta)
            pair_ok = False
            if isinstance(A1, ast.Name) and isinstance(A2, ast.Name):
                for m in ast.walk(gi.node):
                    if isinstance(m, ast.Assign) and len(m.targets) == 1 and isinstance(m.targets[0], ast.Tuple) and len(m.targets[0].elts) == 2 \
                            and [getattr(e, 'id', None) for e in m.targets[0].elts] == [A1.id, A2.id]:
                        v = m.value
                        if isinstance(v, ast.IfExp):
                            v = v.body if isinstance(v.body, ast.Call) else v.orelse
                        if isinstance(v, ast.Call):
                            pair_ok = True
            rep.check(pair_ok, 'C13.R5', gi.where, 'list and indicator arrays passed for %s/%s are the two results of one producer call' % (la, ta),
                      got='%s, %s' % (ast.unparse(A1) if A1 is not None else None, ast.unparse(A2) if A2 is not None else None), want='a, b = producer(...)',
                      construct='writer argument pairing %s/%s' % (la, ta))
    # the reader is used for both sides
    for c in ('_create_pairs_row', '_create_student_ranks'):
        f = repo.function(c, repo.rel('solver', 'fileIO.py'))
        uses = [n for n in ast.walk(f.node) if isinstance(n, ast.Call) and isinstance(n.func, ast.Name) and n.func.id == rf.name]
        rep.check(len(uses) == 1, 'C13.R5', f.where, '%s tokenises with the shared tie reader' % c, got='%d calls' % len(uses), construct='%s reader use' % c)
