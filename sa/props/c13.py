"""C13 -- ties written by the generator are read back as the same ties (DESIGN.md section 5, C13)."""
import ast

from ..terms import *
from ..loader import AnalysisError
from ..absint import Interp, iter_effects
from .. import transducer as T

RULES = {
    'C13.R1': 'writer table (in_tie, t, last) -> (decoration, in_tie\') extracted from the loop body; balanced, non-nested, runs >= 2, maximal runs, last decision has no effect',
    'C13.R2': 'reader table (in_tie, decoration) -> (rank actions, in_tie\'); every token yields one element and one rank; decoration stripped before int()',
    'C13.R3': 'product automaton explored completely: adjacent entries share a rank iff the writer tied them; ranks start at 1 and rise by one per run or single entry (=> every list length, every tie vector)',
    'C13.R4': 'one tie indicator is drawn per list element (vector length = own list length)',
    'C13.R5': 'all call sites (first side, second side; 2- and 3-agent files) use the same writer on a list and the indicator vector created for it; the solver reads both sides with the same reader',
}


def find_writer(repo):
    """The tie writer = the one generator function that decorates list entries with '(' and ')' in a loop; its call sites
    in both create_instance methods (directly or through a pass-through wrapper)."""
    gen = repo.rel('generator')
    def paren_strings(f, seen):
        strs = {n.value for n in ast.walk(f.node) if isinstance(n, ast.Constant) and isinstance(n.value, str) and len(n.value) <= 4}
        for n in ast.walk(f.node):
            if isinstance(n, ast.Call) and isinstance(n.func, ast.Name) and n.func.id not in seen:
                for g in repo.funcs_by_name.get(n.func.id, []):
                    if g.relpath.startswith(gen):
                        seen.add(n.func.id)
                        strs |= paren_strings(g, seen)
        return strs
    cands = []
    for f in repo.all_funcs():
        if not f.relpath.startswith(gen):
            continue
        strs = paren_strings(f, {f.name})
        has_paren = any('(' in x for x in strs) and any(')' in x for x in strs)
        loops = [n for n in f.node.body if isinstance(n, (ast.For, ast.While))]
        appends = any(isinstance(n, ast.Call) and isinstance(n.func, ast.Attribute) and n.func.attr == 'append' for n in ast.walk(f.node))
        builds = appends or any(isinstance(n, ast.Subscript) and isinstance(n.ctx, ast.Store) for n in ast.walk(f.node))          # appends tokens, or decorates them in place
        own_paren = any(isinstance(n, ast.Constant) and isinstance(n.value, str) and ('(' in n.value or ')' in n.value) and len(n.value) <= 4 for n in ast.walk(f.node))
        if has_paren and loops and builds and not f.cls and (appends or own_paren) and len(f.params) >= 2:
            cands.append(f)
    if len(cands) != 1:
        raise AnalysisError('anchor vanished: tie writer (functions decorating entries with parentheses in a loop: %s)' % [c.qualname for c in cands])
    W = cands[0]
    wp = W.params
    wrappers = {W.name: (0, 1)}
    changed = True
    while changed:
        changed = False
        for f in repo.all_funcs():
            if not f.relpath.startswith(gen) or f.name in wrappers:
                continue
            ps = f.params[1:] if f.cls else f.params
            for n in ast.walk(f.node):
                if isinstance(n, ast.Call) and (getattr(n.func, 'id', None) in wrappers or getattr(n.func, 'attr', None) in wrappers) and len(n.args) >= 2:
                    nm = getattr(n.func, 'id', None) or n.func.attr
                    ia, ib = wrappers[nm]
                    if len(n.args) <= max(ia, ib):
                        continue
                    a, b = n.args[ia], n.args[ib]
                    if isinstance(a, ast.Subscript) and isinstance(b, ast.Subscript) and ast.dump(a.slice) == ast.dump(b.slice):
                        a, b = a.value, b.value                    # wrapper(lists, ties, k) -> writer(lists[k], ties[k])
                    if isinstance(a, ast.Name) and isinstance(b, ast.Name) and a.id in ps and b.id in ps:
                        wrappers[f.name] = (ps.index(a.id), ps.index(b.id))
                        changed = True
    found = {}
    for cls in ('Generator_ha_sm_hr', 'Generator_spa'):
        f = repo.method(cls, 'create_instance')
        sites = []
        for n in ast.walk(f.node):
            if isinstance(n, ast.Call):
                nm = getattr(n.func, 'id', None) or getattr(n.func, 'attr', None)
                if nm in wrappers and len(n.args) > max(wrappers[nm]):
                    sites.append((n, wrappers[nm]))
        found[cls] = (f, sites)
    return W, found, wrappers


def helper_resolver(repo, pkg):
    def res(name):
        c = [f for f in repo.funcs_by_name.get(name, []) if f.relpath.startswith(pkg)]
        return c[0].node if len(c) == 1 else None
    return res


def ties_are_arrays(repo):
    """the tie indicators handed to the writer are numpy arrays: every list element create_ties_indicators returns is the
    result of np.random.choice (C08.R5 decides the arguments of that draw)"""
    f = repo.function('create_ties_indicators', required=False)
    if f is None:
        return False
    draws = [n for n in ast.walk(f.node) if isinstance(n, ast.Call) and ast.unparse(n.func).endswith('random.choice')]
    others = [n for n in ast.walk(f.node) if isinstance(n, (ast.List, ast.ListComp)) and not any(isinstance(x, ast.Call) and ast.unparse(x.func).endswith('random.choice') for x in ast.walk(n))
              and any(isinstance(x, ast.Constant) and x.value in (0, 1) for x in ast.walk(n)) and isinstance(n, ast.ListComp)]
    return bool(draws) and not others


def find_reader(repo):
    """The tokeniser called by both row builders of the file reader."""
    callers = ['_create_pairs_row', '_create_student_ranks']
    cands = None
    for c in callers:
        f = repo.function(c, repo.rel('solver', 'fileIO.py'))
        names = {n.func.id for n in ast.walk(f.node) if isinstance(n, ast.Call) and isinstance(n.func, ast.Name) and len(repo.funcs_by_name.get(n.func.id, [])) == 1}
        import os as _os
        names = {x for x in names if _os.path.dirname(repo.funcs_by_name[x][0].relpath) == _os.path.dirname(f.relpath)}       # same package: the tokeniser may live in a module of its own
        cands = names if cands is None else cands & names
    if not cands or len(cands) != 1:
        raise AnalysisError('anchor vanished: the tie-aware tokeniser shared by %s (candidates %s)' % (callers, sorted(cands or [])))
    return repo.funcs_by_name[cands.pop()][0]


def fmt_trace(tr):
    return ' ; '.join('in_tie=%s t=%d %s -> %s' % (w, t, 'LAST' if last else 'mid', c) for w, t, last, c in tr[-4:])


def check_own_line(rep, repo, rule, what):
    """the preference text on an agent's line is computed for THAT agent: no field of a line reads a variable carried over
    from the line of an earlier agent (an empty or skipped list must not inherit the previous one's text)"""
    from ..writerfacts import writer_facts, stale_line_fields
    from ..loader import AnalysisError
    for cls in ('Generator_ha_sm_hr', 'Generator_spa'):
        try:
            wf_ = writer_facts(repo, cls, True)
            stale = stale_line_fields(wf_)
        except (AnalysisError, Unknown):
            continue                     # the writer itself is judged by C08 / C09
        rep.check(not stale, rule, wf_.ci.where, '%s: every field of an agent\'s line is computed in that agent\'s own iteration (%s)' % (what, cls),
                  got=['line kind %d field %d reads %s as the previous line left it' % s_ for s_ in stale[:3]] or 'no carried value', want='set for every agent', construct='%s line text carried over from the previous agent' % cls)


def run(rep, repo, tier):
    for k, v in RULES.items():
        rep.rule(k, v)
    from ..defined import check_defined
    check_defined(rep, repo, 'C13.R5', [repo.method(c_, 'generate_instances', required=False) for c_ in ('Generator_ha_sm_hr', 'Generator_spa')] + [repo.method('Generator', '__init__', required=False)] + [repo.function('import_model', required=False)], 'generator and reader')
    rep.assumptions += ['tokens are separated by whitespace and a number token consists of digits (A4/A5-level facts of str() on ints)']
    wf, fw, wrappers = find_writer(repo)
    for cls, (f, sites) in fw.items():
        rep.check(len(sites) >= 1, 'C13.R5', f.where, 'every preference-list line of %s is produced by the tie writer %s' % (cls, wf.name), got='%d call sites' % len(sites),
                  want='>= 1', construct='writer call sites in %s' % cls)
    # no other function of the generator emits parentheses
    rf = find_reader(repo)
    check_own_line(rep, repo, 'C13.R5', 'the decorated list on a line is the writer\'s output for that line')
    # the ranks the tokeniser computes are the ranks the model records (not positions counted again by the caller)
    from .c10 import check_token_use, Reader
    from ..loader import AnalysisError as _AE
    for na in (2, 3):
        try:
            check_token_use(rep, Reader(repo, na, True), '[-na %d -twopl]' % na, rule='C13.R2')
        except (_AE, Unknown):
            pass                      # the reader as a whole is judged by C10
    check_indicators(rep, repo)
    check_call_sites(rep, repo, fw, wf, rf)
    try:
        wt = T.WriterTable(wf, resolver=helper_resolver(repo, repo.rel('generator')), ties_are_arrays=ties_are_arrays(repo))
    except Unknown as u:
        rep.inconclusive('C13.R1', wf.where, 'tie writer loop is inside the recognised fragment', got=str(u))
        return
    rep.count('writer_table_rows', len(wt.table))
    decs = sorted({v[1] for v in wt.table.values() if v[0] != 'BAD'})
    from .. import lints as _lints
    for rel_, line_, pat_, missing_ in _lints.regex_digit_gaps(repo, repo.rel('solver')):
        rep.fail('C13.R2', rf.where, 'a pattern used on the reader side matches every digit of a number', got='%r (line %d of %s) never matches the digit(s) %s: an entry such as 10 or (20 is cut short or split' % (pat_, line_, rel_, missing_),
                 want='\\d / [0-9]', construct='regular expression without the digit %s' % missing_[0], loc='%s:%d' % (rel_, line_))
    for rel_, line_, pat_ in _lints.regex_greedy_groups(repo, repo.rel('solver')):
        rep.fail('C13.R2', rf.where, 'a pattern that picks out one bracketed tie group stops at that group\'s closing bracket', got='%r (line %d of %s): the greedy .* runs from the first "(" to the LAST ")" of the line, two tie groups and everything between them are read as one' % (pat_, line_, rel_),
                 want='\\([^)]*\\)  or  \\(.*?\\)', construct='greedy wildcard between brackets', loc='%s:%d' % (rel_, line_))
    try:
        rt = T.ReaderTable(rf, decs, resolver=helper_resolver(repo, repo.rel('solver')))
    except Unknown as u:
        rep.inconclusive('C13.R2', rf.where, 'tie reader loop is inside the recognised fragment', got=str(u))
        return
    rep.count('reader_table_rows', len(rt.table))
    viol, stats = T.explore(wt.table, wt.init, rt)
    rep.extra['states'] = stats['product_states']
    rep.extra['transitions'] = stats['transitions']
    rep.extra['writer_table'] = {str(k): str(v) for k, v in sorted(wt.table.items(), key=str)}
    rep.extra['reader_table'] = {str(k): str(v) for k, v in sorted(rt.table.items(), key=str)}
    seen = set()
    for kind, msg, tr in viol:
        key = (kind, msg)
        if key in seen:
            continue
        seen.add(key)
        rule = {'writer': 'C13.R1', 'reader': 'C13.R2', 'agree': 'C13.R3'}[kind]
        where = wf.where if kind == 'writer' else rf.where
        rep.fail(rule, where, {'writer': 'writer emits balanced, non-nested, maximal runs', 'reader': 'reader consumes every token', 'agree': 'reader ranks agree with the writer\'s tie decisions'}[kind],
                 got='%s  [after: %s]' % (msg, fmt_trace(tr)), want='see rule', construct='%s: %s' % (kind, msg))
    if not any(k == 'writer' for k, _, _ in viol):
        rep.ok('C13.R1', wf.where, 'writer table satisfies the run discipline on all %d rows' % len(wt.table), got=rep.extra['writer_table'])
    if not any(k == 'reader' for k, _, _ in viol):
        rep.ok('C13.R2', rf.where, 'reader table: one element and one rank per token, decoration stripped', got=rep.extra['reader_table'])
    if not any(k == 'agree' for k, _, _ in viol):
        rep.ok('C13.R3', rf.where, 'product automaton: %d reachable states, %d transitions, ranks agree with tie decisions everywhere' % (stats['product_states'], stats['transitions']))


def check_indicators(rep, repo):
    f = repo.function('create_ties_indicators')
    it = Interp(repo)
    try:
        effs, rv = it.run(f, {})
    except Unknown as u:
        rep.inconclusive('C13.R4', f.where, 'indicator generator is inside the interpreted fragment', got=str(u))
        return
    params = f.params
    ok = False
    got = show(rv)
    comp = rv
    if rv[0] == 'cat':
        parts = [p for p in rv[1] if p != ('list', ())]
        comp = parts[0] if len(parts) == 1 else rv
    from ..genfacts import bind_api
    recognised = False
    def branches(t):
        if t[0] == 'ite':
            return branches(t[2]) + branches(t[3])
        return [t]
    alts = [x for x in branches(comp) if x not in (('list', ()), NONE)]
    if len(alts) == 1:
        comp = alts[0]
    if comp[0] == 'comp' and len(comp[1]) == 1:
        b, g = comp[1][0]
        v = comp[2]
        if b[3] == S(params[0]) and g == TRUE and v[0] == 'call' and show(v[1]).endswith('random.choice') and len(v[2]) >= 1:
            recognised = True
            size = (bind_api(v) or {}).get('size') or (v[2][1] if len(v[2]) >= 2 else dict(v[3]).get('size'))
            ok = size == CALL(S('len'), [b])
    elif comp[0] == 'call' and show(comp[1]) in ('np.split', 'numpy.split', 'np.array_split') and len(comp[2]) == 2:
        # one draw of sum(len) indicators, cut at the cumulative list lengths: piece k has len(list k) entries
        draw, cuts = comp[2]
        lens = None
        def is_lens(t):
            return t[0] == 'comp' and len(t[1]) == 1 and t[1][0][1] == TRUE and t[1][0][0][3] == S(params[0]) and t[2] == CALL(S('len'), [t[1][0][0]])
        ba = bind_api(draw) or {}
        size = ba.get('size')
        tot_ok = size is not None and size[0] == 'call' and size[1] in (S('sum'),) and len(size[2]) == 1 and is_lens(size[2][0])
        cut_ok = False
        if cuts[0] == 'slice' and cuts[2] == NONE and cuts[3] == C(-1):
            cs = cuts[1]
            if cs[0] == 'call' and show(cs[1]) in ('np.cumsum', 'numpy.cumsum') and len(cs[2]) >= 1 and is_lens(cs[2][0]):
                cut_ok = True
        recognised = bool(ba)
        ok = tot_ok and cut_ok
    inner = comp
    while inner[0] == 'call' and inner[1] in (S('list'), S('tuple')) and len(inner[2]) == 1:
        inner = inner[2][0]
    if not recognised and inner[0] == 'call' and show(inner[1]).endswith('random.choice'):
        sz = (bind_api(inner) or {}).get('size')
        if sz is not None and sz[0] == 'tuple':
            # one matrix draw: every row has the same length, whatever the length of its list
            recognised, ok = True, False
            got = 'one %s matrix of indicators: row k has %s entries, not len(list k)' % (show(sz)[:80], show(sz[1][-1])[:60])
    if not ok and not recognised:
        rep.inconclusive('C13.R4', f.where, 'the indicator vectors are drawn in a recognised way', got=got[:160])
        return
    rep.check(ok, 'C13.R4', f.where, 'each list gets exactly len(list) tie indicators', got=got[:200], want='[choice(choices, len(pl), p=..) for pl in pref_lists]',
              construct='indicator vector length')


def check_call_sites(rep, repo, fw, wf, rf):
    """term level: every call of the writer inside create_instance (helpers and closures inlined) gets (lists[x], ties[x]) of two
    create_instance parameters, and the arrays handed in for them by generate_instances are a list array and the indicator
    array drawn for that very array."""
    from ..writerfacts import writer_facts
    from ..absint import iter_effects
    for cls, (f, sites) in fw.items():
        try:
            wfx = writer_facts(repo, cls, True)
        except Exception as u:
            rep.inconclusive('C13.R5', f.where, 'create_instance is inside the interpreted fragment', got=str(u)[:120])
            continue
        calls = [e for e, c in iter_effects(wfx.ci_effs) if e.kind == 'call' and e.target is wf]
        if not calls:
            rep.inconclusive('C13.R5', f.where, 'calls of the tie writer are visible in create_instance', got='0 calls')
            continue
        params = set(wfx.actual)
        for e in calls:
            a, b = (list(e.args) + [None, None])[:2]
            kw = dict(getattr(e, 'kw', ()))
            wp = wf.params
            a = kw.get(wp[0], a)
            b = kw.get(wp[1], b) if len(wp) > 1 else b
            ok = (a is not None and b is not None and a[0] == 'idx' and b[0] == 'idx' and a[2] == b[2] and a[1][0] == 'sym' and b[1][0] == 'sym'
                  and a[1][1] in params and b[1][1] in params and a[1] != b[1])
            rep.check(ok, 'C13.R5', f.where, 'writer is applied to (list[x], indicators[x]) of the same agent', got='%s(%s, %s)' % (wf.name, show(a)[:50] if a else None, show(b)[:50] if b else None),
                      want='%s(lists[x], ties[x])' % wf.name, construct='writer call %s(%s, %s)' % (wf.name, show(a)[:40] if a else None, show(b)[:40] if b else None), loc=e.loc)
            if not ok:
                continue
            la, ta = a[1][1], b[1][1]
            A1, A2 = wfx.actual.get(la), wfx.actual.get(ta)
            def branches(t):
                if t is None:
                    return []
                if t[0] == 'ite':
                    return branches(t[2]) + branches(t[3])
                return [t]
            b1 = [x for x in branches(A1) if x not in (('list', ()), NONE)]
            b2 = [x for x in branches(A2) if x not in (('list', ()), NONE)]
            # (a) the two arrays are the two results of one producer call, or (b) the indicators are drawn over that very array
            produced = set()
            for ce, _ in iter_effects(wfx.effs):
                if ce.kind == 'call' and ce.ret is not None:
                    for r_ in branches(ce.ret):
                        if r_[0] == 'tuple' and len(r_[1]) >= 2:
                            for i_ in range(len(r_[1]) - 1):
                                for x_ in branches(r_[1][i_]):
                                    for y_ in branches(r_[1][i_ + 1]):
                                        produced.add((x_, y_))
            if any(contains(x_, lambda z: z[0] == 'top') for x_ in b1 + b2):
                rep.inconclusive('C13.R5', repo.method(cls, 'generate_instances').where, 'the arrays passed for %s / %s are in closed form' % (ta, la), got=[show(x_)[:60] for x_ in b1 + b2][:3])
                continue
            pair_ok = bool(b1) and bool(b2) and all(any((x, y) in produced or contains(y, lambda z, x=x: z == x) for x in b1) for y in b2)
            rep.check(pair_ok, 'C13.R5', repo.method(cls, 'generate_instances').where, 'the indicator array passed for %s is the one drawn for the list array passed for %s' % (ta, la),
                      got='%s ; %s' % (show(A1)[:80] if A1 else None, show(A2)[:80] if A2 else None), want='ties drawn per list of that very array',
                      construct='writer argument pairing %s/%s' % (la, ta))
    # the reader is used for both sides
    for c in ('_create_pairs_row', '_create_student_ranks'):
        f = repo.function(c, repo.rel('solver', 'fileIO.py'))
        uses = [n for n in ast.walk(f.node) if isinstance(n, ast.Call) and isinstance(n.func, ast.Name) and n.func.id == rf.name]
        rep.check(len(uses) == 1, 'C13.R5', f.where, '%s tokenises with the shared tie reader' % c, got='%d calls' % len(uses), construct='%s reader use' % c)
