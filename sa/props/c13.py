"""C13 -- ties written by the generator are read back as the same ties (DESIGN.md section 5, C13)."""
import ast

from ..terms import *
from ..loader import AnalysisError
from ..absint import Interp, iter_effects
from .. import transducer as T

RULES = {
    'C13.R1': 'writer table (in_tie, t, last) -> (decoration, in_tie\') extracted from the loop body; balanced, non-nested, runs >= 2, maximal runs, last decision has no effect',
    'C13.R2': 'reader table (in_tie, decoration) -> (rank actions, in_tie\'); every token yields one element and one rank; decoration stripped before int()',
    'C13.R3': 'product automaton explored completely: adjacent entries share a rank iff the writer tied them; ranks start at 1 and rise by one per run or single entry (=> every list length, every tie vector)',
    'C13.R4': 'one tie indicator is drawn per list element (vector length = own list length)',
    'C13.R5': 'all call sites (first side, second side; 2- and 3-agent files) use the same writer on a list and the indicator vector created for it; the solver reads both sides with the same reader',
}


def find_writer(repo):
    """The function whose result is ' '.join-ed into instance lines, in both generators."""
    found = {}
    for cls in ('Generator_ha_sm_hr', 'Generator_spa'):
        f = repo.method(cls, 'create_instance')
        joined = set()
        for n in ast.walk(f.node):
            if isinstance(n, ast.Call) and isinstance(n.func, ast.Attribute) and n.func.attr == 'join' and n.args and isinstance(n.args[0], ast.Name):
                joined.add(n.args[0].id)
        callees = set()
        sites = []
        for n in ast.walk(f.node):
            if isinstance(n, ast.Assign) and len(n.targets) == 1 and isinstance(n.targets[0], ast.Name) and n.targets[0].id in joined \
                    and isinstance(n.value, ast.Call) and isinstance(n.value.func, ast.Name):
                callees.add(n.value.func.id)
                sites.append(n)
        found[cls] = (f, callees, sites)
    return found


def find_reader(repo):
    """The tokeniser called by both row builders of the file reader."""
    callers = ['_create_pairs_row', '_create_student_ranks']
    cands = None
    for c in callers:
        f = repo.function(c, repo.rel('solver', 'fileIO.py'))
        names = {n.func.id for n in ast.walk(f.node) if isinstance(n, ast.Call) and isinstance(n.func, ast.Name) and len(repo.funcs_by_name.get(n.func.id, [])) == 1}
        names = {x for x in names if repo.funcs_by_name[x][0].relpath == f.relpath}
        cands = names if cands is None else cands & names
    if not cands or len(cands) != 1:
        raise AnalysisError('anchor vanished: the tie-aware tokeniser shared by %s (candidates %s)' % (callers, sorted(cands or [])))
    return repo.funcs_by_name[cands.pop()][0]


def fmt_trace(tr):
    return ' ; '.join('in_tie=%s t=%d %s -> %s' % (w, t, 'LAST' if last else 'mid', c) for w, t, last, c in tr[-4:])


def run(rep, repo, tier):
    for k, v in RULES.items():
        rep.rule(k, v)
    rep.assumptions += ['tokens are separated by whitespace and a number token consists of digits (A4/A5-level facts of str() on ints)']
    fw = find_writer(repo)
    names = set()
    for cls, (f, callees, sites) in fw.items():
        rep.check(len(callees) == 1, 'C13.R5', f.where, 'one tie writer produces every preference-list line of %s' % cls, got=sorted(callees), want='a single function',
                  construct='writers used by %s: %s' % (cls, sorted(callees)))
        names |= callees
    rep.check(len(names) == 1, 'C13.R5', 'matchingproblems/generator', '2-agent and 3-agent generators share the tie writer', got=sorted(names), construct='writer set %s' % sorted(names))
    if len(names) != 1:
        return
    wf = repo.function(names.pop())
    rf = find_reader(repo)
    check_indicators(rep, repo)
    check_call_sites(rep, repo, fw, wf, rf)
    try:
        wt = T.WriterTable(wf)
    except Unknown as u:
        rep.inconclusive('C13.R1', wf.where, 'tie writer loop is inside the recognised fragment', got=str(u))
        return
    rep.count('writer_table_rows', len(wt.table))
    decs = sorted({v[1] for v in wt.table.values() if v[0] != 'BAD'})
    try:
        rt = T.ReaderTable(rf, decs)
    except Unknown as u:
        rep.inconclusive('C13.R2', rf.where, 'tie reader loop is inside the recognised fragment', got=str(u))
        return
    rep.count('reader_table_rows', len(rt.table))
    viol, stats = T.explore(wt.table, wt.init, rt)
    rep.extra['states'] = stats['product_states']
    rep.extra['transitions'] = stats['transitions']
    rep.extra['writer_table'] = {str(k): str(v) for k, v in sorted(wt.table.items())}
    rep.extra['reader_table'] = {str(k): str(v) for k, v in sorted(rt.table.items())}
    seen = set()
    for kind, msg, tr in viol:
        key = (kind, msg)
        if key in seen:
            continue
        seen.add(key)
        rule = {'writer': 'C13.R1', 'reader': 'C13.R2', 'agree': 'C13.R3'}[kind]
        where = wf.where if kind == 'writer' else rf.where
        rep.fail(rule, where, {'writer': 'writer emits balanced, non-nested, maximal runs', 'reader': 'reader consumes every token', 'agree': 'reader ranks agree with the writer\'s tie decisions'}[kind],
                 got='%s  [after: %s]' % (msg, fmt_trace(tr)), want='see rule', construct='%s: %s' % (kind, msg))
    if not any(k == 'writer' for k, _, _ in viol):
        rep.ok('C13.R1', wf.where, 'writer table satisfies the run discipline on all %d rows' % len(wt.table), got=rep.extra['writer_table'])
    if not any(k == 'reader' for k, _, _ in viol):
        rep.ok('C13.R2', rf.where, 'reader table: one element and one rank per token, decoration stripped', got=rep.extra['reader_table'])
    if not any(k == 'agree' for k, _, _ in viol):
        rep.ok('C13.R3', rf.where, 'product automaton: %d reachable states, %d transitions, ranks agree with tie decisions everywhere' % (stats['product_states'], stats['transitions']))


def check_indicators(rep, repo):
    f = repo.function('create_ties_indicators')
    it = Interp(repo)
    try:
        effs, rv = it.run(f, {})
    except Unknown as u:
        rep.inconclusive('C13.R4', f.where, 'indicator generator is inside the interpreted fragment', got=str(u))
        return
    params = f.params
    ok = False
    got = show(rv)
    comp = rv
    if rv[0] == 'cat':
        parts = [p for p in rv[1] if p != ('list', ())]
        comp = parts[0] if len(parts) == 1 else rv
    if comp[0] == 'comp' and len(comp[1]) == 1:
        b, g = comp[1][0]
        v = comp[2]
        if b[3] == S(params[0]) and g == TRUE and v[0] == 'call' and show(v[1]).endswith('random.choice') and len(v[2]) >= 2:
            ok = v[2][1] == CALL(S('len'), [b])
    rep.check(ok, 'C13.R4', f.where, 'each list gets exactly len(list) tie indicators', got=got[:200], want='[choice(choices, len(pl), p=..) for pl in pref_lists]',
              construct='indicator vector length')


def check_call_sites(rep, repo, fw, wf, rf):
    for cls, (f, callees, sites) in fw.items():
        for n in sites:
            args = n.value.args
            ok = (len(args) == 2 and all(isinstance(a, ast.Subscript) and isinstance(a.value, ast.Name) for a in args)
                  and ast.dump(args[0].slice) == ast.dump(args[1].slice))
            rep.check(ok, 'C13.R5', f.where, 'writer is applied to (list[x], indicators[x]) of the same agent', got=ast.unparse(n.value), want='%s(lists[x], ties[x])' % wf.name,
                      construct='writer call ' + ast.unparse(n.value), loc='%s:%d' % (f.relpath, n.lineno))
            if not ok:
                continue
            # the two arrays come from one producer call in generate_instances
            gi = repo.method(cls, 'generate_instances')
            params = f.params[1:]
            la, ta = args[0].value.id, args[1].value.id
            call = None
            for m in ast.walk(gi.node):
                if isinstance(m, ast.Call) and isinstance(m.func, ast.Attribute) and m.func.attr == 'create_instance':
                    call = m
            if call is None or la not in params or ta not in params:
                rep.inconclusive('C13.R5', gi.where, 'create_instance call found', got='call or parameter not found')
                continue
            actual = {}
            for p, a in zip(params, call.args):
                actual[p] = a
            for k in call.keywords:
                actual[k.arg] = k.value
            A1, A2 = actual.get(la), actual.get(ta)
            pair_ok = False
            if isinstance(A1, ast.Name) and isinstance(A2, ast.Name):
                for m in ast.walk(gi.node):
                    if isinstance(m, ast.Assign) and len(m.targets) == 1 and isinstance(m.targets[0], ast.Tuple) and len(m.targets[0].elts) == 2 \
                            and [getattr(e, 'id', None) for e in m.targets[0].elts] == [A1.id, A2.id] and isinstance(m.value, ast.Call):
                        pair_ok = True
            rep.check(pair_ok, 'C13.R5', gi.where, 'list and indicator arrays passed for %s/%s are the two results of one producer call' % (la, ta),
                      got='%s, %s' % (ast.unparse(A1) if A1 is not None else None, ast.unparse(A2) if A2 is not None else None), want='a, b = producer(...)',
                      construct='writer argument pairing %s/%s' % (la, ta))
    # the reader is used for both sides
    for c in ('_create_pairs_row', '_create_student_ranks'):
        f = repo.function(c, repo.rel('solver', 'fileIO.py'))
        uses = [n for n in ast.walk(f.node) if isinstance(n, ast.Call) and isinstance(n.func, ast.Name) and n.func.id == rf.name]
        rep.check(len(uses) == 1, 'C13.R5', f.where, '%s tokenises with the shared tie reader' % c, got='%d calls' % len(uses), construct='%s reader use' % c)
