"""C02 -- Optimal exactly when a feasible matching exists; never errors (DESIGN.md section 5, C02).

Argument decided: the LP's feasible set projected on x equals the valid (and, with -stab, stable) matchings and stays
non-empty after every freeze, because every auxiliary / objective variable can always be extended:
R1 name-template disjointness, R2 bound domination, R3 closed classification of the feasible region,
R4 criterion table agreement, R5 load-balancing agreement, R6 status plumbing / solve count, R7 exception sources."""
import itertools

from ..terms import *
from ..poly import *
from .. import lp, lpfacts, spec
from ..absint import iter_effects

RULES = {
    'C02.R1': 'LP variable (and constraint) name templates are pairwise disjoint and injective in their loop binders (a duplicate name makes CBC fail)',
    'C02.R2': 'bound domination: every objective / auxiliary variable can take every value its defining expression attains over valid matchings (lowBound <= min, upBound >= max)',
    'C02.R3': 'closed classification: before the first solve the problem holds exactly the reference validity (+stability, +deviation) families',
    'C02.R4': 'criterion tables agree (enum, tuple rows, argparse dests, dispatch); scalar flags deliver None extras and their methods never touch extras',
    'C02.R5': 'load-balancing agreement: criteria that read the deviation variables find them declared and defined, whatever the criterion list',
    'C02.R6': 'exactly one solve without criteria, at least one per criterion; run() reports the latest status',
    'C02.R7': 'no exception source on the LP path: len()/ordering/arithmetic on None, attribute read before definition',
}

ORDER = {('R', 'P')}          # rank <= number of projects (A1: distinct entries on a list)


# ---- R1: template languages -------------------------------------------------------------------------------
def tokens(tpl):
    out, i = [], 0
    while i < len(tpl):
        if tpl[i] == '{':
            j = tpl.index('}', i)
            out.append(('hole', tpl[i + 1:j]))
            i = j + 1
        else:
            out.append(('lit', tpl[i]))
            i += 1
    return out


def intersect(t1, t2):
    """Can the two templates produce the same string?  Holes produce one or more digits."""
    a, b = tokens(t1), tokens(t2)
    start = (0, False, 0, False)     # (pos, inside-hole-with->=1-digit) for each
    seen = {start}
    todo = [start]
    def step(toks, pos, inh, ch):
        """successor (pos, inh) options when consuming character ch"""
        res = []
        if pos < len(toks):
            k, v = toks[pos]
            if k == 'lit':
                if not inh and v == ch:
                    res.append((pos + 1, False))
            else:
                if ch.isdigit():
                    res.append((pos, True))        # stay in hole
        if inh and pos < len(toks):
            # leave the hole (it has >= 1 digit) and consume ch with the next token
            res += step(toks, pos + 1, False, ch)
        return res
    def accepting(toks, pos, inh):
        if pos == len(toks) and not inh:
            return True
        if inh and pos == len(toks) - 1:
            return True
        return False
    alphabet = {v for k, v in a + b if k == 'lit'} | {'0'}
    while todo:
        p1, h1, p2, h2 = todo.pop()
        if accepting(a, p1, h1) and accepting(b, p2, h2):
            return True
        for ch in alphabet:
            for n1 in step(a, p1, h1, ch):
                for n2 in step(b, p2, h2, ch):
                    st = (n1[0], n1[1], n2[0], n2[1])
                    if st not in seen:
                        seen.add(st)
                        todo.append(st)
    return False


def injective(tpl, binders):
    """Every enclosing loop binder is determined by the holes, and adjacent holes are separated by a non-digit literal."""
    toks = tokens(tpl)
    for x, y in zip(toks, toks[1:]):
        if x[0] == 'hole' and (y[0] == 'hole' or (y[0] == 'lit' and y[1].isdigit())):
            return False, 'adjacent holes / digit after a hole'
    holes = ' '.join(v for k, v in toks if k == 'hole')
    for b in binders:
        if b is None:
            continue
        if b == 'p':
            if not ('s(p)' in holes and 'pr(p)' in holes):
                return False, 'pair binder not identified by (student, project)'
        elif b in ('i', 'j', 'k', 'r'):
            if b == 'i' and 'p' in binders:
                continue
            if b not in holes.replace('s(p)', '').replace('pr(p)', '').replace('l(p)', ''):
                return False, 'loop binder %s does not occur in the name' % b
    return True, ''


# ---- R2: bounds ---------------------------------------------------------------------------------------------
def mono_le(m, m2):
    """monomial m <= monomial m2 for non-negative integer atoms, using ORDER and the power rule y*M >= M when y | M."""
    m, m2 = list(m), list(m2)
    if len(m) > len(m2):
        return False
    for perm in set(itertools.permutations(range(len(m2)), len(m))):
        ok = True
        for a, j in zip(m, perm):
            if not (a == m2[j] or (a, m2[j]) in ORDER):
                ok = False
                break
        if not ok:
            continue
        left = [m2[j] for j in range(len(m2)) if j not in perm]
        if all(y in m or y in [m2[j] for j in perm] for y in left):
            return True
    return False


def dominates(D, N):
    """D - N >= 0 provable monomial-wise.  Returns (bool, undominated monomial text)."""
    if any(c < 0 for c in D.values()):
        return False, 'declared bound has a negative term: ' + pshow(D)
    budget = dict(D)
    for m, c in sorted(N.items(), key=lambda kv: -len(kv[0])):
        if c <= 0:
            continue
        need = c
        for m2 in sorted(budget, key=lambda x: len(x)):
            if budget[m2] > 0 and mono_le(m, m2):
                use = min(need, budget[m2])
                budget[m2] -= use
                need -= use
                if need <= 0:
                    break
        if need > 0:
            return False, pshow({m: c})
    return True, ''


def upper_of(monos, objvar):
    """Upper bound polynomial of sum(monos) over valid matchings (A1, A2, ST family, deviation minimal values)."""
    ub = {}
    for m in monos:
        if m.var == objvar:
            continue
        coef = m.coef
        if m.var is None:
            ub = padd(ub, coef)
            continue
        # coefficients are polynomials in ranks / multipliers; ranks are bounded: rs <= R, rl <= n
        pos = {k: v for k, v in coef.items() if v > 0}
        sub = psubst(pos, lambda a: patom('R') if a == 'rs(q)' else (patom('n') if a == 'rl(q)' else None))
        if any(('(q)' in a or '(p)' in a) for a in patoms(sub)):
            raise Unknown('coefficient depends on the pair beyond its ranks: ' + pshow(coef))
        if m.var.startswith('x('):
            if m.sumvar != 'q':
                raise Unknown('x outside a pair sum')
            ub = padd(ub, pmul(patom('n'), sub))          # at most one pair per student (ST), n students
        elif m.var.startswith('d['):
            if m.sumvar:
                ub = padd(ub, pmul(patom('sum(luq)'), sub))   # sum_k |load_k - t_k| <= sum_k luq_k   (A1: 0 <= t <= luq; LU: load <= luq)
            else:
                ub = padd(ub, pmul(patom('max(luq)'), sub))
        else:
            raise Unknown('variable %s in an objective definition' % m.var)
    return ub


def check_bounds(rep, r, cfg):
    decl = {}
    for d in r.declvars():
        if 'name' in d:
            decl['obj:' + d['name']] = d
    for e in r.of('addc'):
        if e.fam is None or not e.iters or lpfacts.is_freeze(e.fam):
            continue
        ov = lpfacts.obj_vars(e.fam)
        if len(ov) != 1:
            continue
        v = ov[0]
        d = decl.get(v)
        if d is None:
            rep.inconclusive('C02.R2', e.where, 'the objective variable %s has a recognised declaration %s' % (v, cfg), got='declaration not found', loc=e.loc)
            continue
        mine = [m for m in e.fam.monos if m.var == v]
        if len(mine) != 1 or not is_pconst(mine[0].coef) or abs(pconstval(mine[0].coef)) != 1:
            rep.inconclusive('C02.R2', e.where, 'the objective variable occurs with coefficient +-1 %s' % cfg, got=e.fam.core(), loc=e.loc)
            continue
        cv = pconstval(mine[0].coef)
        rest = [m for m in e.fam.monos if m.var != v]
        # fam: cv*v + rest (<=|==) 0
        try:
            if e.fam.op == '==':
                E = [lp.Mono(pneg(m.coef) if cv > 0 else m.coef, m.var, m.sumvar, m.preds) for m in rest]
                need_up, need_low = True, True
            elif cv < 0:          # rest <= v
                E = rest
                need_up, need_low = True, False
            else:                 # v <= -rest
                E = [lp.Mono(pneg(m.coef), m.var, m.sumvar, m.preds) for m in rest]
                need_up, need_low = False, True
            ub = upper_of(E, v)
        except Unknown as u:
            rep.inconclusive('C02.R2', e.where, 'the range of the expression defining %s is derivable %s' % (v, cfg), got=str(u), loc=e.loc)
            continue
        dv = d['ev']
        if need_up:
            if d['up'] is None:
                rep.ok('C02.R2', dv.where, 'upBound of %s dominates %s %s' % (v, pshow(ub), cfg), got='None (unbounded)', loc=dv.loc)
            else:
                ok, why = dominates(d['up'], ub)
                rep.check(ok, 'C02.R2', dv.where, 'upBound of %s dominates the largest value of its definition over valid matchings %s' % (v, cfg),
                          got='upBound = %s ; needed >= %s ; undominated: %s' % (pshow(d['up']), pshow(ub), why), want='upBound >= ' + pshow(ub),
                          construct='upBound of %s: %s does not dominate %s' % (v.split(':', 1)[1], pshow(d['up']), pshow(ub)), loc=dv.loc)
        if need_low or True:
            low = d['low']
            ok = low is None or (is_pconst(low) and pconstval(low) <= 0)
            rep.check(ok, 'C02.R2', dv.where, 'lowBound of %s is at most the smallest value of its definition (0) %s' % (v, cfg),
                      got='lowBound = %s' % (pshow(low) if low is not None else None), want='<= 0', construct='lowBound of %s: %s' % (v.split(':', 1)[1], pshow(low) if low is not None else None), loc=dv.loc)
    # deviation variables d[k]: upBound luq[k] >= |load - t|, lowBound <= 0
    for d in r.declvars():
        ev = d['ev']
        arr = None
        for e2 in r.events:
            if e2.kind == 'append' and e2.eff.value == ev.eff.var:
                arr = lp.model_attr(e2.eff.target)
        if arr and r.canon.arr_letter.get(arr, (None,))[0] == 'd':
            up, low = d.get('up'), d.get('low')
            ok = up is None or up == patom('luq[k]') or dominates(up, patom('luq[k]'))[0]
            rep.check(ok, 'C02.R2', ev.where, 'upBound of the deviation variable of lecturer k dominates |load_k - t_k| <= luq[k] %s' % cfg,
                      got='upBound = %s' % (pshow(up) if up is not None else None), want='>= luq[k]', construct='upBound of d[k]: %s' % (pshow(up) if up is not None else None), loc=ev.loc)
            okl = low is None or (is_pconst(low) and pconstval(low) <= 0)
            rep.check(okl, 'C02.R2', ev.where, 'lowBound of the deviation variable is at most 0 %s' % cfg, got=pshow(low) if low is not None else None, want='<= 0',
                      construct='lowBound of d[k]: %s' % (pshow(low) if low is not None else None), loc=ev.loc)
            rep.check(d.get('cat') in ('Integer', 'Continuous'), 'C02.R2', ev.where, 'deviation variable has a numeric domain %s' % cfg, got=d.get('cat'), construct='domain of d[k]', loc=ev.loc)
    for d in r.declvars():
        if d['ev'].iters and d.get('cat') not in ('Integer', 'Continuous'):
            rep.fail('C02.R2', d['ev'].where, 'objective variable %s can take every integer value of its definition %s' % (d.get('name'), cfg), got='cat=%s' % d.get('cat'),
                     want='Integer or Continuous', construct='domain of objective %s: %s' % (d.get('name'), d.get('cat')), loc=d['ev'].loc)


def check_names(rep, r, cfg):
    decls = [d for d in r.declvars()]
    for d in decls:
        if 'err' in d:
            rep.inconclusive('C02.R1', d['ev'].where, 'variable name template is in closed form %s' % cfg, got=d['err'], loc=d['ev'].loc)
    decls = [d for d in decls if 'name' in d]
    for d in decls:
        ok, why = injective(d['name'], d.get('binders', []))
        rep.check(ok, 'C02.R1', d['ev'].where, 'name template %s gives distinct names to distinct loop iterations %s' % (d['name'], cfg), got=why or 'injective',
                  construct='name %s not injective: %s' % (d['name'], why), loc=d['ev'].loc)
    n = 0
    for a, b in itertools.combinations(decls, 2):
        n += 1
        if intersect(a['name'], b['name']):
            rep.fail('C02.R1', b['ev'].where, 'variable names %s and %s never coincide %s' % (a['name'], b['name'], cfg),
                     got='both can produce the same name (declared at %s and %s)' % (a['site'], b['site']), want='disjoint name languages',
                     construct='duplicate variable name %s / %s' % (a['name'], b['name']), loc=b['ev'].loc)
    rep.count('name_pairs_checked', n)
    if n:
        rep.ok('C02.R1', r.repo.method('LP_Solver', 'run').where, '%d variable declarations, %d pairs compared %s' % (len(decls), n, cfg), got=sorted({d['name'] for d in decls}))
    # constraint names
    cn = r.canon
    names = []
    for e in r.of('addc'):
        if e.eff.name != NONE:
            cn.begin()
            try:
                bs = []
                for c, _ in e.ctx:
                    if c.kind == 'for':
                        cn.name_quant(c.binder, [])
                        bs.append(cn.names.get(c.binder[1]))
                names.append((cn.template(e.eff.name), e, bs))
            except Unknown:
                pass
    for (a, ea, ba), (b, eb, bb) in itertools.combinations(names, 2):
        if intersect(a, b):
            rep.fail('C02.R1', eb.where, 'constraint names %s and %s never coincide %s' % (a, b, cfg), got='can coincide (PuLP raises on a duplicate constraint name)',
                     construct='duplicate constraint name %s / %s' % (a, b), loc=eb.loc)
    for a, ea, ba in names:
        ok, why = injective(a, ba)
        rep.check(ok, 'C02.R1', ea.where, 'constraint name template %s is injective in its loop binders %s' % (a, cfg), got=why or 'injective',
                  construct='constraint name %s not injective: %s' % (a, why), loc=ea.loc)


def check_exceptions(rep, r, cfg):
    for e, ctx in iter_effects(r.effs):
        terms = [v for k, v in e.__dict__.items() if isinstance(v, tuple) and v and isinstance(v[0], str)]
        for t in terms:
            for x in walk(t):
                if x[0] == 'top' and isinstance(x[1], str) and ('Error' in x[1] or 'missing-arg' in x[1]):
                    rep.fail('C02.R7', e.where, 'no exception source on the LP path %s' % cfg, got=x[1], want='no exception',
                             construct='raises %s in %s' % (x[1], e.func.qualname), loc=e.loc)
                    return
    rep.ok('C02.R7', r.repo.method('LP_Solver', 'run').where, 'no None-arithmetic / len(None) / missing argument on the LP path %s' % cfg)


def run(rep, repo, tier):
    for k, v in RULES.items():
        rep.rule(k, v)
    rep.assumptions += ['A1 well-formed instance (0 <= lq <= uq, 0 <= llq <= target <= luq, distinct list entries)', 'A2 admissible options (non-negative integer multipliers)',
                        'A3 PuLP semantics', 'A6 CBC; CBC process failures and numeric effects are not decided']
    names = list(spec.CRITERIA)
    allnine = [lpfacts.crit_config(n) for n in names]
    # R1 on the list of all nine (every declaration of one run co-occurs) and on all-nine with maximal arities
    for crit in (allnine, [lpfacts.crit_config(n, spec.CRITERIA[n]['nextras']) for n in names]):
        for pc, stab in ((True, True),):
            r = lpfacts.get_run(repo, pc, stab, crit)
            check_names(rep, r, '[all nine criteria, pc, stab]')
            lpfacts.check_domains_fixed(rep, r, 'C02.R2', '[all nine criteria, pc, stab]')
    # R2, R6, R7 per criterion and arity
    for name, sp in spec.CRITERIA.items():
        for arity in range(sp['nextras'] + 1):
            r = lpfacts.get_run(repo, False, False, [lpfacts.crit_config(name, arity)])
            cfg = '[%s/%d extras]' % (name, arity)
            check_bounds(rep, r, cfg)
            check_exceptions(rep, r, cfg)
            ns = len(r.of('solve'))
            rep.check(ns >= 1, 'C02.R6', repo.method('LP_Solver', 'run_optimisations').where, 'criterion %s issues at least one solve' % cfg, got='%d solve sites' % ns, construct='%s no solve' % name)
            if name in ('GENEROUS', 'GREEDY') and ns:
                # a per-rank loop that can be empty for an admissible cut-off leaves the run without any solve ('Not Solved')
                from .c03 import check_rank_loop
                check_rank_loop(rep, r, r.of('solve')[0], name, arity, 'C02.R6', cfg)
                # the rank range is EMPTY when the cut-off lies beyond the last rank (or no pair is ranked at all): nothing the
                # README forbids.  The criterion must then still solve the model - otherwise the run ends 'Not Solved' on a
                # feasible instance and every later criterion is skipped.
                in_loop = [e for e in r.of('solve') if [c for c in e.loops if c.kind == 'for']]
                outside = [e for e in r.of('solve') if not [c for c in e.loops if c.kind == 'for']]
                rep.check(bool(outside) or not in_loop, 'C02.R6', in_loop[0].where if in_loop else repo.method('LP_Solver', 'run_optimisations').where,
                          'criterion %s solves the model even when its rank range is empty (cut-off beyond the last rank): a solve outside the per-rank loop' % cfg,
                          got='%d solve(s), all inside the per-rank loop' % len(in_loop) if not outside else '%d outside' % len(outside),
                          want='a solve after the loop when no rank was optimised', construct='%s empty rank range leaves the model unsolved' % name,
                          loc=in_loop[0].loc if in_loop else None)
            rep.count('specialisations')
    # R3 closed classification
    for pc in (False, True):
        for stab in (False, True):
            for crit in ([], [lpfacts.crit_config('MAXSIZE')], [lpfacts.crit_config('LOADMAXBAL')]):
                r = lpfacts.get_run(repo, pc, stab, crit)
                lpfacts.closed_classification(rep, r, 'C02.R3', '[pc=%s stab=%s %s]' % (pc, stab, ','.join(c[0] for c in crit) or 'no criterion'))
                if pc and not crit:
                    # the closure list is subscripted by project: one variable per project, or the constraint loop runs off its end
                    for a_, (l_, sort_) in sorted(r.canon.arr_letter.items()):
                        if l_ == 'c':
                            off_ = r.canon.off_by_some(a_)
                            rep.check(sort_ in ('P', None) and off_ is None, 'C02.R7', repo.method('Model', 'pulp_setup').where, 'one closure variable is declared per project [stab=%s]' % stab,
                                      got=('declared for ' + off_) if off_ else 'one per %s' % {'L': 'lecturer', 'S': 'student', None: 'element of an unrecognised range'}.get(sort_, sort_), want='range(num_projects)',
                                      construct='closure variables per %s' % sort_)
    # R5 load-balancing agreement on ordered pairs
    others = ['MAXSIZE', 'GENEROUS', 'MINCOST']
    pairs = [(a, b) for a in spec.LOAD_BALANCING for b in others] + [(b, a) for a in spec.LOAD_BALANCING for b in others]
    if tier == 'thorough':
        pairs = [(a, b) for a in names for b in names if a != b]
    for a, b in pairs:
        r = lpfacts.get_run(repo, False, False, [lpfacts.crit_config(a), lpfacts.crit_config(b)])
        lpfacts.lb_agreement(rep, r, 'C02.R5', '[%s,%s]' % (a, b))
        check_exceptions(rep, r, '[%s,%s]' % (a, b))
    for a in spec.LOAD_BALANCING:
        r = lpfacts.get_run(repo, False, False, [lpfacts.crit_config(a)])
        lpfacts.lb_agreement(rep, r, 'C02.R5', '[%s]' % a)
    if tier == 'thorough':
        for t in itertools.permutations(names, 3):
            r = lpfacts.get_run(repo, False, False, [lpfacts.crit_config(x) for x in t])
            lpfacts.lb_agreement(rep, r, 'C02.R5', '[%s]' % ','.join(t))
            check_names(rep, r, '[%s]' % ','.join(t))
    # R6 no-criterion path
    r0 = lpfacts.get_run(repo, False, False, [])
    s0 = r0.of('solve')
    rep.check(len(s0) == 1 and not s0[0].sym_ifs and not s0[0].loops, 'C02.R6', repo.method('LP_Solver', 'run').where, 'exactly one plain solve when no criterion is requested',
              got='%d solves' % len(s0), want='1', construct='no-criterion solve count')
    from .c14 import check_status_plumbing
    check_status_plumbing(rep, repo, rule='C02.R6')
    from ..defined import check_defined
    check_defined(rep, repo, 'C02.R7', [repo.method('Solver', '__init__'), repo.method('Solver', 'solve'), repo.method('Solver', 'get_results_short'), repo.method('Solver', 'get_results_long')], 'solver path')
    # R4 tables
    from .c16 import check_tables
    check_tables(rep, repo, 'C02.R4')
    for name, sp in spec.CRITERIA.items():
        # scalar flags deliver None: the method must not touch the extras
        if sp['nextras'] == 0:
            r = lpfacts.get_run(repo, False, False, [(name, None)])
            check_exceptions(rep, r, '[%s with None extras]' % name)
