"""C01 -- reported matching is a valid matching (DESIGN.md section 5, C01).

Decides: every solution of the problem handed to PuLP is a valid matching, for every configuration:
R1 var-domain, R2 validity schema, R3 must-precede-every-solve / single problem object, R4 grouping schema,
R5 read-back schema.  Not decided: that CBC returns integral values (A6)."""
from ..terms import *
from ..poly import *
from .. import lp, spec, lpfacts
from ..absint import Interp, iter_effects, collect_acc
from ..loader import AnalysisError

RULES = {
    'C01.R1': 'decision variables x (and project-closure variables) are declared Binary',
    'C01.R2': 'the constraint families added to the LP equal the 7 reference validity families (linear normal form)',
    'C01.R3': 'all validity families are added unconditionally before any solve, on the single problem object that is solved',
    'C01.R4': 'project/lecturer grouping = scatter of ALL pairs by their OWN project/lecturer index, sized by the agent count',
    'C01.R5': 'matching read back from the same variables: all pairs, selected by truthy varValue, written at the student index',
}

SPECIALISATIONS = [(pc, stab) for pc in (False, True) for stab in (False, True)]


def run(rep, repo, tier):
    for k, v in RULES.items():
        rep.rule(k, v)
    rep.assumptions += ['A1 well-formed instance', 'A3 PuLP semantics of LpVariable / += / solve', 'A6 CBC returns exact 0/1 values']
    crit_sets = [[], [lpfacts.crit_config('MAXSIZE')]]
    if tier == 'thorough':
        crit_sets += [[lpfacts.crit_config(n)] for n in spec.CRITERIA if n != 'MAXSIZE']
        crit_sets += [[lpfacts.crit_config('LOADSUMBAL'), lpfacts.crit_config('GENEROUS'), lpfacts.crit_config('MINCOST')]]
    for pc, stab in SPECIALISATIONS:
        for crit in crit_sets:
            r = lpfacts.get_run(repo, pc, stab, crit)
            check_run(rep, r, pc, stab, crit)
            rep.count('specialisations')
    check_grouping(rep, repo)
    check_readback(rep, repo)


def cfgname(pc, stab, crit):
    return 'pc=%s stab=%s criteria=[%s]' % (pc, stab, ','.join(c[0] for c in crit))


def check_run(rep, r, pc, stab, crit):
    cfg = cfgname(pc, stab, crit)
    first = r.first_solve()
    where_run = r.repo.method('LP_Solver', 'run').where
    if first is None:
        rep.fail('C01.R3', where_run, 'a solve is reached [%s]' % cfg, got='no solve effect on the LP path', construct='no-solve')
        return
    # R3: single problem object
    probs = r.of('newprob')
    rep.check(len(probs) == 1, 'C01.R3', probs[0].where if probs else where_run,
              'exactly one LpProblem is created per solve() [%s]' % cfg, got='%d LpProblem constructions' % len(probs),
              want='1', construct='newprob-count')
    recvs = {show(e.eff.recv) for e in r.of('addc', 'solve', 'setobj')}
    rep.check(len(recvs) == 1, 'C01.R3', where_run, 'constraints, objective and solve use the same problem object [%s]' % cfg,
              got=sorted(recvs), want='one receiver', construct='receiver-set')
    # R1: variable domains
    for d in r.declvars():
        ev = d['ev']
        carried = None
        for e2 in r.events:
            if e2.kind == 'store' and e2.eff.value == ev.eff.var and e2.eff.target[0] == 'attr':
                carried = e2.eff.target[2]
            if e2.kind == 'append' and e2.eff.value == ev.eff.var:
                carried = lp.model_attr(e2.eff.target)
        role = r.canon.attr_letter.get(carried) or (r.canon.arr_letter.get(carried) or (None,))[0]
        if role in ('x', 'c'):
            ok = d.get('cat') == 'Binary' or (d.get('cat') == 'Integer' and d.get('low') == {} and d.get('up') == pconst(1))
            rep.check(ok, 'C01.R1', ev.where, 'variable %s (role %s) is 0/1 [%s]' % (d.get('name'), role, cfg),
                      got='cat=%s low=%s up=%s' % (d.get('cat'), d.get('low') and pshow(d['low']), d.get('up') and pshow(d['up'])),
                      want="cat='Binary' (or Integer in [0,1])", construct='domain of %s' % role, loc=ev.loc)
    have_x = any(a == 'lp_var' or r.canon.attr_letter.get(a) == 'x' for a in r.canon.var_attrs)
    rep.check(have_x, 'C01.R1', where_run, 'decision variables are declared for every pair [%s]' % cfg, got=list(r.canon.var_attrs),
              construct='x-declared')
    # R2/R3: validity families before the first solve, unconditional
    need = [k for k, v in spec.VALIDITY.items() if v[2] == 'always' or v[2] == ('pc' if pc else 'nopc')]
    pre = [e for e in r.of('addc') if e.order < first]
    for k in need:
        ref = lpfacts.ref_family(spec.VALIDITY[k])
        hits = [e for e in pre if e.fam is not None and e.fam.core() == ref.core()]
        uncond = [e for e in hits if not e.sym_ifs and all(c.kind == 'for' for c in e.loops)]
        if uncond:
            rep.ok('C01.R2', uncond[0].where, 'validity family %s present [%s]' % (k, cfg), got=uncond[0].fam.text(), want=ref.text(), loc=uncond[0].loc)
            # nothing may leave the path before it
            exits = [x for x in r.events if x.order < uncond[0].order and x.kind in ('return', 'raise') and x.sym_ifs]
            rep.check(not exits, 'C01.R3', uncond[0].where, 'family %s is reached on every path to the first solve [%s]' % (k, cfg),
                      got=[x.loc for x in exits], construct='conditional exit before %s' % k)
            continue
        if hits:
            e = hits[0]
            rep.fail('C01.R3', e.where, 'validity family %s is added on every path before the first solve [%s]' % (k, cfg),
                     got='added only under: ' + ' and '.join(show(c.cond if br else NOT(c.cond)) for c, br in e.sym_ifs),
                     want='unconditional', construct='conditional %s' % k, loc=e.loc)
            continue
        late = [e for e in r.of('addc') if e.fam is not None and e.fam.core() == ref.core()]
        if late:
            rep.fail('C01.R3', late[0].where, 'validity family %s precedes every solve [%s]' % (k, cfg),
                     got='first added after a solve', want='before the first solve', construct='late %s' % k, loc=late[0].loc)
            continue
        # nearest recognised family: same quantifiers and same summed variable
        near = [e for e in pre if e.fam is not None and e.fam.quants == ref.quants and
                {m.var for m in e.fam.monos if m.sumvar} == {m.var for m in ref.monos if m.sumvar} and e.fam.core() not in ref_keys(pc)]
        if near:
            e = near[0]
            rep.fail('C01.R2', e.where, 'validity family %s equals the reference [%s]' % (k, cfg), got=e.fam.text(), want=ref.text(),
                     construct='%s deviates: %s' % (k, e.fam.text()), loc=e.loc)
        else:
            bad = [e for e in pre if e.fam is None]
            if bad:
                rep.inconclusive('C01.R2', bad[0].where, 'validity family %s not found and a constraint could not be normalised [%s]' % (k, cfg),
                                 got=bad[0].err, loc=bad[0].loc)
            else:
                rep.fail('C01.R2', where_run, 'validity family %s is present [%s]' % (k, cfg), got='absent', want=ref.text(),
                         construct='%s absent' % k)


def ref_keys(pc):
    return {lpfacts.ref_family(v).core() for v in spec.VALIDITY.values()}


# ---- R4 -------------------------------------------------------------------------------------------
GROUPS = [('set_project_lists', 'project_lists', 'num_projects', 'project_index', 0),
          ('set_lecturer_lists', 'lecturer_lists', 'num_lecturers', 'lecturer_index', 0)]


def check_grouping(rep, repo, groups=GROUPS, rule='C01.R4'):
    for meth, attr, count, key, off in groups:
        f = repo.method('Model', meth)
        it = Interp(repo)
        try:
            effs, _ = it.run(f, {}, selfterm=lp.MODEL)
        except Unknown as u:
            rep.inconclusive(rule, f.where, 'grouping function is inside the interpreted fragment', got=str(u))
            continue
        check_scatter(rep, rule, f, effs, attr, count, key, off)


def check_scatter(rep, rule, f, effs, attr, count, key, off, sizeterm=None):
    target = A(lp.MODEL, attr)
    inits = [e for e, c in iter_effects(effs) if e.kind == 'store' and e.target == target]
    apps = [(e, c) for e, c in iter_effects(effs) if e.kind == 'append' and (e.target == target or (e.target[0] == 'idx' and e.target[1] == target))]
    stores = [(e, c) for e, c in iter_effects(effs) if e.kind in ('store', 'augstore') and e.target[0] == 'idx' and e.target[1] == target]
    if stores:
        e = stores[0][0]
        rep.fail(rule, f.where, '%s accumulates every pair (never overwrites a slot)' % attr, got='slot assignment %s = %s' % (show(e.target), show(e.value)[:80]),
                 want='append of each pair', construct='%s slot overwritten' % attr, loc=e.loc)
        return
    # initialiser: [[] for _ in range(count)]
    okinit = False
    if len(inits) == 1:
        v = inits[0].value
        if v[0] == 'comp' and len(v[1]) == 1 and v[2] == ('list', ()):
            dom = v[1][0][0][3]
            want = sizeterm if sizeterm is not None else A(lp.MODEL, count)
            okinit = dom == CALL(S('range'), [want]) and v[1][0][1] == TRUE
    rep.check(okinit, rule, f.where, '%s is initialised to one empty list per agent (%s)' % (attr, count),
              got=show(inits[0].value) if inits else 'no initialiser', want='[[] for _ in range(%s)]' % count,
              construct='%s initialiser' % attr, loc=inits[0].loc if inits else None)
    good = []
    for e, ctx in apps:
        fors = [c for c, _ in ctx if c.kind == 'for']
        ifs = [c for c, _ in ctx if c.kind == 'if']
        if e.op != 'append' or e.target[0] != 'idx' or len(fors) != 2 or ifs:
            continue
        rows, elem = fors[0].binder, fors[1].binder
        if rows[3] != A(lp.MODEL, 'pairs') or elem[3] != rows or e.value != elem:
            continue
        k = e.target[2]
        wantk = A(elem, key) if off == 0 else BIN('Sub', A(elem, key), C(off))
        if k == wantk:
            good.append(e)
        else:
            rep.fail(rule, f.where, 'each pair is filed under its own %s' % key, got=show(k), want=show(wantk),
                     construct='%s key %s' % (attr, show(k).replace(show(elem), 'pair')), loc=e.loc)
            return
    if len(good) == 1 and len(apps) == 1:
        rep.ok(rule, f.where, '%s = scatter of all pairs by pair.%s' % (attr, key), got='for row in pairs: for pair in row: %s[pair.%s%s].append(pair)' % (attr, key, '' if not off else ' - %d' % off), loc=good[0].loc)
    elif not apps:
        rep.fail(rule, f.where, 'every pair is appended to %s' % attr, got='no append into %s' % attr, want='append of each pair', construct='%s no-append' % attr)
    else:
        e = apps[0][0]
        ifs = [c for c, _ in apps[0][1] if c.kind == 'if']
        if ifs:
            rep.fail(rule, f.where, 'ALL pairs are filed (no filter)', got='append guarded by ' + show(ifs[0].cond), want='unconditional', construct='%s filtered' % attr, loc=e.loc)
        else:
            rep.inconclusive(rule, f.where, '%s grouping idiom recognised' % attr, got=show(e.target) + ' <- ' + show(e.value), loc=e.loc)


# ---- R5 ---------------------------------------------------------------------------------------------
def check_readback(rep, repo):
    rule = 'C01.R5'
    for meth in ('_get_pair_assignments', '_get_pair_assignments_with_none'):
        f = repo.method('Model', meth)
        it = Interp(repo)
        try:
            effs, rv = it.run(f, {}, selfterm=lp.MODEL)
        except Unknown as u:
            rep.inconclusive(rule, f.where, 'read-back function is inside the interpreted fragment', got=str(u))
            continue
        # selected pairs: appended values under a guard on pair.lp_var.varValue, ranging over all pairs
        sel = []
        for e, ctx in iter_effects(effs):
            if e.kind == 'acc' and e.op == 'append' and e.value[0] == 'bvar':
                fors = [c for c, _ in ctx if c.kind == 'for']
                ifs = [(c, br) for c, br in ctx if c.kind == 'if']
                sel.append((e, fors, ifs))
        if not sel:
            rep.fail(rule, f.where, 'assigned pairs are collected', got='no pair is appended', construct='no-append')
            continue
        for e, fors, ifs in sel:
            pair = e.value
            okdom = len(fors) == 2 and fors[0].binder[3] == A(lp.MODEL, 'pairs') and fors[1].binder[3] == fors[0].binder and pair == fors[1].binder
            rep.check(okdom, rule, f.where, 'read-back ranges over all pairs of all students', got=[show(x.binder[3]) for x in fors],
                      want='for row in pairs: for pair in row', construct='readback domain', loc=e.loc)
            guards = [c.cond if br else NOT(c.cond) for c, br in ifs]
            vv = A(A(pair, 'lp_var'), 'varValue')
            okg = len(guards) == 1 and truthy_of(guards[0], vv)
            rep.check(okg, rule, f.where, 'a pair is reported iff its own decision variable is set', got=[show(g) for g in guards],
                      want='pair.lp_var.varValue (truthy, or > threshold in (0,1))', construct='readback guard ' + ' & '.join(show(g).replace(show(pair), 'pair') for g in guards), loc=e.loc)
    f = repo.method('Model', '_get_matching_string')
    it = Interp(repo)
    try:
        effs, rv = it.run(f, {}, selfterm=lp.MODEL)
    except Unknown as u:
        rep.inconclusive(rule, f.where, 'matching-string function is inside the interpreted fragment', got=str(u))
        return
    # ' '.join(ACCUM(['0']*num_students; setidx[pair.student_index] str(pair.projectID) for pair in pair_assignments))
    ok = False
    got = show(rv)
    if rv[0] == 'call' and rv[1] == A(C(' '), 'join') and len(rv[2]) == 1 and rv[2][0][0] == 'accum':
        acc = rv[2][0]
        pre, entries = acc[1], acc[2]
        if pre == BIN('Mult', ('list', (C('0'),)), A(lp.MODEL, 'num_students')) and len(entries) == 1:
            op, idx, val, ch = entries[0]
            b = ch[0][0]
            ok = (op == 'setidx' and len(ch) == 1 and ch[0][1] == TRUE and b[3] == S('pair_assignments')
                  and idx == A(b, 'student_index') and val == CALL(S('str'), [A(b, 'projectID')]))
    rep.check(ok, rule, f.where, "matching line: '0' per student, project ID written at the student's own index",
              got=got[:200], want="' '.join(['0']*num_students with [pair.student_index] = str(pair.projectID))", construct='matching-string schema')


def truthy_of(g, vv):
    if g == vv:
        return True
    if g[0] == 'cmp' and g[2] == vv and g[1] in ('Gt', 'GtE') and is_num(g[3]) and 0 < g[3][1] < 1:
        return True
    if g[0] == 'cmp' and g[2] == vv and g[1] == 'Eq' and g[3] == C(1):
        return True
    if g[0] == 'cmp' and g[2] == vv and g[1] == 'Gt' and g[3] == C(0):
        return True
    return False
